"""c13_fv: abstract values of the interval interpreter c13_fi.

FV  floating value: the finite values lie in [lo, hi] (IEEE doubles; lo = -inf / hi = +inf as *bounds* mean
    "unbounded finite", used for x86_fp80 values beyond the double range), flags say whether the value may be
    +inf, -inf or NaN, `integral` says that every finite value is an integer.
    The concrete operations are IEEE round-to-nearest, which is monotone in every argument: evaluating the same
    operation on the end points in Python (also IEEE double, round-to-nearest) bounds every computed result.
    Operations carried out in x86_fp80 and narrowed later may round twice: their bounds are widened by one ulp.
IV  integer value: [lo, hi] (mathematical integers) plus optional known bits (mask, value).
PV  pointer: alternatives (object, lo, hi) with a byte offset interval.
CV  i1 value: a condition tree over SSA operands, refined at branches.
"""
import math
import struct
from fractions import Fraction

DBL_MAX = 1.7976931348623157e308
DBL_TRUE_MIN = 5e-324
INF = float('inf')
TWO52 = 4503599627370496.0


def nxt_up(x):
    return math.nextafter(x, INF)


def nxt_dn(x):
    return math.nextafter(x, -INF)


class FV:
    __slots__ = ('lo', 'hi', 'nan', 'pinf', 'ninf', 'integral', 'gran')

    def __init__(self, lo=None, hi=None, nan=False, pinf=False, ninf=False, integral=False, gran=0.0):
        if lo is None:          # no finite value
            lo, hi = INF, -INF
        self.lo, self.hi = lo, hi
        self.nan, self.pinf, self.ninf = nan, pinf, ninf
        self.integral = integral
        self.gran = gran        # every finite value is a multiple of this power of two (0.0: nothing known)

    @staticmethod
    def top(bits=64):
        b = DBL_MAX if bits <= 64 else INF
        return FV(-b, b, True, True, True, False)

    @staticmethod
    def const(c):
        if c != c:
            return FV(nan=True)
        if c == INF:
            return FV(pinf=True)
        if c == -INF:
            return FV(ninf=True)
        return FV(c, c, integral=(c == math.floor(c)))

    @property
    def fin(self):
        return self.lo <= self.hi

    @property
    def empty(self):
        return not (self.fin or self.nan or self.pinf or self.ninf)

    @property
    def special(self):
        return self.nan or self.pinf or self.ninf

    def xlo(self):
        """smallest non-NaN value as an extended real (None when there is none)"""
        if self.ninf:
            return -INF
        if self.fin:
            return self.lo
        return INF if self.pinf else None

    def xhi(self):
        if self.pinf:
            return INF
        if self.fin:
            return self.hi
        return -INF if self.ninf else None

    def copy(self):
        return FV(self.lo, self.hi, self.nan, self.pinf, self.ninf, self.integral, self.gran)

    def key(self):
        return ('F', self.lo, self.hi, self.nan, self.pinf, self.ninf, self.integral, self.gran)

    def nonzero(self):
        """the value is known to differ from zero"""
        r = self.copy()
        if r.fin:
            if r.lo == 0 and r.hi == 0:
                r.lo, r.hi = INF, -INF
            elif r.lo == 0:
                r.lo = 1.0 if r.integral else max(nxt_up(0.0), r.gran)
            elif r.hi == 0:
                r.hi = -1.0 if r.integral else min(nxt_dn(0.0), -r.gran)
        return r

    def join(self, o):
        if self.fin and o.fin:
            lo, hi, integ, g = min(self.lo, o.lo), max(self.hi, o.hi), self.integral and o.integral, min(self.gran, o.gran)
        elif self.fin:
            lo, hi, integ, g = self.lo, self.hi, self.integral, self.gran
        elif o.fin:
            lo, hi, integ, g = o.lo, o.hi, o.integral, o.gran
        else:
            lo, hi, integ, g = INF, -INF, True, 0.0
        return FV(lo, hi, self.nan or o.nan, self.pinf or o.pinf, self.ninf or o.ninf, integ, g)

    def widen(self, n, bits=64):
        """self: old, n: join(old, new)"""
        b = DBL_MAX if bits <= 64 else INF
        lo, hi = n.lo, n.hi
        if self.fin and n.fin:
            if n.lo < self.lo:
                lo = -b
            if n.hi > self.hi:
                hi = b
        return FV(lo, hi, n.nan, n.pinf, n.ninf, n.integral, n.gran)

    def __repr__(self):
        s = '[%r, %r]' % (self.lo, self.hi) if self.fin else '[]'
        return 'F%s%s%s%s%s' % (s, '+inf' if self.pinf else '', '-inf' if self.ninf else '', ' nan' if self.nan else '',
                               ' int' if self.integral and self.fin else '')

    # ---- clipping (refinement); all return a new value, possibly empty
    def clip_ge(self, c, strict=False):
        """keep the non-NaN values >= c (> c when strict); NaN kept"""
        r = self.copy()
        if c is None:
            return r
        if c > -INF or strict:
            r.ninf = False
        if c == INF:
            r.lo, r.hi = INF, -INF
            if strict:
                r.pinf = False
            return r
        if r.fin and c > -INF:
            b = c
            if strict and b >= r.lo:
                b = nxt_up(b)
                if r.integral:
                    b = float(math.floor(c) + 1)
            elif r.integral and b > r.lo:
                b = float(math.ceil(b))
            if b > r.lo:
                r.lo = b
        return r

    def clip_le(self, c, strict=False):
        r = self.copy()
        if c is None:
            return r
        if c < INF or strict:
            r.pinf = False
        if c == -INF:
            r.lo, r.hi = INF, -INF
            if strict:
                r.ninf = False
            return r
        if r.fin and c < INF:
            b = c
            if strict and b <= r.hi:
                b = nxt_dn(b)
                if r.integral:
                    b = float(math.ceil(c) - 1)
            elif r.integral and b < r.hi:
                b = float(math.floor(b))
            if b < r.hi:
                r.hi = b
        return r

    def no_nan(self):
        r = self.copy()
        r.nan = False
        return r


def fl80(fr):
    """round an exact rational to the nearest x86_fp80 number (64-bit significand, ties to even; the exponent range is
    not a concern for operands in the double range)"""
    if fr == 0:
        return fr
    neg = fr < 0
    if neg:
        fr = -fr
    e = fr.numerator.bit_length() - fr.denominator.bit_length()
    if Fraction(2) ** e > fr:
        e -= 1
    sc = Fraction(2) ** (e - 63)
    q = fr / sc
    n = q.numerator // q.denominator
    rem = q - n
    if rem > Fraction(1, 2) or (rem == Fraction(1, 2) and n % 2 == 1):
        n += 1
    r = n * sc
    return -r if neg else r


def dbl_up(fr):
    """smallest double >= fr (inf when there is none)"""
    try:
        d = float(fr)
    except OverflowError:
        return INF if fr > 0 else -DBL_MAX
    if Fraction(d) < fr:
        d = nxt_up(d)
    return d


def dbl_dn(fr):
    try:
        d = float(fr)
    except OverflowError:
        return -INF if fr < 0 else DBL_MAX
    if Fraction(d) > fr:
        d = nxt_dn(d)
    return d


def op80(kind, x, y):
    """(lo, hi): doubles enclosing the x86_fp80 result of x kind y for double operands (every later narrowing to
    double, being monotone and the identity on doubles, stays inside)"""
    fx, fy = Fraction(x), Fraction(y)
    if kind == 'add':
        e = fx + fy
    elif kind == 'mul':
        e = fx * fy
    else:
        e = fx / fy
    r = fl80(e)
    return dbl_dn(r), dbl_up(r)


def _finite(*xs):
    return all(x == x and x not in (INF, -INF) for x in xs)


def f_from_bits(bitsd):
    return struct.unpack('<d', struct.pack('<Q', int(bitsd) & 0xffffffffffffffff))[0]


def _overflow(r, bits):
    """finite bounds that left the double range became infinities (double) or stay 'unbounded finite' (fp80)"""
    if not r.fin:
        return r
    if bits <= 64:
        if r.hi > DBL_MAX:
            r.pinf = True
            r.hi = DBL_MAX
        if r.lo < -DBL_MAX:
            r.ninf = True
            r.lo = -DBL_MAX
        if r.lo > DBL_MAX:
            r.lo, r.hi = INF, -INF
        elif r.hi < -DBL_MAX:
            r.lo, r.hi = INF, -INF
    else:
        if r.hi == INF:
            r.pinf = True
        if r.lo == -INF:
            r.ninf = True
    return r


def f_neg(a):
    r = FV(-a.hi, -a.lo, a.nan, a.ninf, a.pinf, a.integral, a.gran) if a.fin else FV(nan=a.nan, pinf=a.ninf, ninf=a.pinf)
    return r


def f_abs(a):
    r = FV(nan=a.nan, pinf=a.pinf or a.ninf)
    if a.fin:
        if a.lo >= 0:
            r.lo, r.hi = a.lo, a.hi
        elif a.hi <= 0:
            r.lo, r.hi = -a.hi, -a.lo
        else:
            r.lo, r.hi = 0.0, max(-a.lo, a.hi)
        r.integral = a.integral
        r.gran = a.gran
    return r


def f_add(a, b, bits=64, sub=False):
    if sub:
        b = f_neg(b)
    r = FV(nan=a.nan or b.nan or (a.pinf and b.ninf) or (a.ninf and b.pinf),
           pinf=(a.pinf and (b.fin or b.pinf)) or (b.pinf and (a.fin or a.pinf)),
           ninf=(a.ninf and (b.fin or b.ninf)) or (b.ninf and (a.fin or a.ninf)))
    if a.fin and b.fin:
        if bits > 64 and _finite(a.lo, a.hi, b.lo, b.hi):
            lo, hi = op80('add', a.lo, b.lo)[0], op80('add', a.hi, b.hi)[1]
        else:
            lo, hi = a.lo + b.lo, a.hi + b.hi
            if lo != lo:
                lo = -INF
            if hi != hi:
                hi = INF
        r.lo, r.hi = lo, hi
        r.integral = a.integral and b.integral
        _overflow(r, bits)
    return r


def _signs(a):
    s = set()
    if a.fin:
        if a.lo < 0:
            s.add('n')
        if a.hi > 0:
            s.add('p')
        if a.lo <= 0 <= a.hi:
            s.add('z')
    if a.pinf:
        s.add('P')
    if a.ninf:
        s.add('N')
    return s


def _special_products(a, b, r, div=False):
    """flags of a*b (or a/b) contributed by infinite operands and zero divisors"""
    sa, sb = _signs(a), _signs(b)
    for x in sa:
        for y in sb:
            xi, yi = x in 'PN', y in 'PN'
            if not div:
                if not (xi or yi):
                    continue
                if x == 'z' or y == 'z':
                    r.nan = True
                    continue
                neg = (x in 'nN') != (y in 'nN')
            else:
                if xi and yi:
                    r.nan = True
                    continue
                if yi:
                    continue            # finite / inf = 0: covered by the caller
                if y == 'z':
                    if x == 'z':
                        r.nan = True
                    else:               # x / +-0: the sign of the zero is unknown
                        r.pinf = r.ninf = True
                    continue
                if not xi:
                    continue
                neg = (x in 'nN') != (y in 'nN')
            if neg:
                r.ninf = True
            else:
                r.pinf = True


def _mulc(x, y):
    if x == 0 or y == 0:
        return 0.0
    return x * y


def f_mul(a, b, bits=64):
    r = FV(nan=a.nan or b.nan)
    _special_products(a, b, r)
    if a.fin and b.fin:
        if bits > 64 and _finite(a.lo, a.hi, b.lo, b.hi):
            c = [op80('mul', x, y) for x in (a.lo, a.hi) for y in (b.lo, b.hi)]
            r.lo, r.hi = min(x[0] for x in c), max(x[1] for x in c)
        else:
            c = [_mulc(a.lo, b.lo), _mulc(a.lo, b.hi), _mulc(a.hi, b.lo), _mulc(a.hi, b.hi)]
            r.lo, r.hi = min(c), max(c)
        r.integral = a.integral and b.integral
        _overflow(r, bits)
    return r


def f_div(a, b, bits=64):
    r = FV(nan=a.nan or b.nan)
    _special_products(a, b, r, div=True)
    if a.fin and (b.pinf or b.ninf):
        r.lo, r.hi = min(r.lo, 0.0), max(r.hi, 0.0)
    if a.fin and b.fin:
        parts = []
        if b.hi > 0:
            parts.append((max(b.lo, DBL_TRUE_MIN) if b.lo <= 0 else b.lo, b.hi))
        if b.lo < 0:
            parts.append((b.lo, min(b.hi, -DBL_TRUE_MIN) if b.hi >= 0 else b.hi))
        for (bl, bh) in parts:
            c = []
            for x in (a.lo, a.hi):
                for y in (bl, bh):
                    if x in (INF, -INF):
                        c.append(x if y > 0 else -x)
                    elif bits > 64 and _finite(x, y):
                        c.extend(op80('div', x, y))
                    else:
                        try:
                            c.append(x / y)
                        except OverflowError:
                            c.append(INF if (x > 0) == (y > 0) else -INF)
            lo, hi = min(c), max(c)
            r.lo, r.hi = (min(r.lo, lo), max(r.hi, hi)) if r.fin else (lo, hi)
        r.integral = False
        _overflow(r, bits)
    return r


def f_conv(a, frm, to):
    """fpext / fptrunc between double and x86_fp80 (other widths: nothing is known but the flags)"""
    r = a.copy()
    if to >= frm:
        return r
    if to == 64:
        return _overflow(r, 64)
    return FV(-DBL_MAX, DBL_MAX, a.nan, True, True, False)       # float32 etc: not modelled


def _rnd(fn, x):
    if x in (INF, -INF) or abs(x) >= TWO52:
        return x
    return float(fn(x))


def _round_half_away(x):
    return math.floor(x + 0.5) if x >= 0 else -math.floor(-x + 0.5)


ROUNDERS = {'round': _round_half_away, 'ceil': math.ceil, 'floor': math.floor, 'trunc': math.trunc,
            'rint': round, 'nearbyint': round}


def f_round(a, kind):
    r = a.copy()
    if a.fin:
        if kind in ('rint', 'nearbyint'):
            r.lo, r.hi = _rnd(math.floor, a.lo), _rnd(math.ceil, a.hi)
        else:
            r.lo, r.hi = _rnd(ROUNDERS[kind], a.lo), _rnd(ROUNDERS[kind], a.hi)
        r.integral = True
    return r


def f_is_integral(a):
    return a.fin and (a.integral or a.lo >= TWO52 or a.hi <= -TWO52 or (a.lo == a.hi and a.lo == math.floor(a.lo)))


def f_fmod(a, b):
    """fmod(a, b): exact in IEEE arithmetic; sign of a, magnitude below |b|"""
    r = FV(nan=a.nan or b.nan or a.pinf or a.ninf)
    if b.fin and b.lo <= 0 <= b.hi:
        r.nan = True
    if a.fin and (b.fin or b.pinf or b.ninf):
        bb = f_abs(b)
        bmax = INF if (bb.pinf or not bb.fin) else bb.hi
        bmin = bb.lo if bb.fin else INF
        lim = nxt_dn(bmax) if bmax < INF else INF
        integ = a.integral and bb.fin and bb.integral and not bb.pinf
        if integ and lim < INF:
            lim = float(math.ceil(bmax) - 1)
        lo, hi = 0.0, 0.0
        if a.hi > 0:
            hi = min(a.hi, lim)
        if a.lo < 0:
            lo = max(a.lo, -lim)
        if a.lo >= 0 and a.hi < bmin:
            lo = a.lo                   # the argument is already below the modulus
        if a.hi <= 0 and -a.lo < bmin:
            hi = a.hi
        r.lo, r.hi, r.integral = lo, hi, (integ or (a.integral and a.hi < bmin and -a.lo < bmin))
    return r


def f_modf_cases(a):
    """modf(a): list of (integral part, fractional part) case splits: a <= -1, -1 < a < 1, a >= 1, specials"""
    out = []
    if a.fin:
        if a.hi >= 1.0:
            lo = max(a.lo, 1.0)
            ip = FV(_rnd(math.trunc, lo), _rnd(math.trunc, a.hi), integral=True)
            # the fraction of a double >= lo is a multiple of ulp(lo)
            fp = FV(0.0, 0.0, integral=True) if (a.integral or lo >= TWO52) else FV(0.0, nxt_dn(1.0), gran=math.ulp(lo))
            out.append((ip, fp))
        if a.lo <= -1.0:
            hi = min(a.hi, -1.0)
            ip = FV(_rnd(math.trunc, a.lo), _rnd(math.trunc, hi), integral=True)
            fp = FV(0.0, 0.0, integral=True) if (a.integral or hi <= -TWO52) else FV(nxt_up(-1.0), 0.0, gran=math.ulp(hi))
            out.append((ip, fp))
        if a.lo < 1.0 and a.hi > -1.0:
            lo, hi = max(a.lo, nxt_up(-1.0)), min(a.hi, nxt_dn(1.0))
            if a.integral:
                lo = hi = 0.0
            out.append((FV(0.0, 0.0, integral=True), FV(lo, hi, integral=a.integral, gran=a.gran)))
    if a.pinf:
        out.append((FV(pinf=True), FV(0.0, 0.0, integral=True)))
    if a.ninf:
        out.append((FV(ninf=True), FV(0.0, 0.0, integral=True)))
    if a.nan:
        out.append((FV(nan=True), FV(nan=True)))
    return out


LIBM_SLACK = 8      # ulps granted to log10 / pow of the C library


def _slack(x, up):
    for _ in range(LIBM_SLACK):
        x = nxt_up(x) if up else nxt_dn(x)
    return x


def f_log10(a):
    r = FV(nan=a.nan or a.ninf or (a.fin and a.lo < 0), pinf=a.pinf)
    if a.fin and a.hi >= 0:
        if a.lo <= 0:
            r.ninf = True
        lo = max(a.lo, DBL_TRUE_MIN)
        if a.hi > 0:
            r.lo = _slack(math.log10(lo), False)
            r.hi = _slack(math.log10(a.hi), True) if a.hi < INF else INF
            if lo == a.hi and lo in (1.0, 10.0, 100.0):
                r.lo = r.hi = math.log10(lo)
    return r


def f_pow(a, b):
    """pow(a, b) for a > 0 finite and b finite; anything else is unknown"""
    if a.special or b.special or not (a.fin and b.fin) or a.lo <= 0:
        return FV.top()
    c = []
    ov = False
    for x in (a.lo, a.hi):
        for y in (b.lo, b.hi):
            try:
                c.append(math.pow(x, y))
            except OverflowError:
                ov = True
                c.append(INF)
    r = FV(_slack(min(c), False), min(_slack(max(c), True), INF) if max(c) < INF else INF)
    r.lo = max(r.lo, 0.0)
    if ov or r.hi > DBL_MAX:
        r.pinf = True
        r.hi = DBL_MAX
        if r.lo > DBL_MAX:
            r.lo, r.hi = INF, -INF
    r.integral = a.integral and b.integral and b.lo >= 0 and r.fin and r.hi < TWO52 * 2
    return r


# ----------------------------------------------------------------------------------------------
class IV:
    __slots__ = ('lo', 'hi', 'km', 'kv', 'tag', 'vs', 'poison')

    def __init__(self, lo, hi, km=0, kv=0, tag=None, vs=None, poison=None):
        self.lo, self.hi = lo, hi
        self.km, self.kv = km, kv          # known bits: mask, value
        self.tag = tag                     # operand of the bitcast float -> int that produced this value
        self.vs = vs if vs is not None else (frozenset((lo,)) if lo == hi else None)   # small set of possible values
        self.poison = poison               # (inst, detail) of an undefined float -> int conversion this value stems from

    @staticmethod
    def top(bits):
        if bits == 1:
            return IV(0, 1)
        return IV(-(1 << (bits - 1)), (1 << (bits - 1)) - 1)

    @staticmethod
    def const(c):
        return IV(c, c)

    @property
    def single(self):
        return self.lo == self.hi

    def key(self):
        return ('I', self.lo, self.hi, self.km, self.kv, self.vs)

    def join(self, o):
        km = self.km & o.km & ~(self.kv ^ o.kv)
        vs = None
        if self.vs is not None and o.vs is not None and len(self.vs | o.vs) <= 8:
            vs = self.vs | o.vs
        return IV(min(self.lo, o.lo), max(self.hi, o.hi), km, self.kv & km, vs=vs, poison=self.poison or o.poison)

    def values(self):
        """the possible values as a set (None when there are too many)"""
        if self.vs is not None:
            return set(v for v in self.vs if self.lo <= v <= self.hi)
        if self.hi - self.lo < 64:
            return set(range(self.lo, self.hi + 1))
        return None

    def widen(self, n, bits):
        t = IV.top(bits)
        return IV(n.lo if n.lo >= self.lo else min(t.lo, n.lo), n.hi if n.hi <= self.hi else max(t.hi, n.hi), n.km, n.kv,
                  poison=n.poison)

    def __repr__(self):
        s = 'I[%d, %d]' % (self.lo, self.hi)
        if self.km:
            s += ' bits(%#x=%#x)' % (self.km, self.kv)
        return s


class PV:
    """pointer: alts = tuple of (object, lo, hi)"""
    __slots__ = ('alts',)

    def __init__(self, alts):
        m = {}
        for (o, lo, hi) in alts:
            if o in m:
                m[o] = (min(m[o][0], lo), max(m[o][1], hi))
            else:
                m[o] = (lo, hi)
        self.alts = tuple(sorted(((o, lo, hi) for o, (lo, hi) in m.items()), key=lambda a: str(a[0])))

    @property
    def single(self):
        return len(self.alts) == 1 and self.alts[0][1] == self.alts[0][2]

    def key(self):
        return ('P', self.alts)

    def join(self, o):
        return PV(self.alts + o.alts)

    def widen(self, n):
        old = {a[0]: a for a in self.alts}
        out = []
        for (o, lo, hi) in n.alts:
            if o in old:
                if lo < old[o][1]:
                    lo = -(1 << 40)
                if hi > old[o][2]:
                    hi = 1 << 40
            out.append((o, lo, hi))
        return PV(out)

    def shift(self, lo, hi):
        return PV([(o, a + lo, b + hi) for (o, a, b) in self.alts])

    def __repr__(self):
        return 'P(%s)' % ', '.join('%s+[%d,%d]' % a for a in self.alts)


class CV:
    """condition: op in fcmp icmp and or not const unk sign;  val: True / False / None"""
    __slots__ = ('op', 'args', 'val', 'poison')

    def __init__(self, op, args=(), val=None, poison=None):
        self.op, self.args, self.val, self.poison = op, args, val, poison

    def key(self):
        return ('C', self.val)

    def join(self, o):
        return CV('unk', (), self.val if self.val == o.val else None)

    def __repr__(self):
        return 'C(%s %r)' % (self.op, self.val)


class Unknown:
    def key(self):
        return ('U',)

    def join(self, o):
        return self

    def __repr__(self):
        return '?'


UNK = Unknown()


def vjoin(a, b):
    if a is b:
        return a
    if type(a) is type(b) and not isinstance(a, Unknown):
        return a.join(b)
    return UNK
