"""C09 binary serialization: wire grammar of every writer equals that of its reader, counts are 16 bit,
scalars are their sizeof image, counted blocks are consumed completely, cursors of the concrete
readers/writers advance by what they copy, the bounded storage reader clamps (DESIGN.md 5/C09)."""
import re

from common import *
from irlib import tyname
from c09_wire import (Exec, St, Leaf, Grammar, Norm, Unsupported, C, is_const, fmt_term, fmt_lin, lin_key,
                      grammar_tokens, strip_ext, subterms)

WIT_A = 'w_c09_serialize.cpp'
WIT_B = 'w_c09_archive20.cpp'

LEAF_A = Leaf({'dump_data': 'write', 'load_data': 'read', 'skip': 'skip', 'pointer': 'pure', 'end': 'pure'},
              lambda f: None)


def _direct_b(f):
    if f.scope.startswith('igris::serializer<') and f.srcname == 'dump':
        return 'write'
    if f.scope.startswith('igris::deserializer<') and f.srcname == 'load':
        return 'read'
    return None


LEAF_B = Leaf({}, _direct_b)


# --------------------------------------------------------------------------- type labels
def split_targs(s):
    """'serialize<A, B<C, D> >' -> ['A', 'B<C, D>']"""
    i = s.find('<')
    if i < 0:
        return []
    depth = 0
    cur = ''
    out = []
    for ch in s[i + 1:]:
        if ch == '<':
            depth += 1
        elif ch == '>':
            if depth == 0:
                break
            depth -= 1
        if ch == ',' and depth == 0:
            out.append(cur.strip())
            cur = ''
        else:
            cur += ch
    if cur.strip():
        out.append(cur.strip())
    return out


def _drop_defaults(t):
    # remove ', std::allocator<...>', ', std::less<...>', ', std::char_traits<...>' arguments (balanced)
    for word in ('std::allocator<', 'std::less<', 'std::char_traits<'):
        while True:
            i = t.find(', ' + word)
            if i < 0:
                break
            j = i + 2 + len(word)
            depth = 1
            while j < len(t) and depth:
                depth += {'<': 1, '>': -1}.get(t[j], 0)
                j += 1
            t = t[:i] + t[j:]
    return t


def pretty(t):
    t = t.replace('std::__cxx11::basic_string<char, std::char_traits<char>, std::allocator<char> >', 'std::string')
    t = _drop_defaults(t)
    t = t.replace('std::__cxx11::', 'std::')
    t = re.sub(r'\s+>', '>', t)
    t = t.replace('igris::archive::', '')
    return t


def short_fn(q):
    q = pretty(q)
    return q if len(q) < 160 else q[:157] + '...'


# --------------------------------------------------------------------------- roots
def roots_a(mod):
    """pairs (writer igris::serialize<W,X>, reader igris::deserialize<R,X>) instantiated in the unit"""
    ws, rs = {}, {}
    for f in mod.defined():
        if f.scope != 'igris::' or len(f.params) != 2 or f.params[0].get('sret'):
            continue
        if f.params[0]['ty']['k'] != 'ptr' or f.params[1]['ty']['k'] != 'ptr':
            continue
        arch = tyname(f.params[0]['ty']['elem'])
        if not arch.startswith('class.igris::archive::binary_'):
            continue
        basic = arch.endswith('_basic')
        ta = split_targs(f.srcname)
        key = (f.params[1]['ty']['elem'], basic, pretty(ta[1]) if len(ta) == 2 else '')
        if f.srcname.startswith('serialize<'):
            ws.setdefault(key, []).append(f)
        elif f.srcname.startswith('deserialize<'):
            rs.setdefault(key, []).append(f)
    out = []
    for key in sorted(set(ws) & set(rs)):
        if len(ws[key]) != 1 or len(rs[key]) != 1:
            raise AnalysisBroken('ambiguous serializer instantiations for %s' % (key,))
        w, r = ws[key][0], rs[key][0]
        ta = split_targs(w.srcname)
        label = pretty(ta[1]) if len(ta) == 2 else key[0]
        wa, ra = split_targs(w.srcname)[0], split_targs(r.srcname)[0]
        out.append({'label': label, 'via': '%s/%s' % (pretty(wa), pretty(ra)), 'w': w, 'r': r, 'type': key[0],
                    'basic': key[1], 'elem': f_elem(w), 'family': 'A'})
    return out


def f_elem(f):
    return f.params[1]['ty']


def roots_b(mod):
    ws, rs = {}, {}
    for f in mod.defined():
        if len(f.params) != 2 or f.params[0].get('sret') or f.params[0]['name'] != 'this':
            continue
        if f.params[1]['ty']['k'] != 'ptr':
            continue
        ta = split_targs(f.srcname)
        key = f.params[1]['ty']['elem'] + '|' + (pretty(ta[0]) if ta else '')
        if f.scope.startswith('igris::serializer<') and f.srcname.startswith('serialize<'):
            ws.setdefault(key, []).append(f)
        elif f.scope.startswith('igris::deserializer<') and f.srcname.startswith('deserialize<'):
            rs.setdefault(key, []).append(f)
    out = []
    for key in sorted(set(ws) & set(rs)):
        if len(ws[key]) != 1 or len(rs[key]) != 1:
            raise AnalysisBroken('ambiguous serializer instantiations for %s' % (key,))
        w, r = ws[key][0], rs[key][0]
        if 'serialize_list_tag<' in key or 'serialize_dict_tag<' in key:
            continue        # protocol tags are part of their container's encoding (inlined)
        out.append({'label': pretty(split_targs(w.srcname)[0]), 'via': 'serializer/deserializer', 'w': w, 'r': r,
                    'type': key.split('|')[0], 'basic': False, 'elem': f_elem(w), 'family': 'B'})
    return out


def is_scalar_root(r):
    return '%' not in r['type'].split('|')[0]


# --------------------------------------------------------------------------- extraction
def param_bits(f):
    return {n: p['ty'].get('bits', 64) for n, p in enumerate(f.params) if p['ty']['k'] == 'int'}


def extract(mod, repo, leaf, f, side, nt=None):
    ex = Exec(mod, repo, leaf, nt_funcs=nt or {}, start=f.name)
    args = [('arg', n) for n in range(len(f.params))]
    res = ex.run(f, args, St())
    out = []
    for (s, rv) in res:
        g = Grammar(s.tokens, side, param_bits(f), conds=s.conds)
        g.state = s
        g.ret = rv
        out.append(g)
    if not out:
        raise AnalysisBroken('%s: no path reaches a return' % f.qualname)
    return out


def canon_place(p):
    """pointer term relative to the serialised object (parameter 1), or None"""
    if p is None:
        return None
    if p == ('arg', 1):
        return ('obj', 0)
    k = p[0]
    if k == 'ptr':
        if p[1] == ('arg', 1):
            return ('obj', p[2])
        b = canon_place(p[1])
        if b is None:
            return None
        if b[0] == 'obj':
            return ('obj', b[1] + p[2])
        return ('ptr', b, p[2]) if p[2] else b
    if k == 'call':
        args = [canon_place(a) for a in p[2:]]
        if any(a is None for a in args) or not args:
            return None
        return ('call', p[1].replace(' const', '')) + tuple(args)
    if k == 'load' and len(p) == 3:
        b = canon_place(p[1])
        return None if b is None else ('deref', b)
    return None


def token_place(t, g):
    if t['k'] == 'nt':
        return canon_place(t['ptr'])
    if t['k'] in ('skip', 'loop'):
        return None
    if t['dir'] == 'w' and is_const(t['len']):
        v = t.get('val')
        if v is not None and v[0] == 'load' and len(v) == 3:
            return canon_place(v[1])
        if v is not None:
            # written by value from a local copy: follow the value to the place it was loaded from
            vv = strip_ext(v)
            if vv[0] == 'load' and len(vv) == 3:
                return canon_place(vv[1])
        return None
    return canon_place(t['ptr'])


def fmt_place(p):
    if p is None:
        return '?'
    if p[0] == 'obj':
        return 'obj+%d' % p[1]
    if p[0] == 'call':
        return '%s(%s)' % (p[1].split(',')[0] + ('>' if '<' in p[1].split(',')[0] and '>' not in p[1].split(',')[0] else ''),
                           ','.join(fmt_place(a) for a in p[2:]))
    if p[0] == 'deref':
        return '*' + fmt_place(p[1])
    if p[0] == 'ptr':
        return '%s+%d' % (fmt_place(p[1]), p[2])
    return str(p)


def first_diff(a, b):
    for n, (x, y) in enumerate(zip(a, b)):
        if x[:2] != y[:2]:
            return n
    return min(len(a), len(b)) if len(a) != len(b) else None


def helper_chain(tok):
    st = [s[0] for s in tok.get('stack', ()) if s and s[0]]
    seen = []
    for s in st:
        if s not in seen:
            seen.append(s)
    return ' > '.join(short_fn(s) for s in seen[-3:])


def helper_where(gs, default):
    """source position of the type specific helper (second frame of the call tree) if there is one"""
    for g in gs:
        for t in g.raw_tokens:
            st = t.get('stack') or ()
            for s in st[1:]:
                if 'serialize_helper<' in s[0] or 'binary_protocol' in s[0] or 'serialize_scheme<' in s[0] or '::reflect' in s[0] \
                        or '::serialize_reflect' in s[0]:
                    return '%s:%d' % (s[1], s[2])
    return default


def wire_rules(rep, mod, repo, leaf, roots, family):
    nt = {}
    names = {}
    for r in roots:
        if not is_scalar_root(r):
            nt[r['w'].name] = r['type']
            nt[r['r'].name] = r['type']
        names[r['type']] = r['label']
    for r in roots:
        fn = '%s [%s]' % (r['label'], r['via'])
        where = '%s:%d' % (r['w'].file, r['w'].line)
        gw = extract(mod, repo, leaf, r['w'], 'w', nt)
        gr = extract(mod, repo, leaf, r['r'], 'r', nt)
        where = helper_where(gw, where)
        rwhere = helper_where(gr, '%s:%d' % (r['r'].file, r['r'].line))
        kw = sorted(set(g.key() for g in gw))
        kr = sorted(set(g.key() for g in gr))
        ok = kw == kr
        tw = ' || '.join(sorted(set(g.text(names) for g in gw)))
        tr = ' || '.join(sorted(set(g.text(names) for g in gr)))
        detail = None
        if not ok:
            a, b = gw[0].unmerged(), gr[0].unmerged()
            n = first_diff(a, b)
            wt = a[n][2] if n is not None and n < len(a) else (a[-1][2] if a else None)
            rt = b[n][2] if n is not None and n < len(b) else (b[-1][2] if b else None)
            detail = ('writer and reader of %s disagree on the byte layout: writer emits  %s  but reader consumes  %s '
                      '(N<i> = value of the i-th count field; u16(x) = x truncated to 16 bits). writer side: %s; '
                      'reader side: %s' % (r['label'], tw, tr,
                                           helper_chain(wt) if wt else '-', helper_chain(rt) if rt else '-'))
            detail += ' [writer helper %s, reader helper %s]' % (relpath(repo, where), relpath(repo, rwhere))
        rep.inst('R-WIRE', fn, 'grammar', ok, where, detail, fact={'writer': tw, 'reader': tr})

        # the archive object is touched only through the leaf transfers (no helper moves bytes behind the grammar's back)
        by = []
        for g in gw + gr:
            for t in all_calls(g.state.tokens):
                if t['name'].startswith('leaf:'):
                    continue
                if any(('arg', 0) in set(subterms(a)) for a in t['args'] if isinstance(a, tuple)):
                    by.append(t)
        rep.inst('R-WIRE', fn, 'archive-touched-only-by-leaf-transfers', not by, by[0]['where'] if by else where,
                 None if not by else 'the archive object is handed to %s (%s) outside dump_data/load_data: bytes moved there are '
                 'invisible to the other side' % (by[0]['name'], helper_chain(by[0])))

        # every count field is a 16 bit field on both sides, and the writer stores the size of the
        # container it then iterates / copies
        for side, gs in (('writer', gw), ('reader', gr)):
            cnt = [t for g in gs for t in g.flat if t.get('count_id') is not None]
            if not cnt:
                continue
            bad = [t for t in cnt if t['len'] != C(2)]
            rep.inst('R-COUNT16', fn, side + ':count-fields-are-u16', not bad, (bad[0]['where'] if bad else where),
                     None if not bad else 'a container count is transferred as %d bytes; the wire format fixes a 16 bit '
                     'count (%s)' % (bad[0]['len'][1], helper_chain(bad[0])), fact=len(cnt))
        # ... and it is used as an UNSIGNED quantity: a count that is sign-extended on its way to the loop bound turns
        # negative for 32768..65535 elements (the loop then reads nothing and the following fields are decoded from the
        # element bytes)
        def signed_use(t, depth=0):
            if not isinstance(t, tuple) or depth > 12:
                return False
            if t and t[0] == 'sext' and len(t) == 3:
                return True
            return any(signed_use(x, depth + 1) for x in t[1:])
        for side, gs in (('writer', gw), ('reader', gr)):
            loops = [t for g in gs for t in all_loops(g.raw_tokens)]
            if not loops:
                continue
            bad = [t for t in loops if signed_use(t['count'])]
            rep.inst('R-COUNT16', fn, side + ':count-is-used-unsigned', not bad, (bad[0].get('where') if bad else where),
                     None if not bad else 'the element count that bounds this loop is sign-extended (read into a signed 16 bit '
                     'variable): containers with 32768..65535 elements yield a negative trip count', fact=len(loops))
        # the same for a count that sizes a block transfer (the characters of a string, the bytes of a buffer)
        for side, gs in (('writer', gw), ('reader', gr)):
            blocks = [t for g in gs for t in g.flat if isinstance(t.get('len'), tuple)]
            bad = [t for t in blocks if signed_use(t['len'])]
            if blocks:
                rep.inst('R-COUNT16', fn, side + ':block-length-is-used-unsigned', not bad, (bad[0].get('where') if bad else where),
                         None if not bad else 'the length that sizes this block transfer is sign-extended (the 16-bit count was read '
                         'into a signed variable): strings / buffers of 32768..65535 bytes get a negative length', fact=len(blocks))
        unknown = [t for g in gw + gr for t in all_loops(g.raw_tokens) if t['count'][0] == 'unknown-count']
        for t in unknown:
            raise AnalysisBroken('%s: loop at %s has no recognised trip count' % (fn, t.get('where')))

        if is_scalar_root(r):
            k = r['elem'].get('elemsize')
            for side, gs, f in (('writer', gw, r['w']), ('reader', gr, r['r'])):
                want = ((('raw', (k, ())),),)
                got = tuple(g.key() for g in gs)
                rep.inst('R-SIZEOF', fn, side + ':bytes==sizeof', got == want, '%s:%d' % (f.file, f.line),
                         None if got == want else '%s of %s moves  %s  but sizeof(%s) is %d' % (
                             side, r['label'], ' || '.join(g.text(names) for g in gs), r['label'], k),
                         fact={'sizeof': k})

        # token by token: the same member of the value on both sides
        if ok and len(gw) == 1 and len(gr) == 1:
            a, b = gw[0].unmerged(), gr[0].unmerged()
            if len(a) == len(b):
                cmpd = 0
                bad = None
                pl = []
                for n, (x, y) in enumerate(zip(a, b)):
                    pw, pr = token_place(x[2], gw[0]), token_place(y[2], gr[0])
                    pl.append('%s|%s' % (fmt_place(pw), fmt_place(pr)))
                    if pw is None or pr is None:
                        continue
                    cmpd += 1
                    if pw != pr and bad is None:
                        bad = (n, pw, pr, x[2], y[2])
                if cmpd:
                    rep.inst('R-WIRE', fn, 'members', bad is None, (bad[4]['where'] if bad else where),
                             None if bad is None else 'field %d of the encoding of %s is taken from %s by the writer but '
                             'stored to %s by the reader (writer: %s; reader: %s)' % (
                                 bad[0], r['label'], fmt_place(bad[1]), fmt_place(bad[2]), helper_chain(bad[3]),
                                 helper_chain(bad[4])), fact=pl)
        if ok:
            layout_rule(rep, r, fn, gw, gr, where, names)


def all_calls(toks):
    for t in toks:
        if t['k'] == 'call':
            yield t
        elif t['k'] == 'loop':
            for (_c, body) in t['alts']:
                for x in all_calls(body):
                    yield x


def all_loops(toks):
    for t in toks:
        if t['k'] == 'loop':
            yield t
            for (_c, body) in t['alts']:
                for x in all_loops(grammar_tokens(body)):
                    yield x


def layout_rule(rep, r, fn, gw, gr, where, names):
    """R-LAYOUT: the stable shapes the property names: string = u16 n + n bytes; vector/map/list = u16 n + n elements
    with n = size of the container that is serialised; pair/tuple members in declaration order"""
    ty = r['type'].split('|')[0]
    tn = tyname(ty)
    kind = None
    if tn.startswith('class.std::__cxx11::basic_string'):
        kind = 'string'
    elif tn.startswith('class.std::vector') or tn.startswith('class.std::map') or 'serialize_list_tag' in tn:
        kind = 'container'
    elif tn.startswith('struct.std::pair'):
        kind = 'pair'
    elif tn.startswith('class.std::tuple'):
        kind = 'tuple'
    if kind is None or len(gw) != 1:
        return
    g = gw[0]
    toks = g.raw_tokens
    if kind in ('string', 'container'):
        ok = False
        why = 'the encoding does not start with a count field'
        if toks and toks[0]['k'] == 'raw' and toks[0].get('count_id') is not None:
            v = g.nz.norm(toks[0]['val']) if toks[0].get('val') is not None else None
            # the count is the size of the object itself (or of the container a list tag refers to)
            cont = None
            for key, val in g.nz.subst.items():
                if val[0] == 'N' and val[1] == toks[0]['count_id']:
                    cont = key
            okc = cont is not None and cont[0] == 'size' and canon_place(cont[1]) is not None
            rest = g.items
            n0 = ('N', toks[0]['count_id'], 16)
            if kind == 'string':
                shape = len(rest) == 1 and rest[0][0] == 'raw' and rest[0][1] == (2, {n0: 1})
                why = 'a string must be encoded as u16 n followed by exactly n bytes'
            else:
                shape = False
                if len(rest) == 1 and rest[0][0] == 'raw':
                    l = rest[0][1]
                    shape = l[0] == 2 and list(l[1].keys()) == [n0] and l[1][n0] >= 1
                elif len(rest) == 2 and rest[0] == ('raw', (2, {})) and rest[1][0] == 'loop':
                    shape = rest[1][1] == (0, {n0: 1})
                why = 'a container must be encoded as u16 n followed by exactly n elements'
            ok = okc and shape
            if not okc:
                why = 'the count field does not hold the size of the serialised container'
        rep.inst('R-LAYOUT', fn, 'writer:u16-count-then-elements', ok, where,
                 None if ok else '%s: %s; writer emits  %s' % (r['label'], why, g.text(names)), fact=g.text(names))
    else:
        places = [token_place(t, g) for t in toks]
        ok = all(p is not None for p in places) and len(places) >= 2
        order = []
        if ok:
            for p in places:
                if p[0] == 'obj':
                    order.append(p[1])
                elif p[0] == 'call':
                    m = re.match(r'get<(\d+)', p[1])
                    order.append(int(m.group(1)) if m else None)
                else:
                    order.append(None)
            ok = None not in order and order == sorted(order) and len(set(order)) == len(order)
        rep.inst('R-LAYOUT', fn, 'writer:members-in-declaration-order', ok, where,
                 None if ok else '%s: members are written in the order %s' % (r['label'], [fmt_place(p) for p in places]),
                 fact=[fmt_place(p) for p in places])


# --------------------------------------------------------------------------- counted blocks of the archive API
def total_len(g):
    from c09_wire import lin_add
    acc = (0, {})
    for t in g.raw_tokens:
        if t['k'] not in ('raw', 'skip'):
            return None
        acc = lin_add(acc, g.nz.lin(t['len']))
    return acc


def implied_le(g, a, b, extra=()):
    """path condition of g (plus extra) implies a <= b (unsigned, syntactic)"""
    from c09_wire import _nonneg
    for (c, pol) in list(g.state.conds) + list(extra):
        if c[0] != 'icmp':
            continue
        if c[1][0] == 's' and not (_nonneg(c[2]) and _nonneg(c[3])):
            continue
        p = c[1][-2:]
        x, y = g.nz.norm(c[2]), g.nz.norm(c[3])
        if (x, y) == (a, b) and ((p in ('le', 'lt') and pol) or (p == 'gt' and not pol)):
            return True
        if (x, y) == (b, a) and ((p in ('ge', 'gt') and pol) or (p == 'lt' and not pol)):
            return True
    return False


def select_cases(t):
    """top-level selects of a raw (un-normalised) term -> [(extra conditions, term)]"""
    t0 = t
    wrap = []
    while t0[0] in ('zext', 'sext', 'trunc'):
        wrap.append(t0[:2])
        t0 = t0[2]
    if t0[0] != 'select':
        return [((), t)]
    out = []
    for pol, br in ((True, t0[2]), (False, t0[3])):
        v = br
        for w in reversed(wrap):
            v = w + (v,)
        for (cs, vv) in select_cases(v):
            out.append((((t0[1], pol),) + tuple(cs), vv))
    return out


def argnames(f, text):
    for n, p in enumerate(f.params):
        if p.get('name'):
            text = re.sub(r'\barg%d\b' % n, p['name'], text)
    return text


def counted_rules(rep, mod, repo):
    """non-template members of the archives that move a counted block (u16 n + n bytes)"""
    def wfn(name):
        return mod.fn(fn_named(mod, name))
    N0 = ('N', 0, 16)
    for name, label in (('igris_verif_w_cbuf', 'binary_serializer_basic::dump(const char*,uint16_t)'),
                        ('igris_verif_w_buffer', 'binary_serializer_basic::dump(igris::buffer)'),
                        ('igris_verif_w_sv', 'binary_serializer_basic::dump(std::string_view)')):
        f = wfn(name)
        gs = extract(mod, repo, LEAF_A, f, 'w')
        ok = len(gs) == 1 and len(gs[0].items) == 1 and gs[0].items[0][0] == 'raw' and gs[0].items[0][1] == (2, {N0: 1}) \
            and [t['len'] for t in gs[0].raw_tokens][:1] == [C(2)]
        wh = gs[0].raw_tokens[0]['where'] if gs and gs[0].raw_tokens else '%s:%d' % (f.file, f.line)
        rep.inst('R-COUNTED', label, 'writes-u16-n-then-n-bytes', ok, wh,
                 None if ok else 'a counted block must be written as u16 n followed by exactly n bytes; writer emits  %s'
                 % ' || '.join(g.text() for g in gs), fact=[g.text() for g in gs])
    for name, label, cap in (
            ('igris_verif_r_cbuf', 'binary_deserializer_basic::load(char*,uint16_t)', ('arg', 2)),
            ('igris_verif_r_setbuffer', 'binary_deserializer_basic::load(settable_buffer&)', None),
            ('igris_verif_r_wrbuffer', 'binary_deserializer_basic::load(writable_buffer&)', 'bufsize')):
        f = wfn(name)
        gs = extract(mod, repo, LEAF_A, f, 'r')
        where = '%s:%d' % (f.file, f.line)
        for n, g in enumerate(gs):
            tot = total_len(g)
            ok = tot == (2, {N0: 1})
            w = where
            body = [t for t in g.raw_tokens if t['k'] in ('raw', 'skip')]
            if body:
                w = body[-1]['where']
            conds = ' and '.join(('' if p else 'not ') + '(' + fmt_term(g.nz.norm(c)) + ')' for c, p in g.state.conds) or 'always'
            conds = argnames(f, conds)
            rep.inst('R-COUNTED', label, 'consumes-the-whole-block', ok, w,
                     None if ok else 'when %s the reader consumes  %s  bytes of a block that occupies 2+n bytes (n = the '
                     'u16 count w0/N0 it has just read), so the next value is decoded from the middle of this one'
                     % (conds, argnames(f, fmt_lin(tot)) if tot else '?'),
                     fact={'path': conds, 'consumed': fmt_lin(tot) if tot else None})
            bufsz = ('ptr', ('arg', 1), field(mod, 'class.igris::buffer', 'sz'))
            bufdat = ('ptr', ('arg', 1), field(mod, 'class.igris::buffer', 'buf'))
            m1 = g.state.mem.get(('arg', 1), {})
            if cap is None:
                # settable buffer: a view of exactly the payload, taken before the cursor moves past it
                ev = [t for t in g.state.tokens if t['k'] in ('call', 'skip')]
                pt = [n for n, t in enumerate(ev) if t['k'] == 'call' and t['name'] == 'leaf:pointer']
                sk = [n for n, t in enumerate(ev) if t['k'] == 'skip']
                d, z = m1.get((bufdat[2], 8)), m1.get((bufsz[2], 8))
                okv = len(pt) == 1 and len(sk) == 1 and pt[0] < sk[0] and d == ev[pt[0]]['result'] \
                    and z is not None and g.nz.lin(z) == (0, {N0: 1})
                rep.inst('R-COUNTED', label, 'view-is-the-payload', okv, w,
                         None if okv else 'the settable buffer must become (pointer(), n) with pointer() taken before the '
                         'payload is skipped; found data=%s size=%s' % (fmt_term(d) if d else '?', fmt_term(g.nz.norm(z)) if z else '?'))
            if cap == 'bufsize':
                copies = [t for t in g.raw_tokens if t['k'] == 'raw' and not is_const(t['len'])]
                z = m1.get((bufsz[2], 8))
                okv = len(copies) == 1 and z is not None and g.nz.lin(z) == g.nz.lin(copies[0]['len'])
                rep.inst('R-COUNTED', label, 'buffer-shrinks-to-the-copied-length', okv, w,
                         None if okv else argnames(f, 'when %s the writable buffer is left with size %s after %s bytes were copied'
                                                   % (conds, fmt_term(g.nz.norm(z)) if z else '?',
                                                      fmt_term(g.nz.norm(copies[0]['len'])) if copies else '?')))
            if cap is not None:
                copies = [t for t in g.raw_tokens if t['k'] == 'raw' and not is_const(t['len'])]
                okc = len(copies) == 1
                det = None
                if okc:
                    capt = cap if cap != 'bufsize' else None
                    if cap == 'bufsize':
                        # capacity of the writable buffer = its size field on entry
                        capt = ('load', ('ptr', ('arg', 1), field(mod, 'class.igris::buffer', 'sz')), 8)
                    for (extra, lv) in select_cases(copies[0]['len']):
                        L = g.nz.norm(lv)
                        if not ((L == capt) or (L == N0 and implied_le(g, N0, capt, extra))):
                            okc = False
                            det = argnames(f, 'when %s%s the reader copies %s bytes into a destination of capacity %s') % (
                                conds, ''.join(' and %s(%s)' % ('' if p else 'not ', fmt_term(g.nz.norm(c))) for c, p in extra),
                                fmt_term(L), fmt_term(capt))
                else:
                    det = 'expected exactly one copy of the payload, found %d' % len(copies)
                rep.inst('R-COUNTED', label, 'copies-min(count,capacity)', okc, w, det)


# --------------------------------------------------------------------------- concrete readers / writers
def one_path(mod, repo, f, leaf=LEAF_A):
    ex = Exec(mod, repo, leaf, start=f.name)
    res = ex.run(f, [('arg', n) for n in range(len(f.params))], St())
    if len(res) != 1:
        raise AnalysisBroken('%s: %d paths, expected straight-line code' % (f.qualname, len(res)))
    return res[0]


def field(mod, sname, fname):
    off = mod.field_off(sname, fname)
    if off is None:
        raise AnalysisBroken('field %s of %s not found' % (fname, sname))
    return off


def nz_eq(a, b):
    n = Norm()
    return n.lin(a) == n.lin(b) if (a is not None and b is not None) else False


def cursor_rules(rep, mod, repo):
    RD, WR, SW = ('class.igris::archive::binary_buffer_reader', 'class.igris::archive::binary_buffer_writer',
                  'class.igris::archive::binary_string_writer')
    this = ('arg', 0)

    def fld(s, n):
        return ('ptr', this, field(mod, s, n))

    def cur(s, n):
        return ('load', fld(s, n), 8)

    def calls(st, name):
        return [t for t in st.tokens if t['k'] == 'call' and t['name'] == name]

    def advanced(st, s, n, by):
        v = st.mem.get(this, {}).get((field(mod, s, n), 8))
        if v is None or v[0] != 'padd' or v[1] != cur(s, n):
            return False
        return nz_eq(v[2], by)

    def unchanged(st, s, n):
        return (field(mod, s, n), 8) not in st.mem.get(this, {})

    R = 'igris::archive::binary_buffer_reader'
    f = mod.fn(cxx(mod, R, 'load_data'))
    st, rv = one_path(mod, repo, f)
    w = '%s:%d' % (f.file, f.line)
    mc = calls(st, 'memcpy')
    ok = len(mc) == 1 and mc[0]['args'][0] == ('arg', 1) and mc[0]['args'][1] == cur(RD, 'ptr') and nz_eq(mc[0]['args'][2], ('arg', 2))
    rep.inst('R-CURSOR', R + '::load_data', 'copies size bytes from the cursor to the destination', ok, w,
             None if ok else 'load_data must memcpy(dat, ptr, size); found %s' % [[fmt_term(a) for a in c['args']] for c in mc])
    ok = advanced(st, RD, 'ptr', ('arg', 2)) and unchanged(st, RD, '_end')
    rep.inst('R-CURSOR', R + '::load_data', 'advances the cursor by size', ok, w,
             None if ok else 'after load_data the read cursor is %s' % fmt_term(st.mem.get(this, {}).get((field(mod, RD, 'ptr'), 8), cur(RD, 'ptr'))))
    f = mod.fn(cxx(mod, R, 'skip'))
    st, rv = one_path(mod, repo, f)
    ok = advanced(st, RD, 'ptr', ('arg', 1)) and unchanged(st, RD, '_end') and not calls(st, 'memcpy')
    rep.inst('R-CURSOR', R + '::skip', 'advances the cursor by the argument', ok, '%s:%d' % (f.file, f.line),
             None if ok else 'after skip(n) the read cursor is %s' % fmt_term(st.mem.get(this, {}).get((field(mod, RD, 'ptr'), 8), cur(RD, 'ptr'))))
    f = mod.fn(cxx(mod, R, 'pointer'))
    st, rv = one_path(mod, repo, f)
    ok = rv == cur(RD, 'ptr') and not st.mem.get(this)
    rep.inst('R-CURSOR', R + '::pointer', 'returns the cursor', ok, '%s:%d' % (f.file, f.line),
             None if ok else 'pointer() returns %s' % fmt_term(rv))
    f = mod.fn(cxx(mod, R, 'end'))
    st, rv = one_path(mod, repo, f)
    ok = rv == cur(RD, '_end') and not st.mem.get(this)
    rep.inst('R-CURSOR', R + '::end', 'returns the end of the input', ok, '%s:%d' % (f.file, f.line),
             None if ok else 'end() returns %s' % fmt_term(rv))
    # constructors: cursor at the first byte, end = first + size
    for f in [x for x in mod.defined() if x.scope.startswith(R + '::') and x.srcname == 'binary_buffer_reader']:
        st, rv = one_path(mod, repo, f)
        m = st.mem.get(this, {})
        p, e = m.get((field(mod, RD, 'ptr'), 8)), m.get((field(mod, RD, '_end'), 8))
        if len(f.params) == 3:
            ok = p == ('arg', 1) and e == ('padd', ('arg', 1), ('arg', 2))
            key = '(const char*,size_t): cursor=str end=str+size'
        elif tyname(f.params[1]['ty'].get('elem', '')) == 'class.igris::buffer':
            b0 = ('load', ('ptr', ('arg', 1), field(mod, 'class.igris::buffer', 'buf')), 8)
            b1 = ('load', ('ptr', ('arg', 1), field(mod, 'class.igris::buffer', 'sz')), 8)
            ok = p == b0 and e == ('padd', b0, b1)
            key = '(igris::buffer): cursor=data end=data+size'
        else:
            continue
        rep.inst('R-CURSOR', R + '::binary_buffer_reader', key, ok, '%s:%d' % (f.file, f.line),
                 None if ok else 'constructor leaves cursor=%s end=%s' % (fmt_term(p) if p else '?', fmt_term(e) if e else '?'))
    W = 'igris::archive::binary_buffer_writer'
    f = mod.fn(cxx(mod, W, 'dump_data'))
    w = '%s:%d' % (f.file, f.line)
    # a defensive guard in front of the copy is fine as long as it refuses only what does NOT fit (cursor + size > end); a path
    # that returns without writing although the bytes fit exactly drops data (the encoding is then no longer what the
    # string writer produces)
    ex_ = Exec(mod, repo, LEAF_A, start=f.name)
    paths = ex_.run(f, [('arg', n) for n in range(len(f.params))], St())
    writing = [(s_, r_) for (s_, r_) in paths if calls(s_, 'memcpy') or s_.mem.get(this)]
    silent = [(s_, r_) for (s_, r_) in paths if not (calls(s_, 'memcpy') or s_.mem.get(this))]
    if len(writing) != 1:
        raise AnalysisBroken('%s: %d writing paths, expected one' % (f.qualname, len(writing)))
    for (s_, r_) in silent:
        okp = False
        for (c, pol) in s_.conds:
            if c[0] != 'icmp':
                continue
            pred, a, b = c[1], c[2], c[3]
            if not pol:
                pred = {'ugt': 'ule', 'uge': 'ult', 'ult': 'uge', 'ule': 'ugt', 'sgt': 'sle', 'sge': 'slt', 'slt': 'sge', 'sle': 'sgt',
                        'eq': 'ne', 'ne': 'eq'}.get(pred, pred)
            if pred in ('ult', 'slt'):
                pred, a, b = {'ult': 'ugt', 'slt': 'sgt'}[pred], b, a
            # cursor + size > end
            if pred in ('ugt', 'sgt') and a[0] == 'padd' and a[1] == cur(WR, 'ptr') and nz_eq(a[2], ('arg', 2)) and b == cur(WR, '_end'):
                okp = True
        rep.inst('R-CURSOR', W + '::dump_data', 'writes nothing only when the bytes do not fit (cursor + size > end)', okp, w,
                 None if okp else 'dump_data returns without writing under %s: data that fits the buffer exactly (or at all) is '
                 'dropped' % ' and '.join('%s%s' % ('' if pl else 'not ', fmt_term(cn)) for cn, pl in s_.conds))
    st, rv = writing[0]
    mc = calls(st, 'memcpy')
    ok = len(mc) == 1 and mc[0]['args'][0] == cur(WR, 'ptr') and mc[0]['args'][1] == ('arg', 1) and nz_eq(mc[0]['args'][2], ('arg', 2))
    rep.inst('R-CURSOR', W + '::dump_data', 'copies size bytes from the source to the cursor', ok, w,
             None if ok else 'dump_data must memcpy(ptr, dat, size); found %s' % [[fmt_term(a) for a in c['args']] for c in mc])
    ok = advanced(st, WR, 'ptr', ('arg', 2)) and unchanged(st, WR, '_end')
    rep.inst('R-CURSOR', W + '::dump_data', 'advances the cursor by size', ok, w,
             None if ok else 'after dump_data the write cursor is %s' % fmt_term(st.mem.get(this, {}).get((field(mod, WR, 'ptr'), 8), cur(WR, 'ptr'))))
    S = 'igris::archive::binary_string_writer'
    f = mod.fn(cxx(mod, S, 'dump_data'))
    st, rv = one_path(mod, repo, f)
    ap = calls(st, 'append')
    ok = len(ap) == 1 and ap[0]['args'][0] == cur(SW, 'sstr') and ap[0]['args'][1] == ('arg', 1) and nz_eq(ap[0]['args'][2], ('arg', 2)) \
        and ap[0]['scope'].startswith('std::')
    rep.inst('R-CURSOR', S + '::dump_data', 'appends size bytes of the source to the bound string', ok, '%s:%d' % (f.file, f.line),
             None if ok else 'dump_data must call sstr.append(dat, size); found %s' % [[fmt_term(a) for a in c['args']] for c in ap])
    f = [x for x in mod.defined() if x.scope.startswith(S + '::') and x.srcname == 'binary_string_writer' and len(x.params) == 2][0]
    st, rv = one_path(mod, repo, f)
    ok = st.mem.get(this, {}).get((field(mod, SW, 'sstr'), 8)) == ('arg', 1)
    rep.inst('R-CURSOR', S + '::binary_string_writer', 'binds the output string', ok, '%s:%d' % (f.file, f.line))


def entry_rules_a(rep, mod, repo, roots):
    """igris::serialize<T>(const T&) appends to the string it returns; igris::deserialize<T>(buffer) reads the
    caller's bytes from the first one, into the object it returns"""
    for r in roots:
        if r['basic']:
            continue
        callers_w = [f for f in mod.defined() if f.scope == 'igris::' and f.srcname.startswith('serialize<')
                     and f.params and f.params[0].get('sret') and any(c.callee == r['w'].name for c in f.calls())]
        callers_r = [f for f in mod.defined() if f.scope == 'igris::' and f.srcname.startswith('deserialize<')
                     and any(c.callee == r['r'].name for c in f.calls())
                     and len(f.params) >= 1 and tyname(f.params[-1]['ty'].get('elem', '')) == 'class.igris::buffer']
        if len(callers_w) != 1 or len(callers_r) != 1:
            continue
        fn = '%s [%s]' % (r['label'], r['via'])
        f = callers_w[0]
        nt = {r['w'].name: r['type']}
        ex = Exec(mod, repo, LEAF_A, nt_funcs=nt, start=None)
        res = ex.run(f, [('arg', n) for n in range(len(f.params))], St())
        ok = len(res) == 1
        det = None
        if ok:
            st, rv = res[0]
            nts = [t for t in st.tokens if t['k'] == 'nt']
            ctor = [t for t in st.tokens if t['k'] == 'call' and t['name'] == 'basic_string' and t['args'][:1] == [('arg', 0)]]
            ok = len(nts) == 1 and nts[0]['ptr'] == ('arg', 1) and len(grammar_tokens(st.tokens)) == 1 and len(ctor) == 1
            if ok:
                # the writer handed to the helper is bound to the result string
                call = [c for c in f.calls() if c.callee == r['w'].name][0]
                wobj = None
                for b, m in st.mem.items():
                    if b[0] == 'alloca' and m.get((field(mod, 'class.igris::archive::binary_string_writer', 'sstr'), 8)) == ('arg', 0):
                        wobj = b
                ok = wobj is not None
            if not ok:
                det = 'serialize<T>(obj) must construct the result string, bind a binary_string_writer to it and serialize obj once'
        rep.inst('R-ENTRY', fn, 'serialize(obj) writes obj into the returned string', ok, '%s:%d' % (f.file, f.line), det)
        f = callers_r[0]
        nt = {r['r'].name: r['type']}
        ex = Exec(mod, repo, LEAF_A, nt_funcs=nt, start=None)
        res = ex.run(f, [('arg', n) for n in range(len(f.params))], St())
        ok = len(res) == 1
        det = None
        if ok:
            st, rv = res[0]
            sret = bool(f.params[0].get('sret'))
            inarg = ('arg', len(f.params) - 1)
            nts = [t for t in st.tokens if t['k'] == 'nt']
            RD = 'class.igris::archive::binary_buffer_reader'
            b0 = ('load', ('ptr', inarg, field(mod, 'class.igris::buffer', 'buf')), 8)
            b1 = ('load', ('ptr', inarg, field(mod, 'class.igris::buffer', 'sz')), 8)
            bound = False
            for b, m in st.mem.items():
                if b[0] == 'alloca' and m.get((field(mod, RD, 'ptr'), 8)) == b0 and m.get((field(mod, RD, '_end'), 8)) == ('padd', b0, b1):
                    bound = True
            target_ok = len(nts) == 1 and ((sret and nts[0]['ptr'] == ('arg', 0)) or
                                           (not sret and nts[0]['ptr'][0] == 'ptr' and nts[0]['ptr'][1][0] == 'alloca'))
            ok = bound and target_ok and len(grammar_tokens(st.tokens)) == 1
            if not ok:
                det = ('deserialize<T>(in) must bind a binary_buffer_reader to in.data()/in.size() and decode once into the '
                       'returned object (reader bound: %s, target is result: %s)' % (bound, target_ok))
        rep.inst('R-ENTRY', fn, 'deserialize<T>(in) decodes the bytes of in from its first byte', ok,
                 '%s:%d' % (f.file, f.line), det)


# --------------------------------------------------------------------------- storage family
def storage_rules(rep, mod, repo):
    STOR = StructSpec('class.igris::deserialize_buffer_storage',
                      inv=['cursor <= sz', 'sz <= 4611686018427387904'], owns={'buf': 'sz'})
    D = 'igris::deserialize_buffer_storage'
    specs = {
        cxx(mod, D, 'load'): FnSpec(extents={'arg1': 'arg2'}, post=[
            dict(name='enough-bytes', when=['arg2 <= sz - cursor'], then=['cursor_post == cursor + arg2', 'sz_post == sz']),
            dict(name='truncated-input', when=['arg2 > sz - cursor'], then=['cursor_post == sz', 'sz_post == sz']),
            dict(name='cursor-monotone', then=['cursor_post >= cursor', 'cursor_post <= cursor + arg2'])]),
        cxx(mod, D, 'avail'): FnSpec(pre=['sz <= 2147483647'], post=[
            dict(name='remaining', then=['ret == sz - cursor', 'cursor_post == cursor'])]),
    }
    it = Interp(mod)
    run = ContractRun(it, [STOR])
    for fname, spec in specs.items():
        run.run(fname, spec)
    obs = summarize(it, run)
    for o in obs:
        fo = mod.fn(o['function'])
        stack = o.get('call_stack') or []
        if stack:
            rf = mod.fn(stack[0].split('@')[0])
            o['root'] = rf.qualname if rf is not None else stack[0].split('@')[0]
            o['leaf'] = fo.qualname if fo is not None else o['function']
            if o['root'] == o['leaf']:
                o['function'] = o['root']
        elif fo is not None and fo.srcname:
            o['function'] = fo.qualname
    rep.add_absint('R-CLAMP', obs)
    a = rep.extra.setdefault('absint', {})
    a['accesses_checked'] = a.get('accesses_checked', 0) + it.checked
    a['accesses_without_known_extent'] = a.get('accesses_without_known_extent', 0) + it.unchecked
    a['functions_interpreted'] = sorted(set(a.get('functions_interpreted', [])) | it.functions_seen)
    # constructor: cursor starts at 0 and the storage is the caller's buffer
    f = [x for x in mod.defined() if x.scope.startswith(D + '::') and x.srcname == 'deserialize_buffer_storage'
         and len(x.params) == 2]
    if len(f) != 1:
        raise AnalysisBroken('constructor deserialize_buffer_storage(igris::buffer) not instantiated')
    f = f[0]
    st, rv = one_path(mod, repo, f, LEAF_B)
    m = st.mem.get(('arg', 0), {})
    S = 'class.igris::deserialize_buffer_storage'
    offs = {x['name']: x['off'] for x in mod.flat_fields(S)}
    for k in ('buf', 'sz', 'cursor'):
        if k not in offs:
            raise AnalysisBroken('field %s of %s not found' % (k, S))
    b0 = ('load', ('ptr', ('arg', 1), field(mod, 'class.igris::buffer', 'buf')), 8)
    b1 = ('load', ('ptr', ('arg', 1), field(mod, 'class.igris::buffer', 'sz')), 8)
    ok = m.get((offs['cursor'], 8)) == C(0) and m.get((offs['buf'], 8)) == b0 and m.get((offs['sz'], 8)) == b1
    rep.inst('R-CLAMP', D + '::deserialize_buffer_storage', 'starts at cursor 0 over the given buffer', ok,
             '%s:%d' % (f.file, f.line),
             None if ok else 'constructor leaves cursor=%s buf=%s sz=%s' % tuple(
                 fmt_term(m.get((offs[k], 8), ('undef', 0))) for k in ('cursor', 'buf', 'sz')))
    # pass-through layers: serializer::dump -> storage.dump -> std::string::append, deserializer::load -> storage.load
    A = 'igris::appendable_storage<'
    f = mod.fn(cxx(mod, A, 'dump'))
    st, rv = one_path(mod, repo, f, Leaf({}, lambda f: None))
    ap = [t for t in st.tokens if t['k'] == 'call' and t['name'] == 'append']
    ok = len(ap) == 1 and canon0(ap[0]['args'][0]) and ap[0]['args'][1] == ('arg', 1) and nz_eq(ap[0]['args'][2], ('arg', 2))
    rep.inst('R-STORAGE', 'igris::appendable_storage::dump', 'appends size bytes of data to the storage', ok,
             '%s:%d' % (f.file, f.line), None if ok else 'dump(data,size) must call _storage.append(data,size); found %s'
             % [[fmt_term(a) for a in c['args']] for c in ap])
    for cls, meth, callee_scope, callee_name in (('igris::serializer<', 'dump', 'igris::appendable_storage<', 'dump'),
                                                 ('igris::deserializer<', 'load', D, 'load')):
        f = mod.fn(cxx(mod, cls, meth))
        cs = [c for c in f.calls() if c.callee and mod.fn(c.callee) is not None and
              mod.fn(c.callee).scope.startswith(callee_scope) and mod.fn(c.callee).srcname == callee_name]
        ex = Exec(mod, repo, Leaf({}, lambda g: 'write' if (g.scope.startswith(callee_scope) and g.srcname == callee_name) else None),
                  start=f.name)
        res = ex.run(f, [('arg', n) for n in range(len(f.params))], St())
        ok = len(res) == 1 and len(cs) == 1
        if ok:
            toks = grammar_tokens(res[0][0].tokens)
            ok = len(toks) == 1 and toks[0]['ptr'] == ('arg', 1) and toks[0]['len'] == ('arg', 2)
        rep.inst('R-STORAGE', cls.rstrip('<') + '::' + meth, 'forwards (data,size) unchanged to the storage', ok,
                 '%s:%d' % (f.file, f.line), None if ok else '%s(data,size) must forward exactly (data,size) to the storage' % meth)


def canon0(p):
    return p == ('arg', 0) or (p[0] == 'ptr' and p[1] == ('arg', 0))


def entry_rules_b(rep, mod, repo, roots):
    for r in roots:
        callers_w = [f for f in mod.defined() if f.scope == 'igris::' and f.srcname.startswith('serialize<')
                     and f.params and f.params[0].get('sret') and any(c.callee == r['w'].name for c in f.calls())]
        if len(callers_w) != 1:
            continue
        f = callers_w[0]
        fn = '%s [%s]' % (r['label'], r['via'])
        ex = Exec(mod, repo, LEAF_B, nt_funcs={r['w'].name: r['type']}, start=None)
        res = ex.run(f, [('arg', n) for n in range(len(f.params))], St())
        ok = len(res) == 1
        if ok:
            st, rv = res[0]
            nts = [t for t in st.tokens if t['k'] == 'nt']
            ok = len(nts) == 1 and nts[0]['ptr'] == ('arg', 1) and len(grammar_tokens(st.tokens)) == 1
            # the archive wraps the local storage whose content is returned
            cp = [t for t in st.tokens if t['k'] == 'call' and t['name'] == 'basic_string' and t['args'][:1] == [('arg', 0)]]
            ok = ok and len(cp) == 1 and len(cp[0]['args']) == 2 and cp[0]['args'][1][0] == 'ptr' and cp[0]['args'][1][1][0] == 'alloca'
        rep.inst('R-ENTRY', fn, 'serialize(obj) returns the storage the archive wrote obj to', ok, '%s:%d' % (f.file, f.line),
                 None if ok else 'serialize(obj) must serialize obj once into a fresh string_storage and return its content')


def entry_rules_b_reader(rep, mod, repo, roots):
    S = 'class.igris::deserialize_buffer_storage'
    offs = {x['name']: x['off'] for x in mod.flat_fields(S)}
    for r in roots:
        byval = [f for f in mod.defined() if f.scope.startswith('igris::deserializer<') and f.srcname.startswith('deserialize<')
                 and f.name != r['r'].name and any(c.callee == r['r'].name for c in f.calls())]
        callers = [f for f in mod.defined() if f.scope == 'igris::' and f.srcname.startswith('deserialize<')
                   and any(c.callee in [b.name for b in byval] for c in f.calls())
                   and f.params and tyname(f.params[-1]['ty'].get('elem', '')).startswith('class.std::__cxx11::basic_string')]
        if len(callers) != 1:
            continue
        f = callers[0]
        fn = '%s [%s]' % (r['label'], r['via'])
        ex = Exec(mod, repo, LEAF_B, nt_funcs={r['r'].name: r['type']}, start=None)
        res = ex.run(f, [('arg', n) for n in range(len(f.params))], St())
        ok = len(res) == 1
        det = None
        if ok:
            st, rv = res[0]
            inarg = ('arg', len(f.params) - 1)
            nts = [t for t in st.tokens if t['k'] == 'nt']
            stor = None
            for b, m in st.mem.items():
                if b[0] == 'alloca' and m.get((offs['buf'], 8)) == ('call', 'data', inarg) and \
                        m.get((offs['sz'], 8)) == ('size', inarg) and m.get((offs['cursor'], 8)) == C(0):
                    stor = b
            arch = any(b[0] == 'alloca' and stor is not None and m.get((0, 8)) == ('ptr', stor, 0) for b, m in st.mem.items())
            ok = stor is not None and arch and len(nts) == 1 and len(grammar_tokens(st.tokens)) == 1
            if not ok:
                det = ('deserialize<T>(str) must wrap str.data()/str.size() in a deserialize_buffer_storage at cursor 0, bind the '
                       'deserializer to it and decode once (storage over the input: %s, archive bound: %s, decodes: %d)'
                       % (stor is not None, arch, len(nts)))
        rep.inst('R-ENTRY', fn, 'deserialize<T>(str) decodes the bytes of str from its first byte', ok,
                 '%s:%d' % (f.file, f.line), det)


# --------------------------------------------------------------------------- main
def run(rep, repo, tier):
    rep.explanation = (
        'Wire grammar by symbolic walk of the resolved call trees (IR of witness instantiations; igris code inlined, '
        'libstdc++ opaque): for every instantiated pair igris::serialize<W,T>/igris::deserialize<R,T> (scalars, '
        'std::string, vector, pair, tuple, map, reflectable structs, nested; both archive families) the ordered sequence '
        'of leaf transfers (dump_data/load_data/skip resp. serializer::dump/deserializer::load) with their byte counts, '
        'loops and count fields is extracted and the writer grammar must equal the reader grammar, nested types being '
        'nonterminals that are checked on their own (so agreement holds for arbitrary nesting of the checked helpers); '
        'count fields are u16 and hold the size of the container that is then iterated; scalars move exactly sizeof(T) '
        'bytes of the object; each field is read into the member it was written from; strings/containers have the '
        'stable shape u16 n + n elements, pairs/tuples declaration order; counted blocks of the archive API are consumed '
        'completely on every path and copied with min(count, capacity); concrete readers/writers copy in the right '
        'direction and advance their cursor by exactly the copied size; entry points bind reader/writer to the caller '
        'bytes / returned string; every reader that appends to its target (vector/map helpers) is handed a freshly constructed object for each value it reads (R-FRESH: no temporary re-used across loop iterations). Abstract interpretation proves that deserialize_buffer_storage::load never reads '
        'beyond the supplied bytes (cursor + len <= size, len <= requested, closed form of the new cursor). Not decided: '
        'equality of decoded values beyond field correspondence (element order inside containers, map/vector '
        'insertion semantics), behaviour for containers with more than 65535 elements, and the unbounded '
        'binary_buffer_reader on truncated input (it has no bound by design).')
    rep.assumptions += ['container sizes and string lengths are <= 65535 (the domain of the property)',
                        'libstdc++ members are trusted: size() after resize(n) is n; begin()..end() visits size() elements',
                        'little-endian/native layout: scalars are copied as their object representation',
                        'witness types stand for their kind: every helper template is checked on the instantiations '
                        'of witness/w_c09_*.cpp']
    rep.trusted = ['clang 14 front end + mem2reg/simplifycfg lowering to LLVM IR', 'bin/irdump IR->JSON',
                   'checks/c09_wire.py symbolic call-tree walker, checks/absint.py', 'libstdc++ container semantics']
    moda = witness(WIT_A, repo)
    rep.units.append('witness/%s -> igris/serialize/archive.h, helper.h, stdtypes.h, serialize.h, igris/buffer.h' % WIT_A)
    ra = roots_a(moda)
    if len(ra) < 30:
        raise AnalysisBroken('only %d serialize/deserialize pairs instantiated in %s' % (len(ra), WIT_A))
    wire_rules(rep, moda, repo, LEAF_A, ra, 'A')
    counted_rules(rep, moda, repo)
    cursor_rules(rep, moda, repo)
    entry_rules_a(rep, moda, repo, ra)
    from c09_fresh import fresh_rule
    fresh_rule(rep, moda)

    modb = witness(WIT_B, repo)
    rep.units.append('witness/%s -> igris/serialize/serializer.h, serialize_protocol.h, serialize_storage.h, '
                     'serialize_scheme.h, serialize_archive.h, serialize_tags.h' % WIT_B)
    rb = roots_b(modb)
    if len(rb) < 12:
        raise AnalysisBroken('only %d serializer/deserializer pairs instantiated in %s' % (len(rb), WIT_B))
    wire_rules(rep, modb, repo, LEAF_B, rb, 'B')
    storage_rules(rep, modb, repo)
    entry_rules_b(rep, modb, repo, rb)
    entry_rules_b_reader(rep, modb, repo, rb)

    rep.floor('R-WIRE', 100)
    rep.floor('R-COUNT16', 20)
    rep.floor('R-SIZEOF', 50)
    rep.floor('R-LAYOUT', 10)
    rep.floor('R-COUNTED', 10)
    rep.floor('R-CURSOR', 11)
    rep.floor('R-ENTRY', 60)
    rep.floor('R-CLAMP:bounds', 6)
    rep.floor('R-CLAMP:post', 6)
    rep.floor('R-CLAMP:invariant', 2)
    rep.floor('R-STORAGE', 3)
    import c09_roundtrip
    c09_roundtrip.run_ext(rep, repo, tier)

