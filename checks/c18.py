"""C18 hexascii / base64 codecs."""
from irlib import demangle1
from common import *
from irlib import UNROLL_PASSES, UNROLL_ARGS, V, demangle
from gf2 import BV, BlockEval, ONE
from c01 import trace_const

RFC4648 = 'ABCDEFGHIJKLMNOPQRSTUVWXYZabcdefghijklmnopqrstuvwxyz0123456789+/'


def value_chain(f, v):
    """[callee names...] and the load at the bottom of  call(call(load))"""
    calls = []
    for _ in range(6):
        i = f.inst_of(v)
        if i is None:
            return calls, None
        if i.op in ('zext', 'sext', 'trunc'):
            v = i.ops[0]
            continue
        if i.op == 'call' and i.callee and len(i.ops) >= 1:
            calls.append((i.callee, i))
            if len(i.ops) == 1:
                v = i.ops[0]
                continue
            return calls, i
        return calls, i
    return calls, None


def b64_encode_rule(rep, mod):
    """index into the alphabet for each output character is the RFC 4648 bit slice of the input bytes"""
    fs = [f for f in mod.defined() if f.srcname == 'base64_encode' and len(f.params) == 3]
    if len(fs) != 1:
        raise AnalysisBroken('igris::base64_encode(const uint8_t*, size_t) not found')
    f = fs[0]
    where = '%s:%d' % (f.file, f.line)
    found = {}
    dn = {}

    def dem(c):
        if c not in dn:
            dn[c] = demangle([c])[0]
        return dn[c]

    def emissions(b):
        """characters appended to / stored into the result string by block b, in order: (instruction, value, copies)"""
        out = []
        for i in b.insts:
            if i.op in ('call', 'invoke') and i.callee and 'basic_string' in dem(i.callee):
                d = dem(i.callee)
                if '::push_back(' in d or '::operator+=(char)' in d:
                    out.append((i, i.ops[1], 1))
                elif '::append(unsigned long, char)' in d and i.ops[1].k == 'ci' and i.ops[1].uval <= 4:
                    out.append((i, i.ops[2], i.ops[1].uval))
            elif i.op == 'store' and i.d.get('store_size') == 1:
                t = f.inst_of(i.ops[1])
                if t is not None and t.op in ('call', 'invoke') and t.callee and 'basic_string' in dem(t.callee) and \
                        '::operator[](' in dem(t.callee):
                    out.append((i, i.ops[0], 1))
        return out

    def lane_of_load(ld):
        """byte lane (constant offset from the group's first byte) of an input byte load: pointer walk `dp[k]` or index
        walk `src[pos + k]`"""
        r, off = trace_const(f, ld.ops[0])
        if (r.k == 'inst' and f.insts[r.id].op == 'phi') or r.k == 'arg':
            return ('p', r.key()), off
        g = f.inst_of(ld.ops[0])
        def from_arg(v, depth=0):
            if v.k == 'arg':
                return True
            x = f.inst_of(v)
            if x is None or depth > 6:
                return False
            if x.op in ('bitcast', 'getelementptr'):
                return from_arg(x.ops[0], depth + 1)
            if x.op == 'phi':
                return all(from_arg(o, depth + 1) for o in x.ops if not (o.k == 'inst' and o.id == x.id))
            return False
        if g is not None and g.op == 'getelementptr' and from_arg(g.ops[0]):      # the input bytes, not the alphabet table
            st_ = [x for x in g.d['gep']['steps'] if x['k'] == 'index']
            if len(st_) == 1 and st_[0]['stride'] == 1 and st_[0]['v'].get('k') == 'inst':
                x = f.insts[st_[0]['v']['id']]
                while x.op in ('zext', 'sext'):
                    x = f.inst_of(x.ops[0])
                    if x is None:
                        return None, None
                if x.op == 'add' and x.ops[1].k == 'ci':
                    return ('x', x.ops[0].key()), x.ops[1].ival
                return ('x', ('i', x.id)), 0
        return None, None
    for b in f.blocks:
        pushes = emissions(b)
        if not pushes:
            continue
        ev = BlockEval(f, mod)
        # byte loads of the input: name the symbols by lane
        ev.run_block(b)
        lanes = {}      # symbol prefix -> byte lane
        bases = set()
        for (ld, v) in ev.loads:
            if ld.bits != 8:
                continue
            base, off = lane_of_load(ld)
            if base is not None:
                bases.add(base)
                lanes[next(iter(v.bits[0]))[:-1]] = off
        if len(bases) > 1:
            continue
        idxs = []
        for (p, a, copies) in pushes:
            ai = f.inst_of(a)
            idx = None
            if a.k == 'ci':
                idx = 'pad' if (a.uval & 0xff) == 61 else None
            elif ai is not None and ai.op == 'load':
                g = f.inst_of(ai.ops[0])
                if g is not None and g.op == 'getelementptr':
                    steps = [s_ for s_ in g.d['gep']['steps'] if s_['k'] == 'index']
                    if steps:
                        idx = ev.val(V(steps[-1]['v']))
            idxs += [idx] * copies
        if len(idxs) != 4 or any(not (isinstance(x, BV) or x == 'pad') for x in idxs):
            continue
        # rename lanes
        def ren(bv):
            if bv == 'pad':
                return 'pad'
            out = []
            for bit in bv.bits:
                acc = frozenset()
                for s in bit:
                    hit = None
                    for pref, off in lanes.items():
                        if s.startswith(pref) and s[len(pref):].isdigit():
                            hit = 'd%d_%s' % (off, s[len(pref):])
                    acc = acc ^ frozenset([hit or s])
                out.append(acc)
            return out
        got = [ren(x) for x in idxs]
        nl = len(set(lanes.values()))
        found[nl] = (b, got)

    def sl(lane, bits):
        return [frozenset(['d%d_%d' % (lane, k)]) for k in bits]
    Z = frozenset()
    C = frozenset([ONE])
    expect = {
        3: [sl(0, range(2, 8)), sl(1, range(4, 8)) + sl(0, range(0, 2)), sl(2, range(6, 8)) + sl(1, range(0, 4)),
            sl(2, range(0, 6))],
        2: [sl(0, range(2, 8)), sl(1, range(4, 8)) + sl(0, range(0, 2)), [Z, Z] + sl(1, range(0, 4)), 'pad'],
        1: [sl(0, range(2, 8)), [Z, Z, Z, Z] + sl(0, range(0, 2)), 'pad', 'pad'],
    }
    for nl, want in expect.items():
        if nl not in found:
            # which groups exist, and that each is used for the right number of remaining bytes, is decided semantically by
            # c18_len (R-B64ENCLEN); here a missing block only means that the way the characters are emitted is not understood
            raise AnalysisBroken('base64_encode: no block emitting 4 characters from %d input byte(s) recognised' % nl)
        b, got = found[nl]
        for k in range(4):
            g = got[k]
            if g == 'pad':
                # the pad character written as the constant '=' instead of base64_charset[64]
                ok = want[k] == 'pad'
                rep.inst('R-B64GROUP', 'igris::base64_encode', 'group-of-%d:char%d' % (nl, k), ok, b.insts[0].where(),
                         None if ok else 'output character %d of a group of %d input bytes is the pad character' % (k, nl))
                continue
            if want[k] == 'pad':
                w = [C if (64 >> j) & 1 else Z for j in range(len(g))]
            else:
                w = list(want[k]) + [Z] * (len(g) - len(want[k]))
            ok = g == w
            rep.inst('R-B64GROUP', 'igris::base64_encode', 'group-of-%d:char%d' % (nl, k), ok, b.insts[0].where(),
                     None if ok else 'alphabet index of output character %d (group of %d input bytes) is %s; RFC 4648 '
                     'requires %s' % (k, nl, ['^'.join(sorted(x)) or '0' for x in g[:8]],
                                      ['^'.join(sorted(x)) or '0' for x in w[:8]]))


def index_width_rule(rep, mod, rule='R-INDEXWIDTH'):
    """every loop-carried counter that (after extension) indexes a string or buffer in the base64 routines is at least
    32 bits wide: an 8- or 16-bit position wraps after 256 / 65536 symbols while the remaining-length counter keeps
    running, so longer inputs are re-read from the start (necessary for decoding/encoding texts of every length)"""
    n = 0
    for f in mod.defined():
        if 'base64' not in f.qualname:
            continue
        for L in f.loops:
            for ph in [i for i in L['header'].insts if i.op == 'phi' and i.ty.get('k') == 'int']:
                # does the phi, through extensions / small constant arithmetic, feed an address or an index argument?
                work, seen, used_as_index = [ph], set(), None
                while work and used_as_index is None:
                    x = work.pop()
                    if x.id in seen:
                        continue
                    seen.add(x.id)
                    for u in f.users(x):
                        if u.op in ('zext', 'sext'):
                            work.append(u)
                        elif u.op == 'getelementptr' and any(o.k == 'inst' and o.id == x.id for o in u.ops[1:]):
                            if trace_const(f, u.ops[0])[0].k == 'arg':      # the caller's data, not a local scratch array
                                used_as_index = u
                        elif u.op in ('call', 'invoke') and u.callee and ('operator[]' in demangle1(u.callee) or '::at(' in demangle1(u.callee)):
                            if trace_const(f, u.ops[0])[0].k == 'arg':
                                used_as_index = u
                if used_as_index is None:
                    continue
                # only counters that are incremented (positions), not the fixed 0..3 / 0..2 group counters
                steps = []
                for (bb, v) in ph.incoming:
                    g = f.inst_of(v)
                    if f.bmap[bb] in L['blocks'] and g is not None and g.op == 'add':
                        steps.append(g)
                if not steps:
                    continue
                bounded = False
                fam = set([ph.id] + [s_.id for s_ in steps])
                grow = True
                while grow:
                    grow = False
                    for x in list(fam):
                        for u in f.users(f.insts[x]):
                            if u.op in ('zext', 'sext', 'trunc') and u.id not in fam:
                                fam.add(u.id)
                                grow = True
                for c in f.all_insts():
                    # a counter compared with a small constant (i == 4, j < 3) is a group counter, reset inside the loop
                    if c.op == 'icmp' and any(o.k == 'inst' and o.id in fam for o in c.ops) \
                            and any(o.k == 'ci' and 0 <= o.ival <= 8 for o in c.ops):
                        bounded = True
                if bounded:
                    continue
                n += 1
                ok = ph.bits >= 32
                rep.inst(rule, f.qualname.split('(')[0], 'position-counter-%s-is-wide-enough' % (ph.name or 'phi'), ok,
                         ph.where(), None if ok else 'the position %s that indexes the text is only %d bits wide: it wraps '
                         'after %d symbols while the loop keeps running on the remaining length, so longer inputs are '
                         're-read from the start' % (ph.name or 'counter', ph.bits, 1 << ph.bits),
                         fact={'bits': ph.bits})
    if n == 0:
        raise AnalysisBroken('R-INDEXWIDTH: no position counter found in the base64 routines (anchor changed)')


def b64_decode_rule(rep, mod):
    fs = [f for f in mod.defined() if f.srcname == 'base64_decode']
    if len(fs) != 1:
        raise AnalysisBroken('igris::base64_decode not found')
    f = fs[0]
    where = '%s:%d' % (f.file, f.line)
    n = 0

    def arr(v, name):
        r, off = trace_const(f, v)
        if r.k == 'inst' and f.insts[r.id].op == 'alloca' and (f.insts[r.id].name or '').startswith(name):
            return off
        return None
    for b in f.blocks:
        st3 = [i for i in b.insts if i.op == 'store' and i.d.get('store_size') == 1 and arr(i.ops[1], 'char_array_3') is not None]
        if len(st3) != 3:
            continue
        # sextets: the values stored into char_array_4 in this block (alphabet positions, < 64), or its
        # cells loaded from an earlier block
        ev = BlockEval(f, mod)
        for i in b.insts:
            if i.op == 'store' and i.d.get('store_size') == 1:
                lane = arr(i.ops[1], 'char_array_4')
                if lane is not None and i.ops[0].k == 'inst':
                    ev.override[i.ops[0].id] = BV.sym(6, 'a%d_' % lane).zext(8)
            if i.op == 'load' and i.bits == 8:
                lane = arr(i.ops[0], 'char_array_4')
                if lane is not None:
                    # only used when no store in this block defines the lane
                    pass
        ev.run_block(b)
        lanes = {}
        for (ld, v) in ev.loads:
            lane = arr(ld.ops[0], 'char_array_4')
            if lane is not None:
                lanes[next(iter(v.bits[0]))[:-1]] = lane
        n += 1

        def ren(bv):
            out = []
            for bit in bv.bits:
                acc = frozenset()
                for s_ in bit:
                    hit = s_
                    for pref, lane in lanes.items():
                        if s_.startswith(pref) and s_[len(pref):].isdigit():
                            k = int(s_[len(pref):])
                            hit = 'a%d_%d' % (lane, k) if k < 6 else None
                    if hit is not None:
                        acc = acc ^ frozenset([hit])
                out.append(acc)
            return out

        def sl(lane, bits):
            return [frozenset(['a%d_%d' % (lane, k)]) for k in bits]
        want = {0: sl(1, (4, 5)) + sl(0, range(0, 6)), 1: sl(2, range(2, 6)) + sl(1, range(0, 4)),
                2: sl(3, range(0, 6)) + sl(2, (0, 1))}
        for i in st3:
            k = arr(i.ops[1], 'char_array_3')
            bv = ev.val(i.ops[0])
            got = ren(bv)[:8] if isinstance(bv, BV) else None
            ok = got == want[k]
            rep.inst('R-B64GROUP', 'igris::base64_decode', 'regroup%d:byte%d' % (n, k), ok, i.where(),
                     None if ok else 'decoded byte %d is %s; RFC 4648 requires %s' % (
                         k, ['^'.join(sorted(x)) or '0' for x in (got or [])], ['^'.join(sorted(x)) for x in want[k]]))
    if n < 2:
        # the number of bytes produced per quartet / tail is decided semantically by c18_len (R-B64DECLEN); a regrouping that
        # is not recognised here is an analysis limit, not a violation
        raise AnalysisBroken('base64_decode: expected the full-group and the tail regrouping blocks, recognised %d' % n)
    rep.inst('R-B64GROUP', 'igris::base64_decode', 'regrouping-blocks-found', True, where)


def replace_pairs(f):
    """(compared constant -> stored constant) pairs of a character replacement loop"""
    pairs = set()
    for b in f.blocks:
        t = b.term
        if t.op != 'br' or 'f' not in t.d or t.ops[0].k != 'inst':
            continue
        c = f.insts[t.ops[0].id]
        if c.op != 'icmp' or c.pred != 'eq':
            continue
        k = [o for o in c.ops if o.k == 'ci']
        if len(k) != 1:
            continue
        tb = f.bmap[t.d['t']]
        for i in tb.insts:
            if i.op == 'store' and i.ops[0].k == 'ci' and i.d.get('store_size') == 1:
                pairs.add((k[0].ival & 0xff, i.ops[0].ival & 0xff))
    return pairs


def url_rule(rep, mod):
    enc = [f for f in mod.defined() if f.srcname == 'base64url_encode' and len(f.params) == 3]
    dec = [f for f in mod.defined() if f.srcname == 'base64url_decode']
    if len(enc) != 1 or len(dec) != 1:
        raise AnalysisBroken('base64url_encode/base64url_decode not found')
    e, d = enc[0], dec[0]
    pe, pd = replace_pairs(e), replace_pairs(d)
    want_e = {(ord('+'), ord('-')), (ord('/'), ord('_'))}
    # The character map itself is decided semantically by c18_len (R-URLMAP: every position x every character class on short
    # texts).  The pairs read off the IR here are a cross-check for the compare-and-store form of the substitution; when
    # the substitution is written differently (std::replace, a switch, a lookup) no pairs are found and nothing is claimed.
    if pe:
        rep.inst('R-URLPAIR', 'igris::base64url_encode', 'maps +->- and /->_', pe == want_e, '%s:%d' % (e.file, e.line),
                 None if pe == want_e else 'replacement pairs are %s' % sorted((chr(a), chr(b)) for a, b in pe),
                 fact=sorted((chr(a), chr(b)) for a, b in pe))
    inv = {(b, a) for (a, b) in want_e}
    if pd:
        rep.inst('R-URLPAIR', 'igris::base64url_decode', 'applies the inverse map -->+ and _->/', pd == inv,
                 '%s:%d' % (d.file, d.line),
                 None if pd == inv else 'replacement pairs are %s; the decoder must undo the encoder map'
                 % sorted((chr(a), chr(b)) for a, b in pd), fact=sorted((chr(a), chr(b)) for a, b in pd))
    names = demangle([c.callee for c in d.calls() if c.callee])
    calls_dec = any(n.startswith('igris::base64_decode') for n in names)
    calls_enc = any(n.startswith('igris::base64_encode') for n in names)
    rep.inst('R-URLPAIR', 'igris::base64url_decode', 'decodes with base64_decode', calls_dec and not calls_enc,
             '%s:%d' % (d.file, d.line),
             None if calls_dec and not calls_enc else 'base64url_decode calls %s' %
             ('the encoder base64_encode' if calls_enc else 'neither codec'))
    ecalls = demangle([c.callee for c in e.calls() if c.callee])
    rep.inst('R-URLPAIR', 'igris::base64url_encode', 'encodes with base64_encode',
             any(n.startswith('igris::base64_encode') for n in ecalls), '%s:%d' % (e.file, e.line))


def alphabet_rule(rep, mod):
    g = None
    for name, gl in mod.globals.items():
        init = gl.get('init')
        if isinstance(init, list) and len(init) in (65, 66) and all(isinstance(x, int) for x in init):
            s = ''.join(chr(x & 0xff) for x in init).rstrip('\0')
            if len(s) >= 64 and s[:4] == 'ABCD':
                g = s
    ok = g is not None and g[:64] == RFC4648 and g[64:] == '='
    rep.inst('R-B64ALPHA', 'igris::base64_charset', 'RFC4648 alphabet + pad', ok, 'igris/util/base64.cpp',
             None if ok else 'base64 alphabet is %r' % g, fact=g)


def ext_isalnum(interp, st, i, args):
    """C-locale isalnum: non-zero exactly on 0-9 A-Z a-z.  Decided when the argument is known to lie inside one class or
    outside all of them; otherwise the answer is unknown (and a clause that depends on it is not provable)"""
    from absval import IntVal
    a = args[0]
    al = st.force_s(a) if isinstance(a, IntVal) else None
    r = st.fresh_int(32, True, 'isalnum')
    if al is not None:
        inside = any(st.cons.entails_le(lo, al) and st.cons.entails_le(al, hi) for (lo, hi) in ((48, 57), (65, 90), (97, 122)))
        outside = all(st.cons.entails_le(al, lo - 1) or st.cons.entails_le(hi + 1, al) for (lo, hi) in ((48, 57), (65, 90), (97, 122)))
        if inside:
            st.cons.add_le(1, r.s)
        elif outside:
            st.cons.add_eq(r.s, 0)
    return [(st, r)]


def accept_rule(rep, mod):
    """R-B64ACCEPT: "decoders accept everything their encoders can produce" - the predicate that lets a character into
    the decoder holds on each class of the RFC 4648 alphabet (whole class as an interval: a bound that is off by one
    leaves the predicate undecided at the end of the interval and the clause unprovable), and it rejects the padding
    character, on which the decoder has to stop"""
    c = [f for f in mod.defined() if f.srcname == 'is_base64']
    if len(c) != 1:
        raise AnalysisBroken('is_base64 not found as a function (anchor changed)')
    f = c[0]
    odd = [i for i in f.all_insts() if (i.op in ('call', 'invoke') and i.callee != 'isalnum' and not (i.callee or '').startswith('llvm.dbg'))
           or i.op == 'load']
    if odd:
        raise AnalysisBroken('is_base64 decides by %s at %s: only comparisons and isalnum() are understood'
                             % (odd[0].op + (' ' + odd[0].callee if odd[0].callee else ''), odd[0].where()))
    nm = f.params[0]['name'] or 'arg0'
    posts = [dict(name='accepts-%s' % k, when=['%s >= %d' % (nm, lo), '%s <= %d' % (nm, hi)], then=['ret == 1'])
             for (k, lo, hi) in (('A-Z', 65, 90), ('a-z', 97, 122), ('0-9', 48, 57), ('plus', 43, 43), ('slash', 47, 47))]
    posts.append(dict(name='rejects-the-padding-character', when=['%s == 61' % nm], then=['ret == 0']))
    it = Interp(mod, externals={'isalnum': ext_isalnum})
    r = ContractRun(it, [])
    r.run(f.name, FnSpec(post=posts), fn=f)
    obs = summarize(it, r)
    for o in obs:
        o['function'] = 'igris::is_base64'
    rep.add_absint('R-B64ACCEPT', obs)


def run(rep, repo, tier):
    rep.explanation = (
        'hexascii: abstract interpretation proves half2hex/hex2half/hex2byte closed forms on their digit classes and '
        'hex2half(half2hex(n)) == n for all nibbles, bounds of hexascii_encode/decode; IR dataflow proves the byte-lane '
        'order of uintN_to_hex equals that of hex_to_uintN (most significant byte first, high nibble first). base64: the '
        'alphabet constant equals RFC 4648; the alphabet index of every emitted character (full group and both padded '
        'tails) and the regrouping of 4 sextets into 3 bytes are computed in the GF(2) bit-vector domain and must equal '
        'the RFC 4648 bit slices; the url-safe variant applies inverse character maps and calls the matching codec; the '
        'admission predicate of the decoder accepts each whole class of the alphabet and rejects the padding character.')
    rep.assumptions += ['little-endian target (the lane macros of access.h are selected by __BYTE_ORDER__)',
                        'base64 sextets are < 64 (only alphabet characters reach the regrouping)']
    # callees are folded into their callers (uint64_to_hex may be written as eight uint8_to_hex calls): every function of the
    # header stays defined through the witness's use table, so each is still analysed on its own
    def keep(name, dem, internal, in_main):
        # the width converters may be written in terms of each other (uint64_to_hex as eight uint8_to_hex calls): they are
        # folded into their callers; the digit maps half2hex/hex2half/hex2byte, which the lane rules look for, stay calls
        import re
        return not re.fullmatch(r'(uint(8|16|32|64)_to_hex|hex_to_uint(8|16|32|64))', name)
    mod = witness('w_hexascii.c', repo, inline=keep)
    rep.units.append('witness/w_hexascii.c -> igris/util/hexascii.h, access.h')
    specs = {
        'half2hex': FnSpec(pre=['n <= 15'], post=[
            dict(name='digit', when=['n <= 9'], then=['ret == n + 48']),
            dict(name='upper-case-letter', when=['n >= 10'], then=['ret == n + 55'])]),
        'hex2half': FnSpec(post=[
            dict(name='digit', when=['c >= 48', 'c <= 57'], then=['ret == c - 48']),
            dict(name='upper-case-letter', when=['c >= 65', 'c <= 70'], then=['ret == c - 55'])]),
        'hex2byte': FnSpec(post=[
            dict(name='dd', when=['hi >= 48', 'hi <= 57', 'lo >= 48', 'lo <= 57'], then=['ret == 16 * (hi - 48) + lo - 48']),
            dict(name='dl', when=['hi >= 48', 'hi <= 57', 'lo >= 65', 'lo <= 70'], then=['ret == 16 * (hi - 48) + lo - 55']),
            dict(name='ld', when=['hi >= 65', 'hi <= 70', 'lo >= 48', 'lo <= 57'], then=['ret == 16 * (hi - 55) + lo - 48']),
            dict(name='ll', when=['hi >= 65', 'hi <= 70', 'lo >= 65', 'lo <= 70'], then=['ret == 16 * (hi - 55) + lo - 55'])]),
        'igris_verif_nibble_roundtrip': FnSpec(pre=['n <= 15'], post=[
            dict(name='inverse-digit', when=['n <= 9'], then=['ret == n']),
            dict(name='inverse-letter', when=['n >= 10'], then=['ret == n'])]),
        'HIHALF': FnSpec(post=[dict(name='range', then=['ret <= 15', '16 * ret <= byte', 'byte <= 16 * ret + 15'])]),
        'LOHALF': FnSpec(post=[dict(name='range', then=['ret <= 15', 'ret <= byte'])]),
    }
    run_contracts(rep, 'R-HEXDIGIT', mod, [], specs)
    import c18_lanes
    modu = witness('w_hexascii.c', repo, inline=keep, passes=UNROLL_PASSES, opt_args=UNROLL_ARGS, out_name='w_hexascii_unrolled')
    for fname, n in (('uint8_to_hex', 1), ('uint16_to_hex', 2), ('uint32_to_hex', 4), ('uint64_to_hex', 8)):
        try:
            c18_lanes.lanes_to_hex(rep, modu, fname, n)
        except AnalysisBroken as e:
            rep.defer_broken(e)
    for fname, n in (('hex_to_uint8', 1), ('hex_to_uint16', 2), ('hex_to_uint32', 4), ('hex_to_uint64', 8)):
        try:
            c18_lanes.hex_to_lanes(rep, modu, fname, n)
        except AnalysisBroken as e:
            rep.defer_broken(e)
    modc = compile_ir(repo + '/igris/util/hexascii.c', repo)
    rep.units.append('igris/util/hexascii.c')
    run_contracts(rep, 'R-HEXBUF', modc, [], {
        'hexascii_encode': FnSpec(pre=['size >= 0', 'size <= 1073741824'], extents={'indata': 'size', 'out': '2 * size'}),
        'hexascii_decode': FnSpec(pre=['size <= 1073741824'], extents={'indata': 'size', 'out': 'size'}),
    })
    from irlib import keep_all_but_new_helpers
    modb = compile_ir(repo + '/igris/util/base64.cpp', repo, passes=UNROLL_PASSES, opt_args=UNROLL_ARGS,
                      inline=keep_all_but_new_helpers(('is_base64',)))
    rep.units.append('igris/util/base64.cpp (unrolled)')
    alphabet_rule(rep, modb)
    try:
        b64_encode_rule(rep, modb)
    except AnalysisBroken as e:
        rep.defer_broken(e)      # the length / loop-structure rules of c18_len may still decide the change
    try:
        b64_decode_rule(rep, modb)
    except AnalysisBroken as e:
        rep.defer_broken(e)
    modbp = compile_ir(repo + '/igris/util/base64.cpp', repo, inline=keep_all_but_new_helpers(('is_base64',)))
    url_rule(rep, modbp)
    try:
        index_width_rule(rep, modbp)
    except AnalysisBroken as e:
        rep.defer_broken(e)
    accept_rule(rep, modbp)
    rep.floor('R-B64ACCEPT:post', 6)
    rep.floor('R-HEXDIGIT:post', 12)
    rep.floor('R-LANES', 30)
    rep.floor('R-HEXBUF:bounds', 4)
    rep.floor('R-B64GROUP', 12)
    rep.floor('R-URLPAIR', 2)
    import c18_len
    c18_len.run_ext(rep, repo, tier)
