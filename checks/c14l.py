"""developer driver: python3 checks/run.py C14L --repo /tmp/dev/LIFE -v  (lifetime rules of C14 alone)"""


def run(rep, repo, tier):
    import c14_life
    rep.explanation = 'Lifetime rules only (developer driver).'
    c14_life.run_life(rep, repo, tier)
