"""c13_fi: interval abstract interpreter with exhaustive loop unrolling, for the digit generation of print_f.

Domain (c13_fv): floats as [lo, hi] + {+inf, -inf, NaN} flags + integrality, integers as intervals (+ known bits
of flag words), pointers as object + offset interval, local memory as cells with strong updates at exact offsets.
Control: path sensitive up to MAXS states per block (then the states are joined), loops are *executed* on the
abstract state, one iteration after the other, until no state remains inside the loop: this proves termination and
yields the trip-count bound that the buffer obligations need (`while (x != 0) x = trunc(x / 10)` leaves the loop
after at most 309 rounds for every finite double and never for an infinity).  Loops that do not touch floats or
local memory and run longer than SHORT rounds (the count-down emission loops) and loops that do not end within CAP
rounds are closed by widening; the latter are reported as 'termination not proved'.

Nothing of igris is executed: the interpreter evaluates IR instructions on intervals.
"""
import math
from irlib import AnalysisBroken, V
from c13_fv import *

MAXS = 8           # states per block before joining
SHORT = 24
CAP = 700
ROUND_CALLS = {'round': 'round', 'roundl': 'round', 'roundf': 'round', 'ceil': 'ceil', 'ceill': 'ceil', 'ceilf': 'ceil',
               'floor': 'floor', 'floorl': 'floor', 'floorf': 'floor', 'trunc': 'trunc', 'truncl': 'trunc',
               'rint': 'rint', 'rintl': 'rint', 'nearbyint': 'nearbyint', 'nearbyintl': 'nearbyint'}
for _k, _v in list(ROUND_CALLS.items()):
    ROUND_CALLS['llvm.%s.f64' % _v] = _v
    ROUND_CALLS['llvm.%s.f80' % _v] = _v


class St:
    __slots__ = ('env', 'mem', 'alias', 'ghost', 'dead')

    def __init__(self):
        self.env = {}
        self.mem = {}        # (obj, off, size) -> value
        self.alias = {}      # ssa key of a load -> cell key it was loaded from (until the cell is overwritten)
        self.ghost = {}
        self.dead = False

    def fork(self):
        s = St()
        s.env = dict(self.env)
        s.mem = dict(self.mem)
        s.alias = dict(self.alias)
        s.ghost = dict(self.ghost)
        return s


def join_states(states):
    s0 = states[0]
    if len(states) == 1:
        return s0
    r = St()
    keys = set(s0.env)
    for s in states[1:]:
        keys &= set(s.env)
    for k in keys:
        v = s0.env[k]
        for s in states[1:]:
            v = vjoin(v, s.env[k])
        r.env[k] = v
    mk = set(s0.mem)
    for s in states[1:]:
        mk &= set(s.mem)
    for k in mk:
        v = s0.mem[k]
        for s in states[1:]:
            v = vjoin(v, s.mem[k])
        r.mem[k] = v
    for k, c in s0.alias.items():
        if all(s.alias.get(k) == c for s in states[1:]):
            r.alias[k] = c
    gk = set(s0.ghost)
    for s in states[1:]:
        gk &= set(s.ghost)
    for k in gk:
        v = s0.ghost[k]
        for s in states[1:]:
            o = s.ghost[k]
            v = vjoin(v, o) if hasattr(v, 'join') else (v if v == o else None)
        r.ghost[k] = v
    return r


class FI:
    def __init__(self, mod, fn):
        self.mod = mod
        self.fn = fn
        self.obl = {}            # (kind, inst id, extra) -> dict(ok, detail, inst, n)
        self.silent = 0
        self.loops = {}          # header name -> dict(rounds=int|None, closed='unrolled'|'widened-short'|'widened-cap')
        self.cstr_end = {}       # local object -> largest index of the terminator found by a strlen / at a hand-over
        self.ranges = {}         # ssa key -> joined value over all visits (recording passes only)
        self.call_hooks = {}     # callee name -> f(fi, st, inst, args)
        self.store_hook = None   # f(fi, st, inst, ptr, value)
        self.ret_states = []
        self.objsize = {}
        self.emitters = set()
        self.lb = {L['header']: L for L in fn.loops}
        self.steps = 0
        self.light = 0

    # ------------------------------------------------------------------ obligations
    def oblige(self, kind, inst, ok, detail=None, extra=None):
        if self.silent:
            return
        k = (kind, inst.id, extra)
        o = self.obl.get(k)
        if o is None:
            o = self.obl[k] = {'kind': kind, 'inst': inst, 'ok': True, 'detail': None, 'n': 0, 'extra': extra}
        o['n'] += 1
        if not ok and o['ok']:
            o['ok'] = False
            o['detail'] = detail

    # ------------------------------------------------------------------ values
    def val(self, st, v):
        k = v.k
        if k in ('inst', 'arg'):
            r = st.env.get(v.key())
            if r is None:
                raise AnalysisBroken('c13_fi: use of unevaluated value %r in %s' % (v, self.fn.name))
            return r
        if k == 'ci':
            if v.width == 1:
                return CV('const', (), bool(v.uval))
            return IV.const(v.ival)
        if k == 'cf':
            if 'bitsd' in v.d:
                return FV.const(f_from_bits(v.d['bitsd']))
            return FV.top(80)
        if k == 'null':
            return PV([('null', 0, 0)])
        if k == 'global':
            return PV([('g:' + v.name, 0, 0)])
        if k == 'func':
            return PV([('fn:' + v.name, 0, 0)])
        if k == 'cexpr':
            op = v.d.get('op')
            ops = [V(x) for x in v.d.get('ops', [])]
            if op == 'getelementptr':
                return self.gep(st, self.val(st, ops[0]), v.d['gep'])
            if op in ('bitcast', 'addrspacecast'):
                return self.val(st, ops[0])
            return UNK
        return UNK

    def top_of(self, ty):
        k = ty.get('k')
        if k == 'int':
            if ty.get('bits') == 1:
                return CV('unk')
            return IV.top(ty['bits'])
        if k == 'fp':
            return FV.top(ty.get('bits', 64))
        if k == 'ptr':
            return PV([('unknown', -(1 << 40), 1 << 40)])
        return UNK

    def gep(self, st, base, g):
        if not isinstance(base, PV):
            return PV([('unknown', -(1 << 40), 1 << 40)])
        lo = hi = 0
        for s in g['steps']:
            if s['k'] == 'field':
                lo += s['off']
                hi += s['off']
            else:
                iv = self.val(st, V(s['v']))
                if not isinstance(iv, IV):
                    return PV([(a[0], -(1 << 40), 1 << 40) for a in base.alts])
                a, b = iv.lo * s['stride'], iv.hi * s['stride']
                lo += min(a, b)
                hi += max(a, b)
        return base.shift(lo, hi)

    def global_bytes(self, name):
        g = self.mod.globals.get(name)
        if g is None or not g.get('const'):
            return None
        init = g.get('init')
        if isinstance(init, list) and all(isinstance(x, int) for x in init):
            return [x & 0xff for x in init]
        if isinstance(init, dict) and init.get('k') == 'zero':
            return [0] * init.get('size', 0)
        return None

    def size_of(self, obj):
        if obj in self.objsize:
            return self.objsize[obj]
        if isinstance(obj, str) and obj.startswith('g:'):
            g = self.mod.globals.get(obj[2:])
            if g is not None and 'size' in g['ty']:
                return g['ty']['size']
        return None

    # ------------------------------------------------------------------ memory
    def check_access(self, st, p, size, inst, kind):
        if not isinstance(p, PV):
            self.oblige('bounds:' + kind, inst, False, '%s through a pointer the analysis lost track of' % kind)
            return
        for (o, lo, hi) in p.alts:
            sz = self.size_of(o)
            if sz is None:
                if o == 'null':
                    self.oblige('bounds:' + kind, inst, False, '%s through a null pointer' % kind)
                continue
            ok = lo >= 0 and hi + size <= sz
            self.oblige('bounds:' + kind, inst, ok,
                        None if ok else '%s of %d byte(s) at offset %s of %s (%d bytes)'
                        % (kind, size, ('%d' % lo) if lo == hi else '%d..%d' % (lo, hi), self.obj_name(o), sz), extra=str(o))

    def obj_name(self, o):
        if isinstance(o, tuple) and o[0] == 'a':
            i = self.fn.insts.get(o[1])
            return 'local %s' % ((i.name if i is not None else None) or o[1])
        return str(o)

    def kill_aliases(self, st, obj, lo=None, hi=None):
        for k in [k for k, c in st.alias.items() if c[0] == obj and (lo is None or (c[1] < hi and lo < c[1] + c[2]))]:
            del st.alias[k]

    def store(self, st, p, v, size, inst):
        self.check_access(st, p, size, inst, 'store')
        if not isinstance(p, PV):
            return
        strong = p.single
        for (o, lo, hi) in p.alts:
            sz = self.size_of(o)
            if sz is not None:
                lo, hi = max(lo, 0), min(hi, sz - size)
            if not (isinstance(o, tuple) and o[0] == 'a'):
                continue
            self.kill_aliases(st, o, lo, hi + size)
            if strong:
                for k in [k for k in st.mem if k[0] == o and k[1] < lo + size and lo < k[1] + k[2] and k != (o, lo, size)]:
                    del st.mem[k]
                st.mem[(o, lo, size)] = v
            else:
                for k in [k for k in st.mem if k[0] == o and k[1] < hi + size and lo < k[1] + k[2]]:
                    if k[2] == size and lo <= k[1] <= hi:
                        st.mem[k] = vjoin(st.mem[k], v)
                    else:
                        del st.mem[k]

    def load(self, st, p, ty, inst, check=True):
        size = ty.get('size') or ((ty.get('bits', 8) + 7) // 8)
        if check:
            self.check_access(st, p, size, inst, 'load')
        if not isinstance(p, PV):
            return self.top_of(ty), None
        res = None
        cell = None
        for (o, lo, hi) in p.alts:
            if isinstance(o, str) and o.startswith('g:') and ty.get('k') == 'int' and size == 1:
                b = self.global_bytes(o[2:])
                if b is None:
                    return self.top_of(ty), None
                vals = [b[x] for x in range(max(lo, 0), min(hi, len(b) - 1) + 1)]
                if not vals:
                    return self.top_of(ty), None
                vals = [x - 256 if x >= 128 else x for x in vals]
                v = IV(min(vals), max(vals))
            elif isinstance(o, tuple) and o[0] == 'a':
                if hi - lo > 4096:
                    return self.top_of(ty), None
                v = None
                for off in range(lo, hi + 1):
                    c = st.mem.get((o, off, size))
                    if c is None:
                        return self.top_of(ty), None
                    v = c if v is None else vjoin(v, c)
                if lo == hi and len(p.alts) == 1:
                    cell = (o, lo, size)
            else:
                return self.top_of(ty), None
            res = v if res is None else vjoin(res, v)
        if res is None or isinstance(res, Unknown):
            return self.top_of(ty), None
        want = {'int': IV, 'fp': FV, 'ptr': PV}.get(ty.get('k'))
        if want is not None and not isinstance(res, want):
            return self.top_of(ty), None
        return res, cell

    # ------------------------------------------------------------------ conditions
    def fcmp_eval(self, pred, a, b):
        if pred in ('true', 'false'):
            return pred == 'true'
        outs = set()
        unordered = a.nan or b.nan
        if pred == 'ord':
            if unordered:
                outs.add(False)
            if (a.fin or a.pinf or a.ninf) and (b.fin or b.pinf or b.ninf):
                outs.add(True)
            return outs.pop() if len(outs) == 1 else None
        if pred == 'uno':
            if unordered:
                outs.add(True)
            if (a.fin or a.pinf or a.ninf) and (b.fin or b.pinf or b.ninf):
                outs.add(False)
            return outs.pop() if len(outs) == 1 else None
        if unordered:
            outs.add(pred[0] == 'u')
        al, ah, bl, bh = a.xlo(), a.xhi(), b.xlo(), b.xhi()
        if al is not None and bl is not None:
            rel = pred[1:]
            pt_a, pt_b = al == ah, bl == bh
            if rel == 'eq':
                can_t = not (ah < bl or bh < al)
                can_f = not (pt_a and pt_b and al == bl)
            elif rel == 'ne':
                can_f = not (ah < bl or bh < al)
                can_t = not (pt_a and pt_b and al == bl)
            elif rel == 'gt':
                can_t, can_f = ah > bl, al <= bh
            elif rel == 'ge':
                can_t, can_f = ah >= bl, al < bh
            elif rel == 'lt':
                can_t, can_f = al < bh, ah >= bl
            elif rel == 'le':
                can_t, can_f = al <= bh, ah > bl
            else:
                raise AnalysisBroken('c13_fi: fcmp predicate %s' % pred)
            if can_t:
                outs.add(True)
            if can_f:
                outs.add(False)
        if not outs:
            return None
        return outs.pop() if len(outs) == 1 else None

    def icmp_eval(self, pred, a, b):
        if isinstance(a, PV) and isinstance(b, PV):
            if len(a.alts) == 1 and len(b.alts) == 1 and a.alts[0][0] == b.alts[0][0]:
                a, b = IV(a.alts[0][1], a.alts[0][2]), IV(b.alts[0][1], b.alts[0][2])
            elif pred in ('eq', 'ne'):
                if not (set(x[0] for x in a.alts) & set(x[0] for x in b.alts)) and \
                        all(x[0] != 'unknown' for x in a.alts + b.alts):
                    return pred == 'ne'
                return None
            else:
                return None
        if not (isinstance(a, IV) and isinstance(b, IV)):
            return None
        if pred[0] == 'u' and (a.lo < 0 or b.lo < 0):
            return None
        rel = pred if pred in ('eq', 'ne') else pred[1:]
        if rel == 'eq':
            if a.single and b.single and a.lo == b.lo:
                return True
            if a.hi < b.lo or b.hi < a.lo:
                return False
            if a.km & b.km & (a.kv ^ b.kv):
                return False
            return None
        if rel == 'ne':
            r = self.icmp_eval('eq', a, b)
            return None if r is None else (not r)
        if rel == 'gt':
            return True if a.lo > b.hi else (False if a.hi <= b.lo else None)
        if rel == 'ge':
            return True if a.lo >= b.hi else (False if a.hi < b.lo else None)
        if rel == 'lt':
            return True if a.hi < b.lo else (False if a.lo >= b.hi else None)
        if rel == 'le':
            return True if a.hi <= b.lo else (False if a.lo > b.hi else None)
        return None

    def sign_eval(self, x):
        """truth of 'sign bit set' for a float value"""
        can_t = x.nan or x.ninf or (x.fin and x.lo <= 0)
        can_f = x.nan or x.pinf or (x.fin and x.hi >= 0)
        if can_t and not can_f:
            return True
        if can_f and not can_t:
            return False
        return None

    def cond_of(self, st, v):
        c = self.val(st, v)
        if isinstance(c, CV):
            return c
        if isinstance(c, IV) and c.single:
            return CV('const', (), c.lo != 0, c.poison)
        return CV('unk', (), None, getattr(c, 'poison', None))

    # -- refinement: returns list of states (the state may split on disjunctions); states found infeasible are dropped
    def refine(self, st, c, truth):
        if c.val is not None:
            return [st] if c.val == truth else []
        op = c.op
        if op == 'not':
            return self.refine(st, c.args[0], not truth)
        if op in ('and', 'or'):
            conj = (op == 'and') == truth
            x, y = c.args
            if conj:
                out = []
                for s in self.refine(st, x, truth):
                    out.extend(self.refine(s, self.reeval(s, y), truth))
                return out
            s2 = st.fork()
            out = self.refine(st, x, truth)
            for s in self.refine(s2, x, not truth):
                out.extend(self.refine(s, self.reeval(s, y), truth))
            return out
        if op == 'fcmp':
            return self.refine_fcmp(st, c, truth)
        if op == 'icmp':
            return self.refine_icmp(st, c, truth)
        if op == 'sign':
            (vx,) = c.args
            x = self.val(st, vx)
            if not isinstance(x, FV):
                return [st]
            if truth:
                nx = x.clip_le(0.0)
            else:
                nx = x.clip_ge(0.0)
            if nx.empty:
                return []
            self.assign(st, vx, nx)
            return [st]
        return [st]

    def reeval(self, st, c):
        """re-evaluate a leaf condition after the state was refined"""
        if c.op == 'fcmp':
            pred, va, vb = c.args
            a, b = self.val(st, va), self.val(st, vb)
            if isinstance(a, FV) and isinstance(b, FV):
                return CV('fcmp', c.args, self.fcmp_eval(pred, a, b))
        elif c.op == 'icmp':
            pred, va, vb = c.args
            return CV('icmp', c.args, self.icmp_eval(pred, self.val(st, va), self.val(st, vb)))
        elif c.op == 'sign':
            x = self.val(st, c.args[0])
            if isinstance(x, FV):
                return CV('sign', c.args, self.sign_eval(x))
        elif c.op in ('and', 'or'):
            x, y = self.reeval(st, c.args[0]), self.reeval(st, c.args[1])
            return self.mk_bool(c.op, x, y)
        elif c.op == 'not':
            x = self.reeval(st, c.args[0])
            return CV('not', (x,), None if x.val is None else not x.val)
        return c

    def mk_bool(self, op, x, y):
        if op == 'and':
            v = False if (x.val is False or y.val is False) else (True if (x.val and y.val) else None)
        else:
            v = True if (x.val is True or y.val is True) else (False if (x.val is False and y.val is False) else None)
        return CV(op, (x, y), v, x.poison or y.poison)

    def assign(self, st, v, nv):
        """new (refined) value of SSA operand v; propagated to the cell it was loaded from and through exact
        conversions to the value it was computed from"""
        if v.k not in ('inst', 'arg'):
            return
        k = v.key()
        st.env[k] = nv
        cell = st.alias.get(k)
        if cell is not None and cell in st.mem:
            st.mem[cell] = nv
        if v.k != 'inst':
            return
        i = self.fn.insts[v.id]
        if isinstance(nv, FV):
            if i.op == 'fpext':
                self.assign(st, i.ops[0], nv)
            elif i.op == 'fptrunc':
                src = self.val(st, i.ops[0])
                if isinstance(src, FV):
                    # narrowing keeps NaN and infinities: their absence in the result is their absence in the source
                    # (nothing is concluded about the magnitude of the wider source value)
                    r = src.copy()
                    r.nan = r.nan and nv.nan
                    r.pinf = r.pinf and nv.pinf
                    r.ninf = r.ninf and nv.ninf
                    if not nv.fin and not (src.fin and (src.hi > DBL_MAX or src.lo < -DBL_MAX)):
                        r.lo, r.hi = INF, -INF
                    if not r.empty:
                        self.assign(st, i.ops[0], r)
            elif i.op == 'fneg':
                self.assign(st, i.ops[0], f_neg(nv))
            elif i.op == 'call' and (i.callee or '') in ('fmod', 'fmodl', 'fmodf') and nv.fin and (nv.lo > 0 or nv.hi < 0) \
                    and not nv.special:
                # a non-zero remainder modulo an integer: the argument is not an integer, hence below 2^52 in magnitude
                src, m = self.val(st, i.ops[0]), self.val(st, i.ops[1])
                if isinstance(src, FV) and isinstance(m, FV) and m.fin and m.integral and not m.special and src.fin:
                    r = src.copy()
                    r.lo, r.hi = max(r.lo, nxt_up(-TWO52)), min(r.hi, nxt_dn(TWO52))
                    if r.lo == 0:
                        r.lo = max(nxt_up(0.0), r.gran)
                    elif r.lo == math.floor(r.lo):
                        r.lo = nxt_up(r.lo)
                    if r.hi == math.floor(r.hi):
                        r.hi = nxt_dn(r.hi)
                    r.nan = r.pinf = r.ninf = False
                    if r.lo <= r.hi:
                        self.assign(st, i.ops[0], r)
            elif i.op == 'call' and (i.callee or '') in ('fabs', 'fabsl', 'fabsf', 'llvm.fabs.f64', 'llvm.fabs.f80', 'llvm.fabs.f32'):
                src = self.val(st, i.ops[0])
                if isinstance(src, FV):
                    r = src.copy()
                    r.nan = r.nan and nv.nan
                    if not nv.pinf:
                        r.pinf = r.ninf = False
                    if not nv.fin:
                        r.lo, r.hi = INF, -INF
                    elif r.fin:
                        r.lo, r.hi = max(r.lo, -nv.hi), min(r.hi, nv.hi)
                    if not r.empty:
                        self.assign(st, i.ops[0], r)
        elif isinstance(nv, IV):
            if i.op in ('sext', 'zext') and isinstance(self.val(st, i.ops[0]), IV):
                src = self.val(st, i.ops[0])
                if i.op == 'sext' or src.lo >= 0:
                    self.assign(st, i.ops[0], IV(max(src.lo, nv.lo), min(src.hi, nv.hi), src.km, src.kv))
            elif i.op == 'and' and i.ops[1].k == 'ci':
                m = i.ops[1].ival
                src = self.val(st, i.ops[0])
                if isinstance(src, IV) and m > 0:
                    if nv.hi == 0 and nv.lo == 0:
                        km, kv = src.km | m, src.kv & ~m
                    elif nv.lo >= 1 and m & (m - 1) == 0:
                        km, kv = src.km | m, src.kv | m
                    else:
                        return
                    self.assign(st, i.ops[0], IV(src.lo, src.hi, km, kv))

    def refine_fcmp(self, st, c, truth):
        pred, va, vb = c.args
        a, b = self.val(st, va), self.val(st, vb)
        if not (isinstance(a, FV) and isinstance(b, FV)):
            return [st]
        if pred in ('ord', 'uno'):
            isnan = (pred == 'uno') == truth
            if not isnan:
                a2, b2 = a.no_nan(), b.no_nan()
                if a2.empty or b2.empty:
                    return []
                self.assign(st, va, a2)
                if vb.key() != va.key():
                    self.assign(st, vb, b2)
            elif va.key() == vb.key():
                if not a.nan:
                    return []
                self.assign(st, va, FV(nan=True))
            return [st]
        ordered = pred[0] == 'o'
        rel = pred[1:]
        neg = {'eq': 'ne', 'ne': 'eq', 'gt': 'le', 'ge': 'lt', 'lt': 'ge', 'le': 'gt'}
        if ordered and truth:
            a, b = a.no_nan(), b.no_nan()
        elif (not ordered) and (not truth):
            a, b = a.no_nan(), b.no_nan()
            rel = neg[rel]
        elif a.nan or b.nan:
            return [st]          # the outcome may be due to a NaN: nothing is learnt about the order
        elif ordered:
            rel = neg[rel]
        if a.empty or b.empty:
            return []
        al, ah, bl, bh = a.xlo(), a.xhi(), b.xlo(), b.xhi()
        if al is None or bl is None:
            return []
        if rel == 'ge':
            a, b = a.clip_ge(bl), b.clip_le(ah)
        elif rel == 'gt':
            a, b = a.clip_ge(bl, True), b.clip_le(ah, True)
        elif rel == 'le':
            a, b = a.clip_le(bh), b.clip_ge(al)
        elif rel == 'lt':
            a, b = a.clip_le(bh, True), b.clip_ge(al, True)
        elif rel == 'eq':
            a = a.clip_ge(bl).clip_le(bh)
            b = b.clip_ge(al).clip_le(ah)
        elif rel == 'ne':
            if bl == bh:
                a = self.remove_point(a, bl)
            if al == ah:
                b = self.remove_point(b, al)
        if a.fin and a.lo > a.hi:
            a.lo, a.hi = INF, -INF
        if b.fin and b.lo > b.hi:
            b.lo, b.hi = INF, -INF
        if (a.empty and not a.nan) or (b.empty and not b.nan) or a.empty or b.empty:
            return []
        self.assign(st, va, a)
        if vb.key() != va.key():
            self.assign(st, vb, b)
        return [st]

    @staticmethod
    def remove_point(a, c):
        r = a.copy()
        if c == INF:
            r.pinf = False
        elif c == -INF:
            r.ninf = False
        elif r.fin and c == 0:
            return r.nonzero()
        elif r.fin:
            if r.lo == c and r.hi == c:
                r.lo, r.hi = INF, -INF
            elif r.lo == c:
                r.lo = float(math.floor(c) + 1) if r.integral else nxt_up(c)
            elif r.hi == c:
                r.hi = float(math.ceil(c) - 1) if r.integral else nxt_dn(c)
        return r

    def refine_icmp(self, st, c, truth):
        pred, va, vb = c.args
        a, b = self.val(st, va), self.val(st, vb)
        if not (isinstance(a, IV) and isinstance(b, IV)):
            return [st]
        if pred[0] == 'u' and (a.lo < 0 or b.lo < 0):
            return [st]
        rel = pred if pred in ('eq', 'ne') else pred[1:]
        if not truth:
            rel = {'eq': 'ne', 'ne': 'eq', 'gt': 'le', 'ge': 'lt', 'lt': 'ge', 'le': 'gt'}[rel]
        alo, ahi, blo, bhi = a.lo, a.hi, b.lo, b.hi
        if rel == 'ge':
            alo, bhi = max(alo, blo), min(bhi, ahi)
        elif rel == 'gt':
            alo, bhi = max(alo, blo + 1), min(bhi, ahi - 1)
        elif rel == 'le':
            ahi, blo = min(ahi, bhi), max(blo, alo)
        elif rel == 'lt':
            ahi, blo = min(ahi, bhi - 1), max(blo, alo + 1)
        elif rel == 'eq':
            alo = blo = max(alo, blo)
            ahi = bhi = min(ahi, bhi)
        elif rel == 'ne':
            if b.single:
                if alo == b.lo:
                    alo += 1
                if ahi == b.lo:
                    ahi -= 1
            if a.single:
                if blo == a.lo:
                    blo += 1
                if bhi == a.lo:
                    bhi -= 1
        if alo > ahi or blo > bhi:
            return []
        if (alo, ahi) != (a.lo, a.hi):
            self.assign(st, va, IV(alo, ahi, a.km, a.kv))
        if (blo, bhi) != (b.lo, b.hi) and vb.key() != va.key():
            self.assign(st, vb, IV(blo, bhi, b.km, b.kv))
        return [st]

    def use(self, v):
        """value v is used in a way that makes a poison value undefined behaviour"""
        pz = getattr(v, 'poison', None)
        if pz is not None:
            self.oblige('fpcast', pz[0], False, pz[1])

    # ------------------------------------------------------------------ instructions
    def int_result(self, i, lo, hi, km=0, kv=0):
        bits = i.bits or 64
        t = IV.top(bits)
        if lo < t.lo or hi > t.hi:
            return t
        return IV(lo, hi, km, kv)

    def binop(self, st, i):
        op = i.op
        a, b = self.val(st, i.ops[0]), self.val(st, i.ops[1])
        if i.bits == 1:
            a = a if isinstance(a, CV) else CV('unk')
            b = b if isinstance(b, CV) else CV('unk')
            if op in ('and', 'or'):
                return self.mk_bool(op, a, b)
            if op == 'xor':
                if b.op == 'const' and b.val is True:
                    return CV('not', (a,), None if a.val is None else not a.val, a.poison)
                if a.op == 'const' and a.val is True:
                    return CV('not', (b,), None if b.val is None else not b.val, b.poison)
            return CV('unk')
        if isinstance(a, PV) and isinstance(b, PV) and op == 'sub':
            if len(a.alts) == 1 and len(b.alts) == 1 and a.alts[0][0] == b.alts[0][0]:
                return self.int_result(i, a.alts[0][1] - b.alts[0][2], a.alts[0][2] - b.alts[0][1])
            return IV.top(i.bits)
        if isinstance(a, PV) and isinstance(b, IV) and op in ('add', 'sub'):
            return a.shift(b.lo, b.hi) if op == 'add' else a.shift(-b.hi, -b.lo)
        if not (isinstance(a, IV) and isinstance(b, IV)):
            return IV.top(i.bits)
        if op in ('add', 'sub'):
            r = self.int_result(i, a.lo + b.lo, a.hi + b.hi) if op == 'add' else self.int_result(i, a.lo - b.hi, a.hi - b.lo)
            if a.vs is not None and b.vs is not None and len(a.vs) * len(b.vs) <= 8:
                vs = frozenset((x + y if op == 'add' else x - y) for x in a.vs for y in b.vs)
                if all(r.lo <= v <= r.hi for v in vs):
                    r.vs = vs
            return r
        if op == 'mul':
            c = [a.lo * b.lo, a.lo * b.hi, a.hi * b.lo, a.hi * b.hi]
            return self.int_result(i, min(c), max(c))
        if op == 'and':
            if b.single and b.lo >= 0:
                m = b.lo
                if a.km & m == m:
                    return IV.const(a.kv & m)
                if a.single:
                    return IV.const(a.lo & m)
                return IV(0, m, a.km & m | ~m & ((1 << (i.bits or 32)) - 1), a.kv & m)
            if a.single and b.single:
                return IV.const(a.lo & b.lo)
            if a.lo >= 0 and b.lo >= 0:
                return IV(0, min(a.hi, b.hi))
            return IV.top(i.bits)
        if op == 'or':
            if a.single and b.single:
                return IV.const(a.lo | b.lo)
            if a.lo >= 0 and b.lo >= 0:
                n = max(a.hi, b.hi).bit_length()
                km = (a.km & a.kv) | (b.km & b.kv)      # bits known to be one
                return IV(max(a.lo, b.lo), (1 << n) - 1, km, km)
            return IV.top(i.bits)
        if op == 'xor':
            if a.single and b.single:
                return IV.const(a.lo ^ b.lo)
            if a.lo >= 0 and b.lo >= 0:
                return IV(0, (1 << max(a.hi, b.hi).bit_length()) - 1)
            return IV.top(i.bits)
        if op == 'shl' and b.single and 0 <= b.lo < 63:
            return self.int_result(i, a.lo << b.lo, a.hi << b.lo)
        if op in ('lshr', 'ashr') and b.single and 0 <= b.lo < 64 and a.lo >= 0:
            return IV(a.lo >> b.lo, a.hi >> b.lo)
        if op in ('udiv', 'sdiv') and b.lo > 0 and a.lo >= 0:
            return IV(a.lo // b.hi, a.hi // b.lo)
        if op in ('urem', 'srem') and b.lo > 0 and a.lo >= 0:
            if a.hi < b.lo:
                return IV(a.lo, a.hi)
            return IV(0, b.hi - 1)
        if op == 'srem' and b.lo > 0:
            return IV(-(b.hi - 1), b.hi - 1)
        return IV.top(i.bits)

    def exec_inst(self, i, st):
        """list of successor states"""
        op = i.op
        key = ('i', i.id)
        env = st.env
        self.steps += 1
        if op in ('store', 'call', 'invoke', 'getelementptr', 'sitofp', 'uitofp', 'load'):
            for o in i.ops:
                if o.k in ('inst', 'arg'):
                    self.use(st.env.get(o.key()))
        elif op in ('add', 'sub', 'mul', 'and', 'or', 'xor', 'shl', 'lshr', 'ashr', 'udiv', 'sdiv', 'urem', 'srem', 'icmp',
                    'zext', 'sext', 'trunc'):
            pz = None
            for o in i.ops:
                if o.k in ('inst', 'arg'):
                    pz = pz or getattr(st.env.get(o.key()), 'poison', None)
            if pz is not None:
                out = self.exec_inst2(i, st)
                for s in out:
                    r = s.env.get(key)
                    if isinstance(r, IV):
                        r = IV(r.lo, r.hi, r.km, r.kv, r.tag, r.vs, pz)
                        s.env[key] = r
                    elif isinstance(r, CV):
                        s.env[key] = CV(r.op, r.args, r.val, pz)
                return out
        return self.exec_inst2(i, st)

    def exec_inst2(self, i, st):
        op = i.op
        key = ('i', i.id)
        env = st.env
        if op == 'alloca':
            o = ('a', i.id)
            self.objsize[o] = i.d.get('alloc_ty', {}).get('size')
            for k in [k for k in st.mem if k[0] == o]:
                del st.mem[k]
            env[key] = PV([(o, 0, 0)])
            return [st]
        if op in ('add', 'sub', 'mul', 'and', 'or', 'xor', 'shl', 'lshr', 'ashr', 'udiv', 'sdiv', 'urem', 'srem'):
            env[key] = self.binop(st, i)
            return [st]
        if op in ('fadd', 'fsub', 'fmul', 'fdiv', 'frem'):
            a, b = self.val(st, i.ops[0]), self.val(st, i.ops[1])
            bits = i.bits or 64
            if not (isinstance(a, FV) and isinstance(b, FV)) or bits not in (64, 80):
                env[key] = FV.top(bits)
            elif op == 'fadd':
                env[key] = f_add(a, b, bits)
            elif op == 'fsub':
                env[key] = f_add(a, b, bits, sub=True)
            elif op == 'fmul':
                env[key] = f_mul(a, b, bits)
            elif op == 'fdiv':
                env[key] = f_div(a, b, bits)
            else:
                env[key] = f_fmod(a, b)
            return [st]
        if op == 'fneg':
            a = self.val(st, i.ops[0])
            env[key] = f_neg(a) if isinstance(a, FV) else FV.top(i.bits or 64)
            return [st]
        if op == 'fcmp':
            a, b = self.val(st, i.ops[0]), self.val(st, i.ops[1])
            v = self.fcmp_eval(i.pred, a, b) if isinstance(a, FV) and isinstance(b, FV) else None
            env[key] = CV('fcmp', (i.pred, i.ops[0], i.ops[1]), v)
            return [st]
        if op == 'icmp':
            a, b = self.val(st, i.ops[0]), self.val(st, i.ops[1])
            if isinstance(a, IV) and a.tag is not None and i.pred == 'slt' and isinstance(b, IV) and b.single and b.lo == 0:
                x = self.val(st, a.tag)
                env[key] = CV('sign', (a.tag,), self.sign_eval(x) if isinstance(x, FV) else None)
                return [st]
            env[key] = CV('icmp', (i.pred, i.ops[0], i.ops[1]), self.icmp_eval(i.pred, a, b))
            return [st]
        if op == 'getelementptr':
            env[key] = self.gep(st, self.val(st, i.ops[0]), i.d['gep'])
            return [st]
        if op == 'load':
            p = self.val(st, i.ops[0])
            v, cell = self.load(st, p, i.ty, i, check=not self.light)
            env[key] = v
            st.alias.pop(key, None)
            if cell is not None:
                st.alias[key] = cell
            return [st]
        if op == 'store':
            v = self.val(st, i.ops[0])
            p = self.val(st, i.ops[1])
            if self.store_hook is not None:
                self.store_hook(self, st, i, p, v)
            self.store(st, p, v, i.d['store_size'], i)
            return [st]
        if op in ('bitcast', 'addrspacecast', 'freeze'):
            a = self.val(st, i.ops[0])
            if isinstance(a, FV) and i.ty.get('k') == 'int':
                r = IV.top(i.bits)
                r.tag = i.ops[0]
                env[key] = r
            elif isinstance(a, PV) and i.ty.get('k') == 'ptr':
                env[key] = a
            elif op == 'freeze':
                env[key] = a
            else:
                env[key] = self.top_of(i.ty)
            return [st]
        if op in ('zext', 'sext', 'trunc'):
            a = self.val(st, i.ops[0])
            if isinstance(a, CV):
                if i.bits == 1:
                    env[key] = a
                elif a.val is not None:
                    env[key] = IV.const((1 if op == 'zext' else -1) if a.val else 0)
                else:
                    env[key] = IV(0, 1) if op == 'zext' else IV(-1, 0)
                return [st]
            if isinstance(a, PV):
                env[key] = a
                return [st]
            if not isinstance(a, IV):
                env[key] = self.top_of(i.ty)
                return [st]
            if op == 'sext':
                env[key] = IV(a.lo, a.hi, a.km, a.kv, vs=a.vs)
            elif op == 'zext':
                env[key] = IV(a.lo, a.hi, a.km, a.kv, vs=a.vs) if a.lo >= 0 else IV(0, (1 << (self.src_bits(i) or 32)) - 1)
            else:
                if i.bits == 1:
                    env[key] = CV('unk')
                    return [st]
                t = IV.top(i.bits)
                if t.lo <= a.lo and a.hi <= t.hi:
                    env[key] = IV(a.lo, a.hi, a.km & ((1 << i.bits) - 1), a.kv & ((1 << i.bits) - 1), vs=a.vs)
                else:
                    env[key] = t
            return [st]
        if op in ('ptrtoint', 'inttoptr'):
            a = self.val(st, i.ops[0])
            env[key] = a if isinstance(a, PV) else self.top_of(i.ty)
            return [st]
        if op in ('fpext', 'fptrunc'):
            a = self.val(st, i.ops[0])
            frm = self.src_bits(i) or 64
            env[key] = f_conv(a, frm, i.bits or 64) if isinstance(a, FV) else FV.top(i.bits or 64)
            return [st]
        if op in ('sitofp', 'uitofp'):
            a = self.val(st, i.ops[0])
            if isinstance(a, CV):
                a = IV.const(int(a.val)) if a.val is not None else IV(0, 1)
            if isinstance(a, IV) and (op == 'sitofp' or a.lo >= 0):
                env[key] = FV(float(a.lo), float(a.hi), integral=True)
            else:
                env[key] = FV(-1.9e19, 1.9e19, integral=True)
            return [st]
        if op in ('fptosi', 'fptoui'):
            a = self.val(st, i.ops[0])
            bits = i.bits or 32
            t = IV.top(bits) if op == 'fptosi' else IV(0, (1 << bits) - 1)
            if not isinstance(a, FV):
                env[key] = t
                return [st]
            bad = []
            if a.nan:
                bad.append('NaN')
            if a.pinf or a.ninf:
                bad.append('an infinity')
            lo = hi = None
            if a.fin:
                if a.lo <= float(t.lo) - 1:
                    bad.append('a value below %d' % t.lo)
                if a.hi >= float(t.hi) + 1:
                    bad.append('a value above %d' % t.hi)
                lo = max(t.lo, math.trunc(max(a.lo, -1e30)))
                hi = min(t.hi, math.trunc(min(a.hi, 1e30)))
            # an out-of-range conversion yields a poison value: undefined only when the value is used (the compiler may have
            # hoisted the conversion above the test that guards its use)
            self.oblige('fpcast', i, True)
            pz = None
            if bad:
                pz = (i, 'the operand of this float -> %d-bit integer conversion may be %s (value range %r) and the result is '
                      'used: the conversion is undefined' % (bits, ' or '.join(bad), a))
            r = IV(lo, hi) if lo is not None and lo <= hi else IV(t.lo, t.hi)
            r.poison = pz
            env[key] = r
            return [st]
        if op == 'select':
            return self.exec_select(i, st)
        if op in ('call', 'invoke'):
            return self.exec_call(i, st)
        if op in ('extractvalue', 'insertvalue', 'va_arg'):
            env[key] = self.top_of(i.ty)
            return [st]
        raise AnalysisBroken('c13_fi: unsupported instruction %s at %s in %s' % (op, i.where(), self.fn.name))

    def src_bits(self, i):
        o = i.ops[0]
        if o.k == 'inst':
            return self.fn.insts[o.id].bits
        if o.k == 'arg':
            return self.fn.params[o.argno]['ty'].get('bits')
        if o.k == 'ci':
            return o.width
        return None

    def exec_select(self, i, st):
        key = ('i', i.id)
        c = self.cond_of(st, i.ops[0])
        self.use(c)
        if i.bits == 1:
            a = self.cond_of(st, i.ops[1])
            b = self.cond_of(st, i.ops[2])
            if a.op == 'const' and a.val is True:
                st.env[key] = self.mk_bool('or', c, b)
            elif b.op == 'const' and b.val is False:
                st.env[key] = self.mk_bool('and', c, a)
            elif c.val is not None:
                st.env[key] = a if c.val else b
            else:
                st.env[key] = CV('unk')
            return [st]
        if c.val is not None:
            st.env[key] = self.val(st, i.ops[1] if c.val else i.ops[2])
            return [st]
        # the two cases are evaluated under their condition and joined (no path split)
        vals = []
        for truth, o in ((True, i.ops[1]), (False, i.ops[2])):
            for s in self.refine(st.fork(), c, truth):
                vals.append(self.val(s, o))
        if not vals:
            st.dead = True
            return []
        v = vals[0]
        for x in vals[1:]:
            v = vjoin(v, x)
        if isinstance(v, Unknown):
            v = self.top_of(i.ty)
        st.env[key] = v
        return [st]

    # ------------------------------------------------------------------ calls
    def cstr_len(self, st, p, inst):
        """interval of strlen(p) (None, detail) when no terminator is guaranteed"""
        lo_all, hi_all = None, None
        for (o, lo, hi) in p.alts:
            if isinstance(o, str) and o.startswith('g:'):
                b = self.global_bytes(o[2:])
                if b is None:
                    return None
                for off in range(max(lo, 0), hi + 1):
                    if off >= len(b) or 0 not in b[off:]:
                        return None
                    n = b[off:].index(0)
                    lo_all = n if lo_all is None else min(lo_all, n)
                    hi_all = n if hi_all is None else max(hi_all, n)
            elif isinstance(o, tuple) and o[0] == 'a':
                sz = self.size_of(o)
                if sz is None or hi - lo > 4096 or lo < 0:
                    self.cstr_end[o] = 1 << 40
                    return None
                for off in range(lo, min(hi, sz - 1) + 1):
                    first_may = None
                    must = None
                    for q in range(off, sz):
                        c = st.mem.get((o, q, 1))
                        if not isinstance(c, IV) or (c.lo <= 0 <= c.hi):
                            if first_may is None:
                                first_may = q - off
                            if isinstance(c, IV) and c.lo == 0 and c.hi == 0:
                                must = q - off
                                break
                    if must is None:
                        self.cstr_end[o] = 1 << 40
                        return None
                    if not self.silent:
                        self.cstr_end[o] = max(self.cstr_end.get(o, -1), off + must)
                    lo_all = first_may if lo_all is None else min(lo_all, first_may)
                    hi_all = must if hi_all is None else max(hi_all, must)
            else:
                return None
        if lo_all is None:
            return None
        return (lo_all, hi_all)

    def exec_call(self, i, st):
        key = ('i', i.id)
        callee = i.callee
        args = [self.val(st, a) for a in i.ops]
        isvoid = i.ty.get('k') == 'void'

        def ret(v):
            if not isvoid:
                st.env[key] = v
            return [st]
        if callee is None:
            cv = i.d.get('callee', {})
            if cv.get('k') == 'arg':
                h = self.call_hooks.get('<param%d>' % cv.get('i'))
                if h is not None:
                    h(self, st, i, args)
                return ret(self.top_of(i.ty))
            raise AnalysisBroken('c13_fi: indirect call at %s in %s is not a call of a parameter' % (i.where(), self.fn.name))
        h = self.call_hooks.get(callee)
        if h is not None:
            r = h(self, st, i, args)
            if r is not None:
                return ret(r)
        if callee.startswith('llvm.dbg') or callee.startswith('llvm.lifetime'):
            return [st]
        a0 = args[0] if args else None
        if callee in ('modf', 'modfl', 'modff'):
            p = args[1]
            if not isinstance(a0, FV):
                a0 = FV.top()
            out = []
            cases = f_modf_cases(a0)
            for n, (ip, fp) in enumerate(cases):
                s = st if n == len(cases) - 1 else st.fork()
                self.store(s, p, ip, i.ty.get('size', 8), i)
                s.env[key] = fp
                out.append(s)
            return out
        if callee in ('fmod', 'fmodl', 'fmodf'):
            b = args[1]
            if isinstance(a0, FV) and isinstance(b, FV):
                if f_is_integral(a0) and not a0.integral:
                    a0 = a0.copy()
                    a0.integral = True
                return ret(f_fmod(a0, b))
            return ret(FV.top(i.bits or 64))
        if callee in ('fabs', 'fabsl', 'fabsf') or callee.startswith('llvm.fabs.'):
            return ret(f_abs(a0) if isinstance(a0, FV) else FV.top(i.bits or 64))
        if callee in ROUND_CALLS:
            return ret(f_round(a0, ROUND_CALLS[callee]) if isinstance(a0, FV) else FV.top(i.bits or 64))
        if callee in ('log10', 'log10l', 'log10f'):
            return ret(f_log10(a0) if isinstance(a0, FV) else FV.top(i.bits or 64))
        if callee in ('pow', 'powl', 'powf'):
            if isinstance(a0, FV) and isinstance(args[1], FV):
                return ret(f_pow(a0, args[1]))
            return ret(FV.top(i.bits or 64))
        if callee in ('strlen',):
            if isinstance(a0, PV):
                self.check_access(st, a0, 1, i, 'strlen')
                r = self.cstr_len(st, a0, i)
                if r is not None:
                    return ret(IV(r[0], r[1]))
                if any(isinstance(o, tuple) for (o, _, _) in a0.alts) and not self.light:
                    self.oblige('cstr', i, False, 'strlen of a local buffer that is not provably terminated in this state')
            return ret(IV(0, (1 << 31) - 1))
        if callee in ('strcpy',):
            d, s_ = args[0], args[1]
            n = self.cstr_len(st, s_, i) if isinstance(s_, PV) else None
            if n is None or n[0] != n[1] or not isinstance(d, PV):
                self.oblige('bounds:strcpy', i, False, 'strcpy of a string of unknown length')
                return ret(d)
            ln = n[0] + 1
            self.check_access(st, d, ln, i, 'strcpy')
            data = None
            if all(isinstance(a[0], str) and a[0].startswith('g:') and a[1] == a[2] for a in s_.alts):
                rows = []
                for a in s_.alts:
                    b = self.global_bytes(a[0][2:])
                    rows.append(b[a[1]:a[1] + ln] if b is not None else None)
                if all(r_ is not None and len(r_) == ln for r_ in rows):
                    data = []
                    for col in zip(*rows):
                        v = IV.const(col[0])
                        for c in col[1:]:
                            v = v.join(IV.const(c))
                        data.append(v)
            if len(d.alts) == 1 and isinstance(d.alts[0][0], tuple):
                o, lo, hi = d.alts[0]
                self.kill_aliases(st, o)
                if lo == hi and data is not None:
                    for k in [k for k in st.mem if k[0] == o and lo <= k[1] < lo + ln]:
                        del st.mem[k]
                    for n_, bt in enumerate(data):
                        st.mem[(o, lo + n_, 1)] = bt
                else:
                    for k in [k for k in st.mem if k[0] == o]:
                        del st.mem[k]
            return ret(d)
        if callee in ('memcpy',) or callee.startswith('llvm.memcpy.'):
            # memcpy(local buffer, text, constant n): both extents checked; the bytes are known when the source is constant
            d, s_, n_ = args[0], args[1], args[2]
            if not (isinstance(n_, IV) and n_.lo == n_.hi and isinstance(d, PV) and isinstance(s_, PV)):
                raise AnalysisBroken('c13_fi: memcpy with a length that is not a constant at %s' % i.where())
            ln = n_.lo
            self.check_access(st, d, ln, i, 'memcpy')
            self.check_access(st, s_, ln, i, 'memcpy')
            data = None
            if all(isinstance(a[0], str) and a[0].startswith('g:') and a[1] == a[2] for a in s_.alts):
                rows = []
                for a in s_.alts:
                    b = self.global_bytes(a[0][2:])
                    rows.append(b[a[1]:a[1] + ln] if b is not None else None)
                if all(r_ is not None and len(r_) == ln for r_ in rows):
                    data = []
                    for col in zip(*rows):
                        v = IV.const(col[0])
                        for c in col[1:]:
                            v = v.join(IV.const(c))
                        data.append(v)
            if len(d.alts) == 1 and isinstance(d.alts[0][0], tuple):
                o, lo, hi = d.alts[0]
                self.kill_aliases(st, o)
                if lo == hi and data is not None:
                    for k in [k for k in st.mem if k[0] == o and lo <= k[1] < lo + ln]:
                        del st.mem[k]
                    for j_, bt in enumerate(data):
                        st.mem[(o, lo + j_, 1)] = bt
                else:
                    for k in [k for k in st.mem if k[0] == o]:
                        del st.mem[k]
            return ret(d)
        if callee in self.emitters:
            return ret(IV(0, (1 << 31) - 1))
        raise AnalysisBroken('c13_fi: call of %s at %s in %s has no model' % (callee, i.where(), self.fn.name))

    # ------------------------------------------------------------------ control
    def eval_phis(self, b, st, frm):
        vals = []
        for i in b.insts:
            if i.op == 'dbg':
                continue
            if i.op != 'phi':
                break
            for (bb, v) in i.incoming:
                if bb == frm.name:
                    vals.append((i, self.val(st, v), v))
                    break
            else:
                raise AnalysisBroken('c13_fi: phi without incoming for %s' % frm.name)
        for i, v, src in vals:
            k = ('i', i.id)
            st.env[k] = v
            st.alias.pop(k, None)
            if src.k in ('inst', 'arg') and src.key() in st.alias:
                st.alias[k] = st.alias[src.key()]

    def record(self, st, b):
        if self.silent:
            return
        for i in b.insts:
            if i.op == 'dbg':
                continue
            k = ('i', i.id)
            v = st.env.get(k)
            if v is None or not isinstance(v, (PV, IV, FV)):
                continue
            o = self.ranges.get(k)
            self.ranges[k] = v if o is None else vjoin(o, v)

    def exec_block(self, b, st):
        states = [st]
        for i in b.insts:
            if i.op in ('dbg', 'phi'):
                continue
            if i is b.term:
                break
            nxt = []
            for s in states:
                nxt.extend(x for x in self.exec_inst(i, s) if not x.dead)
            states = nxt
            if not states:
                return []
        out = []
        for s in states:
            self.record(s, b)
            out.extend(self.exec_term(b.term, s))
        return out

    def exec_term(self, t, st):
        fn = self.fn
        if t.op == 'ret':
            if t.ops:
                self.use(self.val(st, t.ops[0]))
            if not self.silent:
                self.ret_states.append((st, self.val(st, t.ops[0]) if t.ops else None))
            return []
        if t.op == 'unreachable':
            return []
        if t.op == 'br':
            if 'f' not in t.d:
                return [(st, fn.bmap[t.d['t']])]
            c = self.cond_of(st, t.ops[0])
            self.use(c)
            if c.val is not None:
                return [(st, fn.bmap[t.d['t'] if c.val else t.d['f']])]
            s2 = st.fork()
            out = [(s, fn.bmap[t.d['t']]) for s in self.refine(st, c, True)]
            out += [(s, fn.bmap[t.d['f']]) for s in self.refine(s2, c, False)]
            return out
        if t.op == 'switch':
            v = self.val(st, t.ops[0])
            self.use(v)
            out = []
            cases = t.d['cases']
            if isinstance(v, IV):
                hit = [c for c in cases if v.lo <= c['v'] <= v.hi]
                for c in hit:
                    s = st.fork()
                    self.assign(s, t.ops[0], IV.const(c['v']))
                    out.append((s, fn.bmap[c['bb']]))
                if not (v.single and hit):
                    out.append((st, fn.bmap[t.d['default']]))
                return out
            for name in set([t.d['default']] + [c['bb'] for c in cases]):
                out.append((st.fork(), fn.bmap[name]))
            return out
        raise AnalysisBroken('c13_fi: unsupported terminator %s' % t.op)

    @staticmethod
    def features(s):
        """discrete view of a state: integers / pointers with a single value, sign class of float cells"""
        f = {}
        for k, v in s.env.items():
            if (isinstance(v, IV) and v.lo == v.hi) or (isinstance(v, PV) and v.single):
                f[k] = v.key()
        for k, v in s.mem.items():
            if isinstance(v, FV):
                if v.special or not v.fin:
                    c = 'x'
                elif v.lo == 0 and v.hi == 0:
                    c = '0'
                elif v.lo > 0:
                    c = '+'
                elif v.hi < 0:
                    c = '-'
                else:
                    c = '*'
                f[('m', k)] = c
            elif isinstance(v, IV) and v.lo == v.hi and k[2] >= 4:
                f[('m', k)] = v.lo
        return f

    def cluster(self, states):
        """at most MAXS states: the states are grouped by the discrete features that have the fewest distinct
        values, each group is joined"""
        if len(states) <= MAXS:
            return states
        feats = [self.features(s) for s in states]
        keys = None
        for f in feats:
            keys = set(f) if keys is None else (keys & set(f))
        cand = []
        for k in keys:
            vals = set(f[k] for f in feats)
            if len(vals) > 1:
                cand.append((len(vals), str(k), k))
        cand.sort()
        chosen = []
        groups = {(): list(range(len(states)))}
        for (_, _, k) in cand:
            g2 = {}
            for n, f in enumerate(feats):
                g2.setdefault(tuple(f[x] for x in chosen + [k]), []).append(n)
            if len(g2) > MAXS:
                continue
            if len(g2) > len(groups):
                chosen.append(k)
                groups = g2
        return [join_states([states[n] for n in g]) for g in groups.values()]

    def compact(self, ins):
        """[(state, from)] -> per predecessor at most MAXS states"""
        if len(ins) <= MAXS:
            return ins
        by = {}
        for (s, f) in ins:
            by.setdefault(f, []).append(s)
        out = []
        for f, ss in by.items():
            out.extend((s, f) for s in self.cluster(ss))
        return out

    def run_region(self, loop, entries):
        """entries: [(state, from block)] for the start block (function entry: from None; loop: states whose phis
        are already evaluated, from = None).  Returns (latches [(state, from)], exits [(state, from, to)])"""
        fn = self.fn
        region = set(fn.blocks) if loop is None else loop['blocks']
        header = None if loop is None else loop['header']
        start = fn.entry if loop is None else header
        pending = {start: list(entries)}
        latches, exits = [], []
        skip = set()

        def deliver(s, frm, to):
            if to is header:
                latches.append((s, frm))
            elif to not in region:
                exits.append((s, frm, to))
            else:
                pending.setdefault(to, []).append((s, frm))
        for b in fn.rpo:
            if b not in region or b in skip:
                continue
            ins = pending.pop(b, None)
            if not ins:
                continue
            if b in self.lb and b is not header:
                L = self.lb[b]
                for (s2, f2, t2) in self.run_loop(L, ins):
                    deliver(s2, f2, t2)
                skip |= L['blocks']
                continue
            states = []
            if b is start:
                states = [s for (s, f) in ins]
            else:
                for (s, f) in self.compact(ins):
                    self.eval_phis(b, s, f)
                    states.append(s)
                states = self.cluster(states)
            for s in states:
                for (s2, to) in self.exec_block(b, s):
                    deliver(s2, b, to)
        return latches, exits

    def loop_is_heavy(self, L):
        """touches floats or local memory: worth executing to the end"""
        for b in L['blocks']:
            for i in b.insts:
                if i.op == 'store' or i.op.startswith('f') and i.op not in ('freeze',) or \
                        (i.op == 'call' and i.callee is not None and not i.callee.startswith('llvm.dbg')) or \
                        i.ty.get('k') == 'fp':
                    return True
        return False

    def run_loop(self, L, ins):
        heavy = self.loop_is_heavy(L)
        if heavy:
            return self.run_loop2(L, ins, heavy)
        # count-down emission loops: intervals cannot relate the cursor to the remaining count, so the reads inside
        # them are not judged here (c13_sx decides them with the ranges this interpreter proves for the cursors)
        self.light += 1
        try:
            return self.run_loop2(L, ins, heavy)
        finally:
            self.light -= 1

    def run_loop2(self, L, ins, heavy):
        H = L['header']
        cur = []
        for (s, f) in self.compact(ins):
            self.eval_phis(H, s, f)
            cur.append(s)
        cur = self.cluster(cur)
        exits = []
        info = self.loops.setdefault(H.name, {'rounds': 0, 'closed': 'unrolled', 'heavy': heavy})
        limit = CAP if heavy else SHORT
        entry_copy = [s.fork() for s in cur]
        rounds = 0
        saved_obl = None
        while cur:
            if rounds >= limit:
                break
            rounds += 1
            latches, ex = self.run_region(L, [(s, None) for s in cur])
            exits.extend(ex)
            nxt = []
            for (s, f) in self.compact(latches):
                self.eval_phis(H, s, f)
                nxt.append(s)
            cur = self.cluster(nxt)
        if not cur:
            if not self.silent:
                info['rounds'] = max(info['rounds'], rounds)
            return self.compact_exits(exits)
        # not finished: close by widening from the entry states (the partial unrolling is discarded for the
        # invariant but its exits are kept, they are real)
        if not self.silent:
            info['closed'] = 'widened-cap' if heavy else 'widened-short'
            info['rounds'] = None
        head = join_states(entry_copy + cur)
        head = self.widen_state(H, join_states(entry_copy), head)
        self.silent += 1
        try:
            for it in range(60):
                latches, ex = self.run_region(L, [(head.fork(), None)])
                if not latches:
                    break
                nxt = []
                for (s, f) in latches:
                    self.eval_phis(H, s, f)
                    nxt.append(s)
                new = join_states([head.fork()] + nxt)
                w = self.widen_state(H, head, new)
                if self.same_state(w, head):
                    break
                head = w
            else:
                raise AnalysisBroken('c13_fi: widening did not stabilise at %s' % H.name)
        finally:
            self.silent -= 1
        latches, ex = self.run_region(L, [(head.fork(), None)])
        exits.extend(ex)
        return self.compact_exits(exits)

    def compact_exits(self, exits):
        by = {}
        for (s, f, t) in exits:
            by.setdefault((f, t), []).append(s)
        out = []
        for (f, t), ss in by.items():
            out.extend((s, f, t) for s in self.cluster(ss))
        return out

    def widen_state(self, H, old, new):
        r = new.fork()
        for k, nv in new.env.items():
            ov = old.env.get(k)
            if ov is None:
                continue
            r.env[k] = self.widen_val(k, ov, nv)
        for k, nv in new.mem.items():
            ov = old.mem.get(k)
            if ov is not None:
                r.mem[k] = self.widen_val(None, ov, nv)
        for k in list(r.ghost):
            ov, nv = old.ghost.get(k), new.ghost.get(k)
            if isinstance(ov, IV) and isinstance(nv, IV):
                r.ghost[k] = ov.widen(nv, 32)
        return r

    def widen_val(self, k, ov, nv):
        if isinstance(ov, IV) and isinstance(nv, IV):
            bits = 64
            if k is not None and k[0] == 'i':
                bits = self.fn.insts[k[1]].bits or 64
            return ov.widen(nv, bits)
        if isinstance(ov, FV) and isinstance(nv, FV):
            return ov.widen(nv, 80)
        if isinstance(ov, PV) and isinstance(nv, PV):
            return ov.widen(nv)
        return nv

    @staticmethod
    def same_state(a, b):
        if set(a.env) != set(b.env) or set(a.mem) != set(b.mem):
            return False
        for k, v in a.env.items():
            o = b.env[k]
            if type(v) is not type(o) or (hasattr(v, 'key') and v.key() != o.key()):
                return False
        for k, v in a.mem.items():
            o = b.mem[k]
            if type(v) is not type(o) or (hasattr(v, 'key') and v.key() != o.key()):
                return False
        return True

    def run(self, args, ghost=None):
        st = St()
        for n, a in enumerate(args):
            st.env[('a', n)] = a
        if ghost:
            st.ghost.update(ghost)
        self.ret_states = []
        self.run_region(None, [(st, None)])
        return self.ret_states
