"""C05 gstuff receivers (configurable C++ receiver and legacy C receiver)."""
from common import *

SL = ['line.cursor >= 0', 'line.cursor <= line.len', 'line.len + 1 <= line.cap', 'line.cap >= 2',
      'line.cap <= 2147483647']

RECV = StructSpec('class.gstuff_autorecv', inv=SL, owns={'line.buf': 'line.cap'})
RECV1 = StructSpec('struct.gstuff_autorecv_v1', inv=SL, owns={'line.buf': 'line.cap'})

CONTINUE, NEWPACKAGE, FORCE_RESTART, GARBAGE = 0, 1, 2, 3
CRC_ERROR, OVERFLOW, STUFFING_ERROR, ALGORITHM_ERROR = -1, -2, -3, -4

NOT_CODE = ['c != ctx.GSTUFF_STUB_START', 'c != ctx.GSTUFF_STUB_STOP', 'c != ctx.GSTUFF_STUB_STUB']

def newchar_spec(S):
    """S: status name -> value, read from gstuff.h through witness/w_c05_status.cpp"""
    return FnSpec(post=[
        # memory-safety / capacity clauses
        dict(name='len-grows-by-at-most-one', then=['line.len_post <= line.len + 1', 'line.cap_post == line.cap']),
        dict(name='status-range', then=['ret >= %d' % min(S.values()), 'ret <= %d' % max(S.values())]),
        # a frame that does not fit is reported as overflow, not delivered
        dict(name='overflow-only-when-full', when=['ret == %d' % S['OVERFLOW']], then=['state_post == 0']),
        dict(name='full-line-data-byte-overflows',
             when=['state == 1', 'line.len >= line.cap - 1', 'c != ctx.GSTUFF_START', 'c != ctx.GSTUFF_STOP',
                   'c != ctx.GSTUFF_STUB'],
             then=['ret == %d' % S['OVERFLOW'], 'state_post == 0', 'line.len_post == line.len']),
        # completed packet only with zero crc residue; crc byte stripped
        dict(name='accept-needs-zero-residue', when=['ret == %d' % S['NEWPACKAGE']], then=['crc == 0', 'state_post == 0']),
        dict(name='accept-strips-crc', when=['ret == %d' % S['NEWPACKAGE'], 'line.cursor == line.len', 'line.len >= 1'],
             then=['line.len_post == line.len - 1']),
        dict(name='stop-with-residue-is-crc-error',
             when=['state == 1', 'c == ctx.GSTUFF_STOP', 'c != ctx.GSTUFF_START', 'crc >= 1'],
             then=['ret == %d' % S['CRC_ERROR'], 'state_post == 0']),
        dict(name='stop-with-zero-residue-accepts',
             when=['state == 1', 'c == ctx.GSTUFF_STOP', 'c != ctx.GSTUFF_START', 'crc == 0'],
             then=['ret == %d' % S['NEWPACKAGE']]),
        # start marker inside a frame restarts (markers differ)
        dict(name='start-in-frame-restarts',
             when=['state == 1', 'c == ctx.GSTUFF_START', 'ctx.GSTUFF_START != ctx.GSTUFF_STOP'],
             then=['ret == %d' % S['FORCE_RESTART'], 'state_post == 1', 'line.len_post == 0', 'line.cursor_post == 0', 'crc_post == 255']),
        dict(name='start-when-idle-opens-frame', when=['state == 4', 'c == ctx.GSTUFF_START'],
             then=['ret == %d' % S['CONTINUE'], 'state_post == 1', 'line.len_post == 0', 'crc_post == 255']),
        dict(name='garbage-when-idle', when=['state == 4', 'c != ctx.GSTUFF_START'],
             then=['ret == %d' % S['GARBAGE'], 'state_post == 4', 'line.len_post == line.len']),
        dict(name='stub-enters-escape',
             when=['state == 1', 'c == ctx.GSTUFF_STUB', 'c != ctx.GSTUFF_START', 'c != ctx.GSTUFF_STOP'],
             then=['ret == %d' % S['CONTINUE'], 'state_post == 2', 'line.len_post == line.len']),
        # escape decoding: the byte stored is the marker the code stands for
        dict(name='escape-start', when=['state == 2', 'c == ctx.GSTUFF_STUB_START', 'line.len < line.cap - 1'],
             then=['ret == %d' % S['CONTINUE'], 'state_post == 1', 'ghost_put == ctx.GSTUFF_START', 'line.len_post == line.len + 1']),
        dict(name='escape-stop',
             when=['state == 2', 'c != ctx.GSTUFF_STUB_START', 'c == ctx.GSTUFF_STUB_STOP', 'line.len < line.cap - 1'],
             then=['ret == %d' % S['CONTINUE'], 'state_post == 1', 'ghost_put == ctx.GSTUFF_STOP']),
        dict(name='escape-stub',
             when=['state == 2', 'c != ctx.GSTUFF_STUB_START', 'c != ctx.GSTUFF_STUB_STOP', 'c == ctx.GSTUFF_STUB_STUB',
                   'line.len < line.cap - 1'],
             then=['ret == %d' % S['CONTINUE'], 'state_post == 1', 'ghost_put == ctx.GSTUFF_STUB']),
        dict(name='invalid-escape-is-an-error', when=['state == 2', 'c != ctx.GSTUFF_START'] + NOT_CODE,
             then=['ret == %d' % S['STUFFING_ERROR'], 'state_post == 0']),
        dict(name='start-after-stub-restarts', when=['state == 2', 'c == ctx.GSTUFF_START'] + NOT_CODE,
             then=['ret == %d' % S['FORCE_RESTART'], 'state_post == 1', 'line.len_post == 0', 'crc_post == 255']),
        dict(name='data-byte-stored', when=['state == 1', 'line.len < line.cap - 1', 'c != ctx.GSTUFF_START',
                                            'c != ctx.GSTUFF_STOP', 'c != ctx.GSTUFF_STUB'],
             then=['ret == %d' % S['CONTINUE'], 'state_post == 1', 'ghost_put == c', 'line.len_post == line.len + 1']),
    ] + [
        # Resynchronisation when the markers differ: from EVERY state (idle after a frame or an error, idle, inside a frame,
        # after an escape byte) a start marker leaves the receiver in one and the same configuration - in-frame, empty line,
        # CRC register re-armed.  What is received after a start marker therefore does not depend on anything received
        # before it: a well-formed frame following any garbage is processed exactly as by a fresh receiver, i.e. it is
        # delivered intact, from the first one on.
        dict(name='resync:start-marker-from-state-%d-gives-the-fresh-in-frame-configuration' % s_,
             when=['state == %d' % s_, 'c == ctx.GSTUFF_START', 'ctx.GSTUFF_START != ctx.GSTUFF_STOP'] + NOT_CODE,
             then=['state_post == 1', 'line.len_post == 0', 'line.cursor_post == 0', 'crc_post == 255',
                   'line.cap_post == line.cap'])
        for s_ in (0, 1, 2, 4)
    ] + [
        # Resynchronisation when the markers COINCIDE (START == STOP == M, e.g. gstuff_context_v0).  The configurations are
        # idle (0/4), fresh (1, empty line, CRC 0xff), mid (1, len >= 1) and esc (2).  The clauses below give, for the marker:
        #   idle -> fresh, fresh -> fresh, esc -> fresh, mid -> idle;  and for any other byte: idle -> idle.
        # A well-formed frame is M, a non-empty marker-free body (at least the CRC byte), M.  Whatever configuration the garbage
        # left, the opening M of the first frame therefore gives fresh (the frame is then processed as by a fresh receiver and
        # delivered) or idle; from idle the body is discarded, the closing M gives fresh, the opening M of the SECOND frame
        # keeps fresh, and the second frame is delivered: "from the second at the latest".  The step fresh -> fresh is the
        # one that matters: a receiver that treats a marker on an empty line as a stop reports a CRC error, goes idle, and is
        # out of phase for every following frame.
        dict(name='resync-same:marker-when-idle-gives-the-fresh-in-frame-configuration',
             when=['state == 0', 'c == ctx.GSTUFF_START', 'ctx.GSTUFF_START == ctx.GSTUFF_STOP'],
             then=['state_post == 1', 'line.len_post == 0', 'line.cursor_post == 0', 'crc_post == 255']),
        dict(name='resync-same:marker-when-idle(4)-gives-the-fresh-in-frame-configuration',
             when=['state == 4', 'c == ctx.GSTUFF_START', 'ctx.GSTUFF_START == ctx.GSTUFF_STOP'],
             then=['state_post == 1', 'line.len_post == 0', 'line.cursor_post == 0', 'crc_post == 255']),
        dict(name='resync-same:marker-on-an-empty-line-keeps-the-fresh-in-frame-configuration',
             when=['state == 1', 'c == ctx.GSTUFF_START', 'ctx.GSTUFF_START == ctx.GSTUFF_STOP', 'line.len == 0',
                   'line.cursor == 0', 'crc == 255'],
             then=['ret == %d' % S['CONTINUE'], 'state_post == 1', 'line.len_post == 0', 'line.cursor_post == 0', 'crc_post == 255']),
        dict(name='resync-same:marker-after-an-escape-byte-gives-the-fresh-in-frame-configuration',
             when=['state == 2', 'c == ctx.GSTUFF_START', 'ctx.GSTUFF_START == ctx.GSTUFF_STOP'] + NOT_CODE,
             then=['state_post == 1', 'line.len_post == 0', 'line.cursor_post == 0', 'crc_post == 255']),
        dict(name='resync-same:marker-inside-a-frame-ends-it',
             when=['state == 1', 'c == ctx.GSTUFF_START', 'ctx.GSTUFF_START == ctx.GSTUFF_STOP', 'line.len >= 1'],
             then=['state_post == 0']),
        dict(name='resync-same:other-bytes-leave-an-idle-receiver-idle(0)', when=['state == 0', 'c != ctx.GSTUFF_START'],
             then=['ret == %d' % S['GARBAGE'], 'state_post == 4']),
        # the configuration "state 1 with an empty line" is always the fresh one (CRC register 0xff): every step either leaves
        # state 1, or stores a byte (len_post >= 1), or is one of the reset steps above - the three clauses that complete the
        # case analysis:
        dict(name='fresh-inv:a-stored-byte-makes-the-line-non-empty', when=['state == 2', 'ret == %d' % S['CONTINUE']],
             then=['line.len_post >= 1', 'state_post == 1']),
        dict(name='fresh-inv:in-frame-steps-that-stay-in-frame-store-a-byte-or-are-the-marker',
             when=['state == 1', 'state_post == 1', 'c != ctx.GSTUFF_START'], then=['line.len_post >= 1']),
    ])

# legacy receiver: constants instead of a context; START doubles as STOP
def newchar_v1_spec(S, A):
    """S: status name -> value, A: (START, STUB, code of START, code of STUB) as signed chars; both read from the headers
    through witness/w_c05_status_v1.c"""
    L_START, L_STUB, L_STUB_START, L_STUB_STUB = A
    return FnSpec(pre=['state <= 3'], post=[
        dict(name='len-grows-by-at-most-one', then=['line.len_post <= line.len + 1', 'line.cap_post == line.cap']),
        dict(name='full-line-data-byte-overflows',
             when=['state == 1', 'line.len >= line.cap - 1', 'c != %d' % L_START, 'c != %d' % L_STUB],
             then=['ret == %d' % S['OVERFLOW'], 'state_post == 3', 'line.len_post == line.len']),
        dict(name='accept-needs-zero-residue', when=['ret == %d' % S['NEWPACKAGE']], then=['crc == 0', 'state_post == 0', 'line.len >= 1']),
        dict(name='marker-with-residue-is-crc-error',
             when=['state == 1', 'c == %d' % L_START, 'line.len >= 1', 'crc >= 1'], then=['ret == %d' % S['CRC_ERROR'], 'state_post == 0']),
        dict(name='marker-on-empty-line-ignored', when=['state == 1', 'c == %d' % L_START, 'line.len == 0'],
             then=['ret == %d' % S['CONTINUE'], 'state_post == 1', 'line.len_post == 0']),
        dict(name='stub-enters-escape', when=['state == 1', 'c == %d' % L_STUB], then=['ret == %d' % S['CONTINUE'], 'state_post == 2']),
        dict(name='escape-start', when=['state == 2', 'c == %d' % L_STUB_START, 'line.len < line.cap - 1'],
             then=['ret == %d' % S['CONTINUE'], 'state_post == 1', 'ghost_put == %d' % L_START]),
        dict(name='escape-stub', when=['state == 2', 'c == %d' % L_STUB_STUB, 'line.len < line.cap - 1'],
             then=['ret == %d' % S['CONTINUE'], 'state_post == 1', 'ghost_put == %d' % L_STUB]),
        dict(name='invalid-escape-is-an-error',
             when=['state == 2', 'c != %d' % L_STUB_START, 'c != %d' % L_STUB_STUB], then=['ret == %d' % S['DATA_ERROR']]),
        dict(name='invalid-escape-refuses-the-frame', when=['state == 2', 'c != %d' % L_STUB_START, 'c != %d' % L_STUB_STUB,
                                                            'c != %d' % L_START], then=['state_post == 3']),
        # a refused frame (too long, invalid escape) is skipped up to the marker that ends it: its remaining bytes are not the
        # unescaped bytes since a start marker and must not be parsed as a frame of their own
        dict(name='skip:bytes-of-a-refused-frame-are-ignored', when=['state == 3', 'c != %d' % L_START],
             then=['ret == %d' % S['CONTINUE'], 'state_post == 3', 'line.len_post == line.len']),
        dict(name='skip:the-marker-ends-the-refused-frame', when=['state == 3', 'c == %d' % L_START],
             then=['ret == %d' % S['CONTINUE'], 'state_post == 0']),
        dict(name='data-byte-stored', when=['state == 1', 'line.len < line.cap - 1', 'c != %d' % L_START, 'c != %d' % L_STUB],
             then=['ret == %d' % S['CONTINUE'], 'state_post == 1', 'ghost_put == c', 'line.len_post == line.len + 1']),
    ] + [
        # Resynchronisation of the legacy receiver (one marker M is start and stop; state 3 = skipping a refused frame up to M).
        # M leaves the receiver idle (state 0) or
        # in frame with an empty line; an idle receiver resets on its next byte and then acts as state 1, so both are the
        # fresh configuration and every frame that follows an M - i.e. the first frame after the garbage at the latest the
        # second (when the opening M ended a half-received frame) - is processed as by a fresh receiver:
        dict(name='resync:marker-inside-a-frame-ends-it', when=['state == 1', 'c == %d' % L_START, 'line.len >= 1'],
             then=['state_post == 0']),
        dict(name='resync:marker-after-an-escape-byte-ends-the-frame', when=['state == 2', 'c == %d' % L_START],
             then=['state_post == 0']),
        dict(name='resync:marker-on-an-empty-line-keeps-the-fresh-configuration',
             when=['state == 1', 'c == %d' % L_START, 'line.len == 0', 'crc == 255'],
             then=['ret == %d' % S['CONTINUE'], 'state_post == 1', 'line.len_post == 0', 'crc_post == 255']),
        dict(name='resync:marker-when-idle-gives-the-fresh-configuration', when=['state == 0', 'c == %d' % L_START],
             then=['ret == %d' % S['CONTINUE'], 'state_post == 1', 'line.len_post == 0', 'line.cursor_post == 0', 'crc_post == 255']),
        dict(name='resync:idle-receiver-starts-from-an-empty-line-and-a-fresh-crc(data)',
             when=['state == 0', 'c != %d' % L_START, 'c != %d' % L_STUB],
             then=['ret == %d' % S['CONTINUE'], 'state_post == 1', 'line.len_post == 1', 'ghost_put == c', 'ghost_crcin == 255']),
        dict(name='resync:idle-receiver-starts-from-an-empty-line-and-a-fresh-crc(stub)',
             when=['state == 0', 'c == %d' % L_STUB],
             then=['ret == %d' % S['CONTINUE'], 'state_post == 2', 'line.len_post == 0', 'line.cursor_post == 0', 'crc_post == 255']),
        dict(name='resync:delivery-leaves-the-receiver-idle', when=['ret == %d' % S['NEWPACKAGE']], then=['state_post == 0']),
        dict(name='status-range', then=['ret >= %d' % min(S.values()), 'ret <= %d' % max(S.values())]),
        dict(name='resync:no-status-but-continue-leaves-the-receiver-in-a-frame(1)', when=['ret != %d' % S['CONTINUE'], 'state_post <= 2'],
             then=['state_post == 0']),
        dict(name='resync:no-status-but-continue-leaves-the-receiver-in-a-frame(2)', when=['ret != %d' % S['CONTINUE'], 'state_post >= 1'],
             then=['state_post == 3']),
        dict(name='resync:crc-error-leaves-the-receiver-idle', when=['ret == %d' % S['CRC_ERROR']], then=['state_post == 0']),
        dict(name='resync:overflow-skips-to-the-marker', when=['ret == %d' % S['OVERFLOW']], then=['state_post == 3']),
        dict(name='resync:data-error-skips-to-the-marker-unless-it-was-the-marker', when=['ret == %d' % S['DATA_ERROR'], 'c != %d' % L_START],
             then=['state_post == 3']),
        dict(name='fresh-inv:in-frame-steps-that-stay-in-frame-store-a-byte-or-are-the-marker',
             when=['state == 1', 'state_post == 1', 'c != %d' % L_START], then=['line.len_post >= 1']),
        dict(name='fresh-inv:a-stored-byte-makes-the-line-non-empty', when=['state == 2', 'ret == %d' % S['CONTINUE']],
             then=['line.len_post >= 1', 'state_post == 1']),
    ])


def status_codes(mod, gname, names):
    """the status macros of the receiver API as the header defines them (renumbering them is not a change of behaviour)"""
    g = mod.globals.get(gname)
    init = g.get('init') if g else None
    if not (isinstance(init, list) and len(init) == len(names) and all(isinstance(x, int) for x in init)):
        raise AnalysisBroken('witness: status table %s not found' % gname)
    vals = [x - (1 << 32) if x >= (1 << 31) else x for x in init]
    if len(set(vals)) != len(vals):
        raise AnalysisBroken('status codes %s are not pairwise different: %s' % (names, vals))
    return dict(zip(names, vals))


def put_hook(interp, st, i, callee, args):
    """remember the byte handed to sline_putchar (ghost_put) and count the calls"""
    if callee and 'sline_putchar' in callee:
        from absval import IntVal
        v = args[1]
        if isinstance(v, IntVal):
            st.ghost['put'] = st.force_s(v)
    if callee and 'igris_strmcrc8' in callee:
        # remember the CRC register value the update starts from (the update itself is C17's subject)
        from absval import IntVal
        v = interp.load(st, args[0], {'k': 'int', 'bits': 8, 'size': 1}, i)
        if isinstance(v, IntVal):
            st.ghost['crcin'] = st.force_u(v) if hasattr(st, 'force_u') else st.force_s(v)
    return None


def who_writes(rep, mod, rule, fnames):
    """R-WHOWRITES: receiver code WRITES line.buf[..]/len/cursor only through sline_* functions (reading a field, e.g.
    `line.cursor == 0` to skip a redundant reset, is harmless and not this rule's business)"""
    for f in mod.defined():
        if f.srcname.startswith('sline_'):
            continue
        if not any(f.name == x or f.srcname == x for x in fnames):
            continue
        direct = []
        for i in f.all_insts():
            if i.op != 'getelementptr':
                continue
            for s in i.d['gep']['steps']:
                if not (s['k'] == 'field' and s['struct'] == 'struct.sline'):
                    continue
                # pointers derived from the field address, and from the pointer stored in the field (the buffer)
                derived, work, written = set(), [i], None
                while work and written is None:
                    x = work.pop()
                    if x.id in derived:
                        continue
                    derived.add(x.id)
                    for u in f.users(x):
                        if u.op in ('getelementptr', 'bitcast') and u.ops[0].k == 'inst' and u.ops[0].id == x.id:
                            work.append(u)
                        elif u.op == 'load' and u.ty.get('k') == 'ptr':
                            work.append(u)
                        elif u.op == 'store' and u.ops[1].k == 'inst' and u.ops[1].id == x.id:
                            written = u
                        elif u.op in ('call', 'invoke') and u.callee and (u.callee.startswith('llvm.mem') or u.callee in
                                                                           ('memcpy', 'memmove', 'memset', 'strcpy')) \
                                and u.ops and u.ops[0].k == 'inst' and u.ops[0].id == x.id:
                            written = u
                if written is not None:
                    direct.append(written.where())
        # Layering is not part of the property: a receiver that writes len/cursor or the buffer directly is still correct as
        # long as every such write is in bounds and re-establishes the sline invariant - which the R-RECV obligations decide
        # for all writes, whoever makes them.  The count of direct writes is recorded as a fact only.
        rep.inst(rule, f.qualname, 'writes-to-the-line-are-covered-by-the-bounds-and-invariant-obligations', True,
                 '%s:%d' % (f.file, f.line), fact={'direct_writes': direct})


def run(rep, repo, tier, as_decoder=False):
    """as_decoder: called from C04 (round trip): the same receiver obligations reported under R-DECODE / R-DECODE-LEGACY, without
    touching explanation, assumptions and floors of the calling check"""
    if as_decoder:
        saved = (rep.explanation, list(rep.assumptions))
    RR, RR1, RW = ('R-DECODE', 'R-DECODE-LEGACY', 'R-DECODE-WRITES') if as_decoder else ('R-RECV', 'R-RECV1', 'R-WHOWRITES')
    rep.explanation = (
        'Abstract interpretation of gstuff_autorecv::newchar/init/reset and of the legacy gstuff_autorecv_newchar_v1 '
        'under the sline invariant: every write to the receive buffer is in bounds and goes through sline_putchar, '
        'a refused byte yields the OVERFLOW status, NEWPACKAGE is returned only with zero CRC residue and strips the '
        'CRC byte, a start marker inside a frame restarts (markers differ), each escape code decodes to its marker, an '
        'invalid escape is an error - for every automaton state, input byte, context alphabet (symbolic marker values) '
        'and buffer capacity. Resynchronisation is decided by a finite case analysis over the receiver configurations, each '
        'step of which is a proven clause: for differing markers a start marker from any state (0, 1, 2, 4) yields one and the '
        'same fresh in-frame configuration (a well-formed frame after any garbage is processed as by a fresh receiver: '
        'delivered from the first); for START == STOP the marker maps idle, fresh (state 1 with an empty line) and '
        'after-escape to fresh and mid-frame to idle, other bytes keep idle idle, so the opening marker of the first frame gives '
        'fresh (delivered) or idle, and then the closing marker gives fresh and the opening marker of the second frame keeps it '
        '(delivered from the second at the latest); the legacy receiver likewise (marker -> idle or fresh, idle resets on its next '
        'byte and continues as state 1 with CRC register 0xff; a frame refused with OVERFLOW / DATA_ERROR puts it into the skip '
        'state 3, which ignores every byte up to the marker and goes idle there, so the tail of a refused frame is never parsed '
        'as a frame of its own).  What is composed in prose and not mechanically: that a frame '
        'body contains no marker (C04 R-FRAME decides it for the encoders) and the induction over the stream.')
    rep.assumptions += ['receiver state is one of the values the automaton itself stores (0,1,2,4; legacy 0,1,2,3)',
                        'marker alphabet values are arbitrary (symbolic) for the configurable receiver']
    src = repo + '/igris/protocols/gstuff.cpp'
    mod = compile_ir(src, repo)
    rep.units.append('igris/protocols/gstuff.cpp')
    R = 'gstuff_autorecv'
    it = Interp(mod, externals=CRC_EXT, opaque=CRC_OPAQUE)
    it.call_hook = put_hook
    run = ContractRun(it, [RECV])
    st = {'this': RECV}
    import copy
    nc = newchar_spec(status_codes(witness('w_c05_status.cpp', repo), 'igris_verif_c05_status',
                                   ['CONTINUE', 'NEWPACKAGE', 'FORCE_RESTART', 'GARBAGE', 'CRC_ERROR', 'OVERFLOW',
                                    'STUFFING_ERROR', 'ALGORITHM_ERROR']))
    rep.units.append('witness/w_c05_status.cpp -> igris/protocols/gstuff.h (status codes)')
    nc.structs = st
    nc.pre = ['state <= 4', 'state != 3']
    run.run(cxx(mod, R, 'newchar'), nc)
    run.run(cxx(mod, R, 'reset'), FnSpec(structs=st, post=[dict(name='cleared', then=['line.len_post == 0', 'line.cursor_post == 0', 'crc_post == 255'])]))
    run.run(cxx(mod, R, 'init'), FnSpec(structs=st, ctor=True, pre=['len >= 2'], extents={'buf': 'len'},
                                        post=[dict(name='ready', then=['line.len_post == 0', 'crc_post == 255', 'state_post == 0', 'line.cap_post == len'])]))
    obs = summarize(it, run)
    for o in obs:
        f = mod.fn(o['function'])
        if f is not None and f.srcname:
            o['function'] = f.qualname
        stack = o.get('call_stack') or []
        if stack:
            r = mod.fn(stack[0].split('@')[0])
            o['root'] = r.qualname if r is not None else stack[0].split('@')[0]
            o['leaf'] = o['function']
    rep.add_absint(RR, obs)
    who_writes(rep, mod, RW, ['newchar', 'reset', 'init'])

    src1 = repo + '/igris/protocols/gstuff_v1/autorecv.c'
    mod1 = compile_ir(src1, repo)
    rep.units.append('igris/protocols/gstuff_v1/autorecv.c')
    it1 = Interp(mod1, externals=CRC_EXT, opaque=CRC_OPAQUE)
    it1.call_hook = put_hook
    run1 = ContractRun(it1, [RECV1])
    modw1 = witness('w_c05_status_v1.c', repo)
    rep.units.append('witness/w_c05_status_v1.c -> igris/protocols/gstuff_v1/autorecv.h, gstuff.h (status codes, alphabet)')
    S1 = status_codes(modw1, 'igris_verif_c05_v1_status', ['CONTINUE', 'NEWPACKAGE', 'CRC_ERROR', 'OVERFLOW', 'DATA_ERROR'])
    g = modw1.globals.get('igris_verif_c05_v1_alphabet')
    init = g.get('init') if g else None
    if not (isinstance(init, list) and len(init) == 4 and all(isinstance(x, int) for x in init)):
        raise AnalysisBroken('witness: legacy alphabet table not found')
    A1 = tuple(x - 256 if x >= 128 else x for x in init)
    if len(set(A1)) != 4:
        raise AnalysisBroken('legacy alphabet values are not pairwise different: %r' % (A1,))
    run1.run('gstuff_autorecv_newchar_v1', newchar_v1_spec(S1, A1))
    run1.run('gstuff_autorecv_reset_v1', FnSpec(post=[dict(name='cleared', then=['line.len_post == 0', 'crc_post == 255'])]))
    run1.run('gstuff_autorecv_setbuf_v1', FnSpec(ctor=True, structs={'autom': RECV1}, pre=['len >= 2'], extents={'buf': 'len'},
                                                 post=[dict(name='ready', then=['line.len_post == 0', 'crc_post == 255', 'line.cap_post == len'])]))
    rep.add_absint(RR1, summarize(it1, run1))
    who_writes(rep, mod1, RW, ['gstuff_autorecv_newchar_v1', 'gstuff_autorecv_reset_v1', 'gstuff_autorecv_setbuf_v1'])
    if as_decoder:
        rep.explanation, rep.assumptions = saved[0], saved[1]
        rep.floor('R-DECODE:post', 60)
        rep.floor('R-DECODE-LEGACY:post', 35)
        return
    rep.floor('R-RECV:post', 60)
    rep.floor('R-RECV:bounds', 5)
    rep.floor('R-RECV:invariant', 10)
    rep.floor('R-RECV1:post', 35)
    rep.floor('R-WHOWRITES', 6)
    # stream-level clauses (garbage prefixes, truncated / corrupted / over-long frames, concatenations) on the memoised
    # symbolic transition system of both receivers
    import c05_streams
    c05_streams.run_ext(rep, repo, tier)
