"""C04 extension: decode(encode(p)) == p, composed end to end on small concrete payload lengths with symbolic bytes.

c04.py decides the frame grammar of the encoders clause by clause, c05.py (R-DECODE) the receiver transition by transition;
the composition of the two halves was prose.  Here it is mechanised for payload lengths n = 0..3 (thorough: ..5):

* every payload byte is its own symbol, case-split into the classes {== START, == STOP, == STUB, other} of the marker
  alphabet in use.  Alphabets: the two the library ships (default context 'v1'; gstuff_context_v0 'v0', START == STOP), the
  constant alphabet of the legacy C codec, and - for n = 0..2 (thorough ..4) - EVERY consistent alphabet: one symbol per
  marker and escape code, constrained only by the consistency conditions R-ALPHABET decides for the shipped contexts
  ('any': START != STOP, 'any(START==STOP)');
* the payload is handed over in every split into 1..3 iovec pieces (empty pieces included);
* the ENCODER (gstuffing_v raw-buffer overload, gstuffing, legacy gstuffing_v1) is interpreted on that input - all loop
  bounds are constants, so loops are executed, never abstracted - and the frame is read back from the output buffer as a
  sequence of symbolic bytes;
* exactly these bytes are fed one by one to the RECEIVER (gstuff_autorecv: constructor, init with a buffer of n+2 bytes -
  the smallest that is large enough -, newchar per byte, size(), cstr(); legacy: gstuff_autorecv_setbuf_v1 /
  gstuff_autorecv_newchar_v1 on a zero-initialised struct) in the state the encoder left (same symbols, same path
  condition).

The CRC-8 is an UNINTERPRETED function crc' = f(crc, byte): igris_strmcrc8 is summarised in both halves by one symbol per
pair of arguments (same arguments, same symbol), and the only fact used about it is the one C17 decides for the routine
(checks/c17.py strm_rule, rule R-CRCSTEP instance 'residue-zero(f(c,d)=L(c^d),L(0)=0)'): feeding the current register
value as the next byte gives 0, f(x, x) == 0.  The CRC byte may itself be a marker: the encoder's comparisons split its
class (up to 4 paths; a class the encoder leaves open is split here), each is followed through the receiver.

Rules (identity = (rule, function, key); every instance aggregates all class combinations / splits of its key):
  R-ROUNDTRIP:frame     encoder, per (alphabet, n, number of pieces): starts with START, ends with STOP, nothing that may
                        equal a marker unescaped in between and only valid escape pairs, length <= 2n+4 with every store
                        inside the 2n+4 byte buffer, and the unescaped body is payload . crc8(payload) symbol by symbol
  R-ROUNDTRIP:decode    receiver on the encoder's frame, per (alphabet, n): every byte but the last returns CONTINUE, the
                        last returns NEWPACKAGE, size() == n, cstr()[i] == payload[i] for every i and cstr()[n] == 0,
                        no access outside the n+2 byte receive buffer
  R-ROUNDTRIP:overflow  receiver alone, capacity 2..5: the well-formed frame whose content (payload + CRC) is one byte
                        longer than the buffer can hold gives OVERFLOW on the byte that does not fit, NEWPACKAGE for none
  R-ROUNDTRIP:overlong  the same with a content two bytes too long (capacity 2..3, thorough ..5): OVERFLOW on the first byte
                        that does not fit, and the rest of the refused frame is not delivered as a packet of its own
  R-ROUNDTRIP:alphabet  the shipped alphabets are consistent (precondition of the reference reading of a frame)
  R-ROUNDTRIP:analysed  one instance per codec/alphabet when every scenario was analysed exactly (carries the floor)
A scenario the interpreter cannot follow exactly (value outside the vocabulary of payload symbols / marker symbols / CRC
terms / constants, call without summary, loop not finished on a concrete bound) is never a verdict: it removes the
':analysed' instance and is listed as analysis-broken.

Attribution: the frame clauses interpret the frame with the alphabet alone (a reference unescaper in this file), so a
failing frame clause is the encoder's; the receiver clauses are evaluated only on frames that passed, so a failing decode
clause is the receiver's.  A failing instance is reported with a concrete payload of the failing shape (found with a
reference CRC-8 that serves the texts only); a (byte classes, CRC class) combination no payload can have is left out.
"""
import itertools
import multiprocessing
import os
import time

from common import *
from absval import IntVal, PtrVal, CondVal, State, mk_const, TOP, NULL
from lin import Lin

# names of the other status codes, for texts only (the three the clauses talk about are read from the headers through the
# witness units)
STATUS = {2: 'FORCE_RESTART', 3: 'GARBAGE', -1: 'CRC_ERROR', -3: 'STUFFING_ERROR', -4: 'ALGORITHM_ERROR'}
AXIOM = "f(x, x) == 0 (C17 R-CRCSTEP 'residue-zero(f(c,d)=L(c^d),L(0)=0)', checks/c17.py strm_rule)"
I8 = {'k': 'int', 'bits': 8, 'size': 1, 's': 'i8'}
FIELDS = ['GSTUFF_START', 'GSTUFF_STOP', 'GSTUFF_STUB', 'GSTUFF_STUB_START', 'GSTUFF_STUB_STOP', 'GSTUFF_STUB_STUB']
RULE = 'R-ROUNDTRIP'
OVERLONG = True       # also decide the frames whose content is two bytes too long (R-ROUNDTRIP:overlong)


class Unresolved(Exception):
    """the scenario cannot be followed exactly: no verdict"""


def s8(c):
    c &= 0xff
    return c - 256 if c >= 128 else c


def val8(l):
    """8-bit value with the signed form l (plain char is signed on the analysed target)"""
    return mk_const(8, l.c) if l.is_const() else IntVal(8, None, l)


# ----------------------------------------------------------------------------------------------------------------------
# interpreter: concrete control, symbolic bytes, uninterpreted CRC
# ----------------------------------------------------------------------------------------------------------------------
class RtInterp(Interp):
    def __init__(self, mod, markers):
        crc = [f.name for f in mod.functions.values() if not f.decl and f.srcname == 'igris_strmcrc8']
        if not crc:
            raise AnalysisBroken('igris_strmcrc8 is not part of %s: the CRC of the gstuff codec is computed elsewhere '
                                 '(anchor vanished)' % mod.path)
        Interp.__init__(self, mod, externals={n: self.ext_crc for n in crc}, opaque=set(crc))
        self.markers = list(markers)  # Lin forms byte values are canonicalised to
        self.events = []
        self.max_iter = 64
        self.crc_calls = 0
        self.root = None
        self.watch = None             # object whose byte stores are attributed to the storing function (ghost 'w<off>')
        self.store_hook = self._store_hook

    @staticmethod
    def _store_hook(interp, st, inst, p, v):
        if interp.watch is not None and isinstance(p, PtrVal) and p.obj == interp.watch and p.off.is_const():
            st.ghost['w%d' % p.off.c] = inst.fn.srcname or inst.fn.name

    def path_functions(self):
        """source names of the library functions interpreted so far (for the texts of failing instances)"""
        out = set()
        for n in self.functions_seen:
            f = self.mod.fn(n)
            nm = (f.qualname or f.srcname) if f is not None else n
            if nm and not nm.startswith('igris_verif_'):
                out.add(nm)
        return sorted(out)

    # ---- no abstraction anywhere: a call without a summary is not followed by guessing -----------------------------
    def default_external(self, st, i, callee, args):
        raise Unresolved('call to %s, which has no summary in the round-trip analysis (%s)' % (callee, i.where()))

    def run_loop(self, fn, L, st, frm, rets):
        header = L['header']
        cur = [(st, frm)]
        out = []
        for k in range(self.max_iter):
            nxt = []
            for (s, f) in cur:
                self.eval_phis(fn, header, s, f)
                latches, exits = self.run_region(fn, L, [(s, f)], rets)
                nxt.extend(latches)
                out.extend(exits)
            if not nxt:
                return out
            if len(nxt) > 512:
                raise Unresolved('more than 512 paths around the loop at %s' % header.term.where())
            cur = nxt
        raise Unresolved('the loop at %s of %s is not finished after %d iterations on a concrete small input'
                         % (header.term.where(), fn.name, self.max_iter))

    def check_access(self, st, p, size, inst, kind):
        if not isinstance(p, PtrVal):
            raise Unresolved('%s through a value that is not a pointer at %s' % (kind, inst.where() if inst else '?'))
        who = (inst.fn.srcname or inst.fn.name) if inst is not None else '?'
        where = inst.where() if inst is not None else '?'
        if p.is_null:
            self.events.append(dict(fn=who, root=self.root, where=where, st=st, what='%s through a null pointer' % kind))
            st.bottom = True
            return
        o = st.objs.get(p.obj)
        if isinstance(size, Lin):
            if not size.is_const():
                raise Unresolved('%s of a non-constant size at %s' % (kind, where))
            size = size.c
        if o is None or o.size is None or not o.size.is_const() or not p.off.is_const():
            raise Unresolved('%s at a non-constant position (%r of %s) at %s' % (kind, p.off, self.describe_obj(st, p.obj), where))
        lo, hi = 0, o.size.c
        if p.lo is not None and p.hi is not None and p.lo.is_const() and p.hi.is_const():
            lo, hi = p.lo.c, p.hi.c
        self.checked += 1
        if size and (p.off.c < lo or p.off.c + size > hi):
            self.events.append(dict(fn=who, root=self.root, where=where, obj=p.obj, st=st,
                                    what='%s of %d byte(s) at offset %d of %s (%d bytes)'
                                         % (kind, size, p.off.c, self.describe_obj(st, p.obj), o.size.c)))
            st.bottom = True

    # ---- a byte widened as UNSIGNED (zext): split on its sign bit, so that the unsigned form stays linear and exact -------
    def sign_split(self, st, x):
        def pin(s):
            s.conv[('u', 8, x.key())] = x + 256
            s.conv[('s', 8, (x + 256).key())] = x
        if st.cons.entails_le(0, x):
            return [st]
        if st.cons.entails_le(x, -1):
            pin(st)
            return [st]
        hi = st.fork()
        st.cons.add_le(0, x)
        hi.cons.add_le(x, -1)
        pin(hi)
        return [s for s in (st, hi) if not self.infeasible(s, x, Lin(0))]

    def exec_inst(self, fn, i, st):
        if i.op == 'zext' and i.ops[0].k in ('inst', 'arg'):
            a = self.val(st, i.ops[0], fn)
            if isinstance(a, IntVal) and a.w == 8 and a.u is None and a.s is not None and not a.s.is_const():
                out = []
                for s in self.sign_split(st, a.s):
                    out.extend(Interp.exec_inst(self, fn, i, s))
                return out
        return Interp.exec_inst(self, fn, i, st)

    def binop(self, st, op, a, b, inst):
        if op == 'sub' and isinstance(a, IntVal) and isinstance(b, IntVal) and a.pint is not None and b.pint is not None and \
                a.pint.obj is not None and a.pint.obj == b.pint.obj and (a.pint.off - b.pint.off).is_const():
            return mk_const(inst.bits, (a.pint.off - b.pint.off).c)       # distance of two positions in one buffer
        return Interp.binop(self, st, op, a, b, inst)

    # ---- a context passed by value travels as one i48: keep its bytes ------------------------------------------------
    def load(self, st, p, ty, inst):
        if ty.get('k') == 'int' and ty['bits'] > 8 and isinstance(p, PtrVal) and not p.is_null and p.off.is_const() and \
                (p.obj, p.off.c, (ty['bits'] + 7) // 8) not in st.mem:
            n = (ty['bits'] + 7) // 8
            cells = [st.mem.get((p.obj, p.off.c + j, 1)) for j in range(n)]
            if all(isinstance(c, IntVal) for c in cells) and any(c.const() is None for c in cells):
                self.check_access(st, p, n, inst, 'load')
                if st.bottom:
                    return TOP
                w = st.fresh_int(ty['bits'], False, 'wide')
                st.conv[('parts', w.u.key())] = cells
                return w
        return Interp.load(self, st, p, ty, inst)

    def store(self, st, p, v, size, inst):
        if size > 1 and isinstance(v, IntVal) and v.u is not None and isinstance(p, PtrVal) and not p.is_null:
            parts = st.conv.get(('parts', v.u.key()))
            if parts is not None and len(parts) == size:
                self.check_access(st, p, size, inst, 'store')
                if st.bottom:
                    return
                for j, b in enumerate(parts):
                    Interp.store(self, st, PtrVal(p.obj, p.off + j, p.lo, p.hi, p.nonnull), b, 1, inst)
                return
        return Interp.store(self, st, p, v, size, inst)

    # ---- the CRC-8 step as an uninterpreted function ------------------------------------------------------------------
    def eqmap(self, st):
        """atoms the path condition pins: symbol -> the marker / constant it equals (read off the literal equalities of the path
        condition - every one of them comes from a comparison of two byte values - without any elimination)"""
        n = len(st.cons.items)
        hit = st.conv.get('rt-eq')
        if hit is not None and hit[0] == n:
            return hit[1]
        keys = st.cons.keys
        eq = []
        odd = False
        for l in st.cons.items:
            if l.t and (-l).key() in keys:
                if len(l.t) <= 2:
                    eq.append(l)
                else:
                    odd = True
        m = {}
        marks = set(self.markers)
        for _ in range(2):
            for l in eq:
                items = list(l.t.items())
                if len(items) == 1:
                    (x, k), = items
                    if k in (1, -1):
                        m.setdefault(Lin.sym(x), Lin(-l.c * k))
                elif len(items) == 2 and l.c == 0 and items[0][1] == -items[1][1] and abs(items[0][1]) == 1:
                    a, b = Lin.sym(items[0][0]), Lin.sym(items[1][0])
                    if a in marks and b not in marks:
                        m.setdefault(b, a)
                    elif b in marks and a not in marks:
                        m.setdefault(a, b)
                    else:
                        odd = True
                else:
                    odd = True
        # a constant that a (symbolic) marker is pinned to is written as that marker
        for mk in self.markers:
            c = m.get(mk)
            if c is not None and c.is_const():
                m.setdefault(c, mk)
        m['?'] = odd                 # equalities of another shape exist: identity of two values then needs the elimination
        st.conv['rt-eq'] = (n, m)
        return m

    def canon(self, st, l):
        """a byte value that the path condition pins to a marker is written as that marker"""
        for _ in range(3):
            if l in self.markers:
                return l
            nxt = self.eqmap(st).get(l)
            if nxt is None or nxt == l:
                return l
            l = nxt
        return l

    def decide(self, st, c):
        """(in)equality of two byte values: identical atoms are equal, atoms with a recorded disequality differ, anything else is
        open (the branch is then split and each side checked for feasibility) - no elimination needed"""
        if c.k == 'cmp' and c.args[0] in ('eq', 'ne'):
            a, b = c.args[1], c.args[2]
            if isinstance(a, IntVal) and isinstance(b, IntVal) and a.s is not None and b.s is not None and a.w == b.w and \
                    in_vocabulary(a.s) and in_vocabulary(b.s):
                la, lb = self.canon(st, a.s), self.canon(st, b.s)
                if la == lb:
                    return c.args[0] == 'eq'
                if (la.is_const() and lb.is_const()) or st.known_diseq(la, lb):
                    return c.args[0] == 'ne'
                if not la.is_const() or not lb.is_const():
                    return None
        return Interp.decide(self, st, c)

    def crc_apply(self, st, a, b):
        a, b = self.canon(st, a), self.canon(st, b)
        if a == b or (self.eqmap(st)['?'] and not (a.is_const() and b.is_const()) and not st.known_diseq(a, b) and
                      st.cons.entails_eq(a, b)):
            return mk_const(8, 0)        # the axiom: f(x, x) == 0
        x = Lin.sym('crc8[%r,%r]' % (a, b))
        st.cons.add_le(-128, x)
        st.cons.add_le(x, 127)
        return IntVal(8, None, x)

    def ext_crc(self, interp, st, i, args):
        p, c = args[0], args[1]
        cur = self.load(st, p, I8, i)
        if st.bottom:
            return []
        if not isinstance(cur, IntVal) or not isinstance(c, IntVal):
            raise Unresolved('igris_strmcrc8 called with a value that is not an 8-bit integer at %s' % i.where())
        self.crc_calls += 1
        new = self.crc_apply(st, st.force_s(cur), st.force_s(c))
        self.store(st, p, new, 1, i)
        return [(st, None)]

    def call(self, fn, st, args):
        self.root = fn.qualname or fn.srcname or fn.name
        self.stack = [(fn.name, 'entry')]
        try:
            return self.run_function(fn, st, list(args))
        finally:
            self.stack = []


# ----------------------------------------------------------------------------------------------------------------------
# value helpers
# ----------------------------------------------------------------------------------------------------------------------
def in_vocabulary(l):
    """constant, one payload symbol, one marker symbol or one CRC term: the values the analysis controls"""
    if l.is_const():
        return True
    if l.c != 0 or len(l.t) != 1:
        return False
    (s, k), = l.t.items()
    return k == 1 and isinstance(s, str) and (s.startswith('P.') or s.startswith('M.') or s.startswith('crc8['))


def sform(T, v, what):
    if not isinstance(v, IntVal) or v.w != 8:
        raise Unresolved('%s is not an 8-bit integer value (%r)' % (what, v))
    l = T.force_s(v)
    if not in_vocabulary(l):
        raise Unresolved('%s has the value %r, which is neither a constant, a payload byte, a marker nor a CRC term' % (what, l))
    return l


def same(it, T, a, b):
    a, b = it.canon(T, a), it.canon(T, b)
    if a == b:
        return True
    if (a.is_const() and b.is_const()) or T.known_diseq(a, b):
        return False
    return T.cons.entails_eq(a, b)


def differs(it, T, a, b):
    a, b = it.canon(T, a), it.canon(T, b)
    if a.is_const() and b.is_const():
        return a.c != b.c
    return T.known_diseq(a, b) or T.cons.entails_lt(a, b) or T.cons.entails_lt(b, a)


def show(l):
    if l.is_const():
        return '0x%02X' % (l.c & 0xff)
    (s, k), = l.t.items()
    s = str(s)
    if s.startswith('P.'):
        return 'p[%s]' % s[2:].split('#')[0]
    if s.startswith('M.'):
        return s[2:].split('#')[0]
    return 'crc' if s.startswith('crc8[') else s


def byte_cell(T, oid, off, what):
    v = T.mem.get((oid, off, 1))
    if v is not None:
        return v
    if any(o == oid and k < off + 1 and off < k + sz for (o, k, sz) in T.mem):
        raise Unresolved('%s is covered by a wider store' % what)
    return None


# ----------------------------------------------------------------------------------------------------------------------
# alphabets
# ----------------------------------------------------------------------------------------------------------------------
class Alphabet:
    """marker alphabet: concrete (values read from the library) or symbolic (one symbol per marker / escape code, constrained
    only by the consistency conditions R-ALPHABET decides for the shipped contexts)"""

    def __init__(self, label, vals, source='', example=None):
        self.label = label
        self.source = source
        self.example = example
        self.v = {k: (x if isinstance(x, Lin) else Lin(s8(x))) for k, x in vals.items()}
        self.symbolic = any(not x.is_const() for x in self.v.values())
        self.S, self.P, self.B = self.v['GSTUFF_START'], self.v['GSTUFF_STOP'], self.v['GSTUFF_STUB']
        self.cS, self.cP, self.cB = self.v['GSTUFF_STUB_START'], self.v['GSTUFF_STUB_STOP'], self.v['GSTUFF_STUB_STUB']
        self.classes = ['START'] + (['STOP'] if self.P != self.S else []) + ['STUB', 'other']

    def marker(self, cls):
        return {'START': self.S, 'STOP': self.P, 'STUB': self.B}[cls]

    def code(self, cls):
        return {'START': self.cS, 'STOP': self.cP, 'STUB': self.cB}[cls]

    def markers(self):
        out = []
        for m in (self.S, self.P, self.B):
            if m not in out:
                out.append(m)
        return out

    def describe(self):
        return '%s alphabet (START %s, STOP %s, STUB %s)' % (self.label, show(self.S), show(self.P), show(self.B))

    def consistent(self):
        if self.symbolic:
            return True
        S, P, B, cS, cP, cB = (x.c for x in (self.S, self.P, self.B, self.cS, self.cP, self.cB))
        return B not in (S, P) and not ({cS, cP, cB} & {S, P, B}) and cB not in (cS, cP) and ((cS != cP) == (S != P))

    def assume(self, st):
        """symbolic alphabet: value ranges and the consistency conditions"""
        if not self.symbolic:
            return
        all_ = []
        for x in (self.S, self.P, self.B, self.cS, self.cP, self.cB):
            if x not in all_:
                all_.append(x)
                st.cons.add_le(-128, x)
                st.cons.add_le(x, 127)
        for i, a in enumerate(all_):
            for b in all_[i + 1:]:
                st.add_diseq(a, b)


def symbolic_alphabets(examples):
    def m(n):
        return Lin.sym('M.' + n)
    d = Alphabet('any', dict(GSTUFF_START=m('START'), GSTUFF_STOP=m('STOP'), GSTUFF_STUB=m('STUB'), GSTUFF_STUB_START=m('code(START)'),
                             GSTUFF_STUB_STOP=m('code(STOP)'), GSTUFF_STUB_STUB=m('code(STUB)')),
                 source='every consistent alphabet with START != STOP', example=examples.get(True))
    s = Alphabet('any(START==STOP)', dict(GSTUFF_START=m('START'), GSTUFF_STOP=m('START'), GSTUFF_STUB=m('STUB'),
                                          GSTUFF_STUB_START=m('code(START)'), GSTUFF_STUB_STOP=m('code(START)'),
                                          GSTUFF_STUB_STUB=m('code(STUB)')),
                 source='every consistent alphabet with START == STOP', example=examples.get(False))
    return [d, s]


def read_ctx(mod, fname):
    """marker values of a context, by interpreting the witness function that materialises it -> (values, field offsets,
    library functions that produce it)"""
    f = mod.fn(fn_named(mod, fname))
    it = RtInterp(mod, [])
    st = State()
    o = st.new_obj('param', Lin(6), 'ctx')
    rets = it.call(f, st, [PtrVal(o.id)])
    if len(rets) != 1:
        raise AnalysisBroken('%s: %d return states' % (fname, len(rets)))
    T = rets[0][0]
    offs = {m['name']: m['off'] for m in mod.flat_fields('struct.gstuff_context')}
    vals = {}
    for k in FIELDS:
        if k not in offs:
            raise AnalysisBroken('struct gstuff_context has no field %s (anchor vanished)' % k)
        v = it.load(T, PtrVal(o.id, Lin(offs[k])), I8, None)
        c = v.const() if isinstance(v, IntVal) else None
        if c is None:
            raise AnalysisBroken('%s: field %s is not a constant' % (fname, k))
        vals[k] = c
    return vals, offs, ', '.join(it.path_functions())


# ----------------------------------------------------------------------------------------------------------------------
# CRC-8 reference: used ONLY to print a concrete witness payload for a failing scenario and to leave out a (byte classes,
# CRC class) combination that no payload of that shape can have; the proofs never look at it
# ----------------------------------------------------------------------------------------------------------------------
def crc8_ref(bs):
    c = 0xff
    for b in bs:
        c ^= b & 0xff
        for _ in range(8):
            c = ((c << 1) ^ 0x31) & 0xff if c & 0x80 else (c << 1) & 0xff
    return c


_CONC = {}


def concretise(A, classes, crc_cls):
    """a concrete payload of the given shape, or None when there is none; for a symbolic alphabet the shipped alphabet of the
    same kind serves as the example (any shape is possible in SOME alphabet, so nothing is left out there)"""
    E = A.example if A.symbolic else A
    if E is None:
        return None
    key = (E.label, tuple(classes), crc_cls)
    if key in _CONC:
        return _CONC[key]
    mk = {x.c & 0xff for x in E.markers()}
    free = [i for i, c in enumerate(classes) if c == 'other']
    base = [(E.marker(c).c & 0xff) if c != 'other' else 0 for c in classes]
    others = [x for x in range(256) if x not in mk]
    tries = 0
    res = None
    for combo in itertools.product(others, repeat=len(free)):
        bs = list(base)
        for i, x in zip(free, combo):
            bs[i] = x
        c = crc8_ref(bs)
        if (crc_cls == 'other' and c not in mk) or (crc_cls != 'other' and c == E.marker(crc_cls).c & 0xff):
            res = bs
            break
        tries += 1
        if tries > 70000:
            break
    _CONC[key] = res
    return res


def payload_with_crc(A, classes, value):
    """a concrete payload of the given shape whose CRC-8 is `value` (witness texts only), or None"""
    E = A.example if A.symbolic else A
    if E is None:
        return None
    mk = {x.c & 0xff for x in E.markers()}
    free = [i for i, c in enumerate(classes) if c == 'other']
    base = [(E.marker(c).c & 0xff) if c != 'other' else 0 for c in classes]
    others = [x for x in range(256) if x not in mk]
    for tries, combo in enumerate(itertools.product(others, repeat=len(free))):
        bs = list(base)
        for i, x in zip(free, combo):
            bs[i] = x
        if crc8_ref(bs) == value:
            return bs
        if tries > 70000:
            break
    return None


def describe(A, classes, crc_cls, split=None):
    """-> (text, whether such a payload exists)"""
    bs = concretise(A, classes, crc_cls)
    t = 'payload classes [%s]' % ', '.join(classes)
    if split is not None and len(split) > 0 and tuple(split) != (len(classes),):
        t += ' handed over as iovec pieces of %s byte(s)' % '+'.join(str(x) for x in split)
    t += ', CRC-8 %s' % ('equal to the %s marker' % crc_cls if crc_cls != 'other' else 'no marker')
    if bs is not None:
        E = A.example if A.symbolic else A
        t += '; e.g. %spayload {%s} (CRC-8 %02X)' % ('with the %s alphabet ' % E.label if A.symbolic else '',
                                                     ' '.join('%02X' % b for b in bs), crc8_ref(bs))
    return t, bs is not None or A.symbolic


# ----------------------------------------------------------------------------------------------------------------------
# book keeping
# ----------------------------------------------------------------------------------------------------------------------
class Book:
    def __init__(self):
        self.inst = {}          # (rule, fn, key) -> dict(ok, detail, where, n)
        self.unresolved = []
        self.paths = 0

    def note(self, rule, fn, key, ok, where='', detail=None):
        r = self.inst.setdefault((rule, fn, key), dict(ok=True, detail=None, where=where, n=0))
        r['n'] += 1
        if not ok and r['ok']:
            r['ok'] = False
            r['detail'] = detail
            r['where'] = where

    def merge(self, other):
        for k, r in other.inst.items():
            m = self.inst.setdefault(k, dict(ok=True, detail=None, where=r['where'], n=0))
            m['n'] += r['n']
            if not r['ok'] and m['ok']:
                m.update(ok=False, detail=r['detail'], where=r['where'])
        self.unresolved += other.unresolved
        self.paths += other.paths


def status_codes(mod, gname):
    g = mod.globals.get(gname)
    init = g.get('init') if g else None
    if not (isinstance(init, list) and len(init) == 3 and all(isinstance(x, int) for x in init)):
        raise AnalysisBroken('witness: status table %s not found' % gname)
    vals = [x - (1 << 32) if x >= (1 << 31) else x for x in init]
    if len(set(vals)) != 3:
        raise AnalysisBroken('CONTINUE / NEWPACKAGE / OVERFLOW status codes are not pairwise different: %s' % vals)
    return vals


def compositions(n, k):
    """ordered splits of n into k pieces, empty pieces allowed"""
    if k == 1:
        return [(n,)]
    return [(a,) + rest for a in range(n + 1) for rest in compositions(n - a, k - 1)]


# ----------------------------------------------------------------------------------------------------------------------
# one codec = module + functions + how to call them
# ----------------------------------------------------------------------------------------------------------------------
class Codec:
    """the configurable C++ codec (one module: witness/w_c04_roundtrip.cpp)"""
    legacy = False
    name = 'gstuff'

    def __init__(self, repo):
        self.mod = mod = witness('w_c04_roundtrip.cpp', repo)
        raw = [f for f in mod.defined() if f.srcname == 'gstuffing_v' and not any(p.get('sret') for p in f.params)]
        buf = [f for f in mod.defined() if f.srcname == 'gstuffing' and not any(p.get('sret') for p in f.params)]
        if len(raw) != 1 or len(buf) != 1:
            raise AnalysisBroken('gstuffing_v / gstuffing: %d / %d raw-buffer overloads (anchor vanished)' % (len(raw), len(buf)))
        self.enc_v, self.enc_b = raw[0], buf[0]
        for f, n in ((self.enc_v, 4), (self.enc_b, 4)):
            if len(f.params) != n:
                raise AnalysisBroken('%s: %d parameters, expected %d' % (f.srcname, len(f.params), n))
        R = 'gstuff_autorecv'
        self.init = mod.fn(cxx(mod, R, 'init'))
        self.newchar = mod.fn(cxx(mod, R, 'newchar'))
        self.make = mod.fn(fn_named(mod, 'igris_verif_rt_recv'))
        self.size = mod.fn(fn_named(mod, 'igris_verif_rt_size'))
        self.cstr = mod.fn(fn_named(mod, 'igris_verif_rt_cstr'))
        st = mod.structs.get('class.gstuff_autorecv')
        if st is None:
            raise AnalysisBroken('class gstuff_autorecv not found (anchor vanished)')
        self.recv_size = st['size']
        self.recv_name = self.newchar.qualname
        self.CONTINUE, self.NEWPACKAGE, self.OVERFLOW = status_codes(mod, 'igris_verif_rt_status')
        self.alphabets = []
        offs = None
        ex = {}
        for fname, label in (('igris_verif_rt_ctx_default', 'v1'), ('igris_verif_rt_ctx_v0', 'v0')):
            vals, offs, src = read_ctx(mod, fname)
            A = Alphabet(label, vals, source=src)
            self.alphabets.append(A)
            if A.consistent():
                ex.setdefault(A.S != A.P, A)
        self.alphabets += symbolic_alphabets(ex)
        self.ctx_offs = offs

    def where(self, f):
        return '%s:%d' % (f.file, f.line)

    def status_name(self, x):
        return {self.CONTINUE: 'CONTINUE', self.NEWPACKAGE: 'NEWPACKAGE', self.OVERFLOW: 'OVERFLOW'}.get(x) or STATUS.get(x, str(x))

    def interp(self, A):
        return RtInterp(self.mod, A.markers())

    def ctx_obj(self, st, A):
        o = st.new_obj('param', Lin(6), 'ctx', {'desc': 'gstuff_context (%s)' % A.label})
        for k in FIELDS:
            st.mem[(o.id, self.ctx_offs[k], 1)] = val8(A.v[k])
        return o

    def encoders(self):
        return [('gstuffing_v', self.enc_v, (1, 2, 3)), ('gstuffing', self.enc_b, (0,))]

    def encode(self, it, st, which, f, A, pieces, n, out):
        """pieces: list of (object, length)"""
        ctx = self.ctx_obj(st, A)
        if which == 'gstuffing_v':
            v = st.new_obj('param', Lin(16 * len(pieces)), 'vec', {'desc': 'iovec array (%d elements)' % len(pieces)})
            for j, (po, ln) in enumerate(pieces):
                st.mem[(v.id, 16 * j, 8)] = PtrVal(po.id, Lin(0))
                st.mem[(v.id, 16 * j + 8, 8)] = mk_const(64, ln)
            args = [PtrVal(v.id), mk_const(64, len(pieces)), PtrVal(out.id), PtrVal(ctx.id)]
        else:
            (po, ln), = pieces
            args = [PtrVal(po.id), mk_const(64, ln), PtrVal(out.id), PtrVal(ctx.id)]
        return it.call(f, st, args)

    # ---- receiver ----------------------------------------------------------------------------------------------------
    def recv_start(self, it, st, A, cap):
        """[states], receiver object, buffer object - after construction and init(buf, cap)"""
        r = st.new_obj('param', Lin(self.recv_size), 'recv', {'desc': 'gstuff_autorecv object'})
        b = st.new_obj('param', Lin(cap), 'rxbuf', {'desc': 'receive buffer'})
        ctx = self.ctx_obj(st, A)
        out = []
        for (s1, _) in it.call(self.make, st, [PtrVal(r.id), PtrVal(ctx.id)]):
            for (s2, _) in it.call(self.init, s1, [PtrVal(r.id), PtrVal(b.id), mk_const(32, cap)]):
                out.append(s2)
        return out, r, b

    def recv_char(self, it, st, r, c):
        return it.call(self.newchar, st, [PtrVal(r.id), c])

    def recv_result(self, it, st, r, b, n):
        """-> list of (state, size, [byte values 0..n], line is the buffer handed in)"""
        res = []
        for (s1, rv) in it.call(self.size, st, [PtrVal(r.id)]):
            sz = rv.const() if isinstance(rv, IntVal) else None
            for (s2, pv) in it.call(self.cstr, s1, [PtrVal(r.id)]):
                if not isinstance(pv, PtrVal) or pv.is_null or not pv.off.is_const():
                    raise Unresolved('cstr() does not return a pointer to a known position')
                line = [byte_cell(s2, pv.obj, pv.off.c + i, 'cstr()[%d]' % i) for i in range(n + 1)]
                res.append((s2, sz, line, pv.obj == b.id and pv.off.c == 0))
        return res


class LegacyCodec(Codec):
    """the legacy C codec (one module: witness/w_c04_roundtrip_v1.c)"""
    legacy = True
    name = 'gstuff_v1'

    def __init__(self, repo):
        self.mod = mod = witness('w_c04_roundtrip_v1.c', repo)
        self.enc = mod.fn(fn_named(mod, 'gstuffing_v1'))
        self.setbuf = mod.fn(fn_named(mod, 'gstuff_autorecv_setbuf_v1'))
        self.newchar = mod.fn(fn_named(mod, 'gstuff_autorecv_newchar_v1'))
        if len(self.enc.params) != 3 or len(self.newchar.params) != 2 or len(self.setbuf.params) != 3:
            raise AnalysisBroken('legacy gstuff API changed its parameter lists')
        st = mod.structs.get('struct.gstuff_autorecv_v1')
        if st is None:
            raise AnalysisBroken('struct gstuff_autorecv_v1 not found (anchor vanished)')
        self.recv_size = st['size']
        self.fields = {m['name']: m for m in mod.flat_fields('struct.gstuff_autorecv_v1')}
        for k in ('line.buf', 'line.len', 'state', 'crc'):
            if k not in self.fields:
                raise AnalysisBroken('struct gstuff_autorecv_v1 has no field %s (anchor vanished)' % k)
        self.recv_name = 'gstuff_autorecv_newchar_v1'
        self.CONTINUE, self.NEWPACKAGE, self.OVERFLOW = status_codes(mod, 'igris_verif_rt_v1_status')
        g = mod.globals.get('igris_verif_rt_v1_alphabet')
        init = g.get('init') if g else None
        if not (isinstance(init, list) and len(init) == 4 and all(isinstance(x, int) for x in init)):
            raise AnalysisBroken('witness w_c04_roundtrip_v1.c: alphabet table not found')
        S, B, cS, cB = init
        self.alphabets = [Alphabet('legacy', dict(GSTUFF_START=S, GSTUFF_STOP=S, GSTUFF_STUB=B, GSTUFF_STUB_START=cS,
                                                  GSTUFF_STUB_STOP=cS, GSTUFF_STUB_STUB=cB),
                                   source='macros of igris/protocols/gstuff_v1/gstuff.h')]

    def encoders(self):
        return [('gstuffing_v1', self.enc, (0,))]

    def encode(self, it, st, which, f, A, pieces, n, out):
        (po, ln), = pieces
        return it.call(f, st, [PtrVal(po.id), mk_const(32, ln), PtrVal(out.id)])

    def recv_start(self, it, st, A, cap):
        r = st.new_obj('param', Lin(self.recv_size), 'recv', {'desc': 'struct gstuff_autorecv_v1 (zero-initialised)'})
        b = st.new_obj('param', Lin(cap), 'rxbuf', {'desc': 'receive buffer'})
        for m in self.fields.values():
            st.mem[(r.id, m['off'], m['size'])] = NULL if m['ty']['k'] == 'ptr' else mk_const(m['ty']['bits'], 0)
        out = [s for (s, _) in it.call(self.setbuf, st, [PtrVal(r.id), PtrVal(b.id), mk_const(32, cap)])]
        return out, r, b

    def recv_result(self, it, st, r, b, n):
        # no accessor in the legacy API: the caller reads the line; the CRC byte stays in it, the packet is line[0 .. len-1)
        m = self.fields['line.len']
        v = st.mem.get((r.id, m['off'], m['size']))
        ln = v.const() if isinstance(v, IntVal) else None
        m = self.fields['line.buf']
        pv = st.mem.get((r.id, m['off'], m['size']))
        if not isinstance(pv, PtrVal) or pv.is_null or not pv.off.is_const():
            raise Unresolved('line.buf is not a pointer to a known position')
        line = [byte_cell(st, pv.obj, pv.off.c + i, 'line.buf[%d]' % i) for i in range(n)] + [mk_const(8, 0)]
        return [(st, None if ln is None else ln - 1, line, pv.obj == b.id and pv.off.c == 0)]


# ----------------------------------------------------------------------------------------------------------------------
# scenarios
# ----------------------------------------------------------------------------------------------------------------------
def payload_values(st, A, classes):
    vals = []
    for i, c in enumerate(classes):
        if c == 'other':
            x = Lin.sym(State.fresh_name('P.%d' % i))
            st.cons.add_le(-128, x)
            st.cons.add_le(x, 127)
            for m in A.markers():
                st.add_diseq(x, m)
            vals.append(IntVal(8, None, x))
        else:
            vals.append(val8(A.marker(c)))
    return vals


def crc_of(it, T, vals):
    a = Lin(-1)                     # seed 0xFF (C04 R-FRAME crc-seed decides it for the encoders, C05 for the receivers)
    for v in vals:
        a = T.force_s(it.crc_apply(T, a, T.force_s(v)))
    return a


def crc_class(it, T, A, crc):
    """class of the CRC byte on this path, or the list of marker classes the path leaves open"""
    c = it.canon(T, crc)
    for cls in A.classes[:-1]:
        if c == A.marker(cls):
            return cls, []
    maybe = [cls for cls in A.classes[:-1] if not differs(it, T, c, A.marker(cls))]
    return ('other', []) if not maybe else (None, maybe)


def unescape(it, T, A, frame):
    """reference reading of a frame with the alphabet alone -> (decoded body as s-forms or None, problems by clause)"""
    S, P, B = A.S, A.P, A.B
    prob = {}
    if not same(it, T, frame[0], S):
        prob['starts-with-START'] = 'byte 0 of the frame is %s, not the start marker' % show(frame[0])
    if len(frame) < 2 or not same(it, T, frame[-1], P):
        prob['ends-with-STOP'] = 'the last byte of the frame (byte %d) is %s, not the stop marker' % (len(frame) - 1, show(frame[-1]))
    body = frame[1:-1]
    out = []
    i = 0
    while i < len(body):
        b = body[i]
        if same(it, T, b, B):
            code = body[i + 1] if i + 1 < len(body) else None
            dec = None
            for (cv, mv) in ((A.cS, S), (A.cP, P), (A.cB, B)):
                if code is not None and same(it, T, code, cv):
                    dec = mv
                    break
            if dec is None:
                prob.setdefault('no-unescaped-marker-inside',
                                'byte %d of the frame is STUB and is followed by %s, which is no escape code'
                                % (i + 1, 'the closing marker' if code is None else show(code)))
                out.append(None)
            else:
                out.append(dec)
            i += 2
        else:
            if not all(differs(it, T, b, m) for m in (S, P, B)):
                prob.setdefault('no-unescaped-marker-inside',
                                'byte %d of the frame (%s) may equal a marker and is not escaped' % (i + 1, show(b)))
            out.append(b)
            i += 1
    return out, prob


def spec_frame(A, vals, crc, crc_cls):
    """the well-formed frame of a payload, written down from the alphabet (receiver-only scenarios)"""
    fr = [val8(A.S)]
    for v in vals:
        cls = None
        for k in A.classes[:-1]:
            if v.s == A.marker(k):
                cls = k
        fr += [val8(A.B), val8(A.code(cls))] if cls else [v]
    fr += [val8(A.B), val8(A.code(crc_cls))] if crc_cls != 'other' else [IntVal(8, None, crc)]
    return fr + [val8(A.P)]


def frame_text(frame):
    return 'frame {%s}' % ' '.join(show(x.s) for x in frame)


def pins(it, T, A):
    """symbolic alphabet: the marker values this path assumes"""
    if not A.symbolic:
        return ''
    m = it.eqmap(T)
    out = ['%s == %s' % (show(k), show(m[k])) for k in (A.S, A.P, A.B, A.cS, A.cP, A.cB) if k in m and m[k].is_const()]
    return ' (alphabet with %s)' % ', '.join(sorted(set(out))) if out else ''


class Scenario:
    """all runs of one codec / alphabet / payload length / class combination"""

    def __init__(self, codec, A, classes, bk):
        self.codec, self.A, self.classes, self.bk = codec, A, tuple(classes), bk
        self.n = len(classes)
        self.base = State()
        A.assume(self.base)
        self.vals = payload_values(self.base, A, classes)
        self.decoded = {}           # frame key -> True once the receiver clauses were evaluated for that frame

    def key(self, *parts):
        return ':'.join([self.A.label, 'n=%d' % self.n] + [p for p in parts if p])

    def frames(self, which, f, split):
        """interpret the encoder; evaluate the frame clauses; return (state, frame, crc class) of the frames that passed"""
        c, A, n, bk = self.codec, self.A, self.n, self.bk
        st = self.base.fork()
        it = c.interp(A)
        pieces = []
        pos = 0
        for j, ln in enumerate(split or (n,)):
            po = st.new_obj('param', Lin(ln), 'piece%d' % j, {'desc': 'payload piece %d (%d bytes)' % (j, ln)})
            for k in range(ln):
                st.mem[(po.id, k, 1)] = self.vals[pos + k]
            pieces.append((po, ln))
            pos += ln
        out = st.new_obj('param', Lin(2 * n + 4), 'out', {'desc': 'output buffer of 2n+4 = %d bytes' % (2 * n + 4)})
        kp = 'pieces=%d' % len(split) if split else ''
        fname, where = which, c.where(f)
        R = RULE + ':frame'
        K = lambda clause: self.key(kp, clause)
        SIZE = 'length<=2n+4-and-every-store-inside-the-buffer'
        BODY = 'unescaped-body==payload.crc8(payload)'
        it.watch = out.id
        rets = c.encode(it, st, which, f, A, pieces, n, out)
        bk.paths += len(rets)
        for e in it.events:
            # the class of the CRC byte on the path that left the buffer (as far as that path had decided it)
            ccls, maybe = crc_class(it, e['st'], A, crc_of(it, e['st'], self.vals))
            cands = [ccls] if ccls is not None else maybe + ['other']
            cands = [x for x in cands if describe(A, self.classes, x, split)[1]]
            if not cands:
                continue
            text, real = describe(A, self.classes, cands[0], split)
            bk.note(R, fname, K(SIZE), False, e['where'], '%s in %s (called from %s): %s%s' % (
                e['what'], e['fn'], which, text, pins(it, e['st'], A)))
        if not rets and not it.events:
            raise Unresolved('%s: no return reached' % which)
        # complete the case split on the class of the CRC byte where the encoder's own comparisons left it open
        cases = []
        for (T, rv) in rets:
            crc = crc_of(it, T, self.vals)
            ccls, maybe = crc_class(it, T, A, crc)
            if ccls is not None:
                cases.append((T, rv, crc, ccls))
                continue
            rest = T
            for cls in maybe:
                T2 = rest.fork()
                T2.cons.add_eq(crc, A.marker(cls))
                rest.add_diseq(crc, A.marker(cls))
                cases.append((T2, rv, crc, cls))
            cases.append((rest, rv, crc, 'other'))
        good = []
        for (T, rv, crc, ccls) in cases:
            r = rv.sconst() if isinstance(rv, IntVal) else None
            if r is None:
                raise Unresolved('%s: the returned length is not a constant on a concrete input' % which)
            text, real = describe(A, self.classes, ccls, split)
            if not real:
                continue                      # no payload of this shape has a CRC of that class
            okl = 2 <= r <= 2 * n + 4
            bk.note(R, fname, K(SIZE), okl, where,
                    None if okl else '%s returns %d for a payload of %d byte(s) (limit %d): %s' % (which, r, n, 2 * n + 4, text))
            if not okl:
                continue
            frame = []
            for i in range(r):
                v = byte_cell(T, out.id, i, 'byte %d of the output buffer' % i)
                if v is None:
                    frame = None
                    bk.note(R, fname, K(BODY), False, where,
                            'byte %d of the %d byte(s) %s reports is never written: %s' % (i, r, which, text))
                    break
                frame.append(IntVal(8, None, sform(T, v, 'byte %d of the frame' % i)))
            if frame is None:
                continue
            by = sorted({T.ghost.get('w%d' % i, '?') for i in range(r)})
            text = '%s: %s%s [frame bytes stored by %s]' % (frame_text(frame), text, pins(it, T, A), ', '.join(by))
            body, prob = unescape(it, T, A, [x.s for x in frame])
            for clause in ('starts-with-START', 'ends-with-STOP', 'no-unescaped-marker-inside'):
                bk.note(R, fname, K(clause), clause not in prob, where,
                        None if clause not in prob else '%s; %s' % (prob[clause], text))
            want = [T.force_s(v) for v in self.vals] + [crc]
            bad = None
            if len(body) != len(want):
                bad = 'the frame carries %d unescaped byte(s), payload and CRC are %d' % (len(body), len(want))
            else:
                for i, (g, w) in enumerate(zip(body, want)):
                    if g is None or not same(it, T, g, w):
                        what = 'the CRC-8 of the payload' if i == n else 'payload byte %d' % i
                        bad = 'unescaped byte %d of the frame is %s, it must be %s (%s)' % (
                            i, '<invalid escape>' if g is None else show(g), show(w), what)
                        break
            bk.note(R, fname, K(BODY), bad is None, where, None if bad is None else '%s; %s' % (bad, text))
            if bad is None and not prob:
                good.append((T, frame, ccls))
        return good

    def decode(self, T, frame, ccls, cap=None, expect_overflow=False):
        """feed the frame to the receiver in state T; evaluate the receiver clauses.  expect_overflow: 1 = the content is one
        byte longer than the buffer can hold, 2 = two bytes longer"""
        c, A, n, bk = self.codec, self.A, self.n, self.bk
        fk = tuple(x.s.key() for x in frame) + (cap, expect_overflow)
        if fk in self.decoded:
            return
        self.decoded[fk] = True
        it = c.interp(A)
        fname, where = c.recv_name, c.where(c.newchar)
        text, real = describe(A, self.classes, ccls)
        text = '%s: %s%s' % (frame_text(frame), text, pins(it, T, A))
        cap = cap if cap is not None else n + 2
        if expect_overflow == 2:
            R = RULE + ':overlong'
            K = lambda clause: ':'.join([A.label, 'content-two-bytes-too-long', clause])
        elif expect_overflow:
            R = RULE + ':overflow'
            K = lambda clause: ':'.join([A.label, 'capacity=%d' % cap, clause])
        else:
            R = RULE + ':decode'
            K = lambda clause: self.key(clause)
        states, r, b = c.recv_start(it, T.fork(), A, cap)
        cur = [(s, []) for s in states]
        for i, byte in enumerate(frame):
            nxt = []
            for (s, hist) in cur:
                for (s2, rv) in c.recv_char(it, s, r, byte):
                    code = rv.sconst() if isinstance(rv, IntVal) else None
                    if code is None:
                        raise Unresolved('%s returns a value that is not a constant for byte %d of a concrete frame' % (fname, i))
                    nxt.append((s2, hist + [code]))
            cur = nxt
            if len(cur) > 2048:
                raise Unresolved('%s: more than 2048 paths through the receiver for one frame' % fname)
        bk.paths += len(cur)
        inside = 'no-access-outside-the-receive-buffer'
        ran = lambda i_: ' [receiver code on this path: %s]' % ', '.join(i_.path_functions())

        def outside(i_):
            for e in i_.events:
                bk.note(R, fname, K(inside), False, e['where'],
                        '%s in %s (called from %s, buffer of %d bytes): %s' % (e['what'], e['fn'], e['root'], cap, text))
        outside(it)
        if not cur and not it.events:
            raise Unresolved('%s: no return reached' % fname)
        for (s, hist) in cur:
            names = [c.status_name(x) for x in hist]
            sts = 'statuses %s' % ' '.join(names)
            if expect_overflow:
                # content bytes in frame order: which frame byte completes the content byte that does not fit?
                pos, cnt, k = None, 0, 1
                while k < len(frame) - 1:
                    last = k + 1 if same(it, s, frame[k].s, A.B) else k
                    cnt += 1
                    if cnt == cap:
                        pos = last
                        break
                    k = last + 1
                if pos is None:
                    raise Unresolved('overflow scenario: the frame has fewer than %d content bytes' % cap)
                ok1 = hist[pos] == c.OVERFLOW and all(x == c.CONTINUE for x in hist[:pos])
                bk.note(R, fname, K('the-byte-that-does-not-fit-returns-OVERFLOW'), ok1, where,
                        None if ok1 else 'receive buffer of %d bytes (%d usable), byte %d of the frame completes content byte %d: '
                        '%s; %s%s' % (cap, cap - 1, pos, cap, sts, text, ran(it)))
                ok2 = c.NEWPACKAGE not in hist
                t2 = text
                if not ok2 and expect_overflow == 2 and not A.symbolic:
                    # the path assumes f(0xFF, crc) == 0 for the uninterpreted CRC step; it is reported only with a payload for
                    # which the CRC-8 really behaves so (the rest of the frame, the CRC byte alone, then is a frame of its own)
                    bs = payload_with_crc(A, self.classes, 0xff) if ccls == 'other' and crc8_ref([0xff]) == 0 else None
                    if bs is None:
                        continue
                    t2 = '%s: payload {%s} (CRC-8 FF): after the OVERFLOW the receiver takes the rest of the frame, {FF %02X}, for a ' \
                         'frame of its own (CRC-8 of FF is 0) and delivers an empty packet that nobody sent' % (
                             frame_text(frame), ' '.join('%02X' % b for b in bs), A.P.c & 0xff)
                bk.note(R, fname, K('nothing-is-delivered'), ok2, where,
                        None if ok2 else 'receive buffer of %d bytes, content of %d bytes: NEWPACKAGE is returned for byte %d; '
                        '%s; %s%s' % (cap, cap + expect_overflow - 1, hist.index(c.NEWPACKAGE), sts, t2, ran(it)))
                bk.note(R, fname, K(inside), True, where)
                continue
            flags = [x == c.CONTINUE for x in hist[:-1]]
            ok1 = all(flags)
            bk.note(R, fname, K('every-byte-but-the-last-returns-CONTINUE'), ok1, where,
                    None if ok1 else 'byte %d of %d returns %s; %s; %s%s' % (flags.index(False), len(hist), names[flags.index(False)],
                                                                            sts, text, ran(it)))
            ok2 = hist[-1] == c.NEWPACKAGE
            bk.note(R, fname, K('the-last-byte-returns-NEWPACKAGE'), ok2, where,
                    None if ok2 else 'the closing byte returns %s; %s; %s%s' % (names[-1], sts, text, ran(it)))
            bk.note(R, fname, K(inside), True, where)
            if not (ok1 and ok2):
                continue
            it2 = c.interp(A)
            for (s2, sz, line, inbuf) in c.recv_result(it2, s, r, b, n):
                what = 'line.len - 1' if c.legacy else 'size()'
                ok3 = sz == n
                bk.note(R, fname, K('size()==n'), ok3, where,
                        None if ok3 else '%s is %s after a payload of %d byte(s); %s%s' % (what, sz, n, text, ran(it)))
                bad = None
                if not inbuf:
                    bad = 'the line returned is not the receive buffer handed to the receiver'
                for i in range(n + 1):
                    if bad:
                        break
                    v = line[i]
                    want = s.force_s(self.vals[i]) if i < n else Lin(0)
                    if v is None:
                        bad = 'line[%d] was never written' % i
                    elif not same(it2, s2, sform(s2, v, 'line[%d]' % i), want):
                        bad = 'line[%d] is %s, it must be %s' % (i, show(sform(s2, v, 'line[%d]' % i)),
                                                                 show(want) + (' (payload byte %d)' % i if i < n else ' (terminator)'))
                bk.note(R, fname, K('content==payload'), bad is None, where,
                        None if bad is None else '%s; %s%s' % (bad, text, ran(it)))
            outside(it2)

    def run(self, max_pieces=3):
        c = self.codec
        for (which, f, ks) in c.encoders():
            for k in ks:
                if k > max_pieces:
                    continue
                for split in (compositions(self.n, k) if k else [None]):
                    for (T, frame, ccls) in self.frames(which, f, split):
                        self.decode(T, frame, ccls)

    def overflow(self, cap):
        """receiver alone: the well-formed frame of this payload and a buffer of cap bytes; content = n + 1 bytes is one (n == cap - 1)
        or two (n == cap) bytes more than the cap - 1 the buffer can hold"""
        c, A = self.codec, self.A
        over = self.n + 1 - (cap - 1)
        it0 = c.interp(A)
        fixed, _ = crc_class(it0, self.base, A, crc_of(it0, self.base.fork(), self.vals))
        for ccls in A.classes:
            if concretise(A, self.classes, ccls) is None and not A.symbolic:
                continue
            T = self.base.fork()
            it = c.interp(A)
            crc = crc_of(it, T, self.vals)
            if crc.is_const() or fixed is not None:
                # the CRC term is pinned by the payload itself (a payload byte equal to the seed): only its own class exists
                if ccls != (fixed or 'other'):
                    continue
            elif ccls == 'other':
                for m in A.markers():
                    T.add_diseq(crc, m)
            else:
                T.cons.add_eq(crc, A.marker(ccls))
            self.decode(T, spec_frame(A, self.vals, crc, ccls), ccls, cap=cap, expect_overflow=over)


# ----------------------------------------------------------------------------------------------------------------------
# driver
# ----------------------------------------------------------------------------------------------------------------------
_CODECS = {}


def _task(t):
    kind, cname, ai, classes, arg = t
    c = _CODECS[cname]
    A = c.alphabets[ai]
    bk = Book()
    try:
        sc = Scenario(c, A, classes, bk)
        if kind == 'rt':
            sc.run(max_pieces=arg)
        else:
            sc.overflow(arg)
    except (Unresolved, AnalysisBroken) as e:
        bk.unresolved.append('%s %s payload classes [%s]: %s' % (cname, A.label, ', '.join(classes), e))
    return bk


def limits(tier, A):
    """(largest payload length, largest payload length analysed with every 3-piece split)"""
    if tier == 'thorough':
        return (5, 4) if not A.symbolic else (4, 3)
    return (3, 3) if not A.symbolic else (2, 2)


def plan(codecs, tier):
    tasks = []
    for cname, c in codecs.items():
        for ai, A in enumerate(c.alphabets):
            nmax, n3 = limits(tier, A)
            for n in range(nmax + 1):
                for classes in itertools.product(A.classes, repeat=n):
                    tasks.append(('rt', cname, ai, classes, 3 if n <= n3 else 2))
            for cap in range(2, 6):
                for n in (cap - 1, cap):
                    if n == cap and (not OVERLONG or cap > (5 if tier == 'thorough' else 3)):
                        continue
                    for classes in itertools.product(A.classes, repeat=n):
                        if (tier != 'thorough' or A.symbolic) and n > 2 and any(x != 'other' for x in classes[:n - 2]):
                            continue
                        tasks.append(('ov', cname, ai, classes, cap))
    # long tasks first
    tasks.sort(key=lambda t: -len(t[3]))
    return tasks


def run_ext(rep, repo, tier):
    t0 = time.time()
    codecs = {c.name: c for c in (Codec(repo), LegacyCodec(repo))}
    rep.units += ['witness/w_c04_roundtrip.cpp -> igris/protocols/gstuff.cpp + gstuff.h (encoders, receiver, alphabets)',
                  'witness/w_c04_roundtrip_v1.c -> igris/protocols/gstuff_v1/gstuff.c + autorecv.c']
    _CODECS.clear()
    _CODECS.update(codecs)
    for cname, c in codecs.items():
        for A in c.alphabets:
            # R-ALPHABET (c04.py) decides this for the shipped contexts; repeated here because a round trip over an ambiguous
            # alphabet has no reference reading
            ok = A.consistent()
            if not A.symbolic:
                rep.inst(RULE + ':alphabet', A.source or A.label, '%s:escape-codes-differ-from-markers-and-from-each-other' % A.label, ok,
                         c.where(c.newchar), None if ok else 'the %s produced by %s is ambiguous: %s' % (
                             A.describe(), A.source, {k: show(v) for k, v in A.v.items()}))
    for c in codecs.values():
        c.alphabets_run = [A for A in c.alphabets if A.consistent()]
    tasks = [t for t in plan(codecs, tier) if codecs[t[1]].alphabets[t[2]].consistent()]
    book = Book()
    workers = min(16, os.cpu_count() or 2, max(1, len(tasks) // 8))
    done = False
    if workers > 1 and not multiprocessing.current_process().daemon:
        try:
            with multiprocessing.get_context('fork').Pool(workers) as pool:
                for bk in pool.imap_unordered(_task, tasks, chunksize=2):
                    book.merge(bk)
            done = True
        except OSError:
            book = Book()           # no processes to be had: run the scenarios here
    if not done:
        for t in tasks:
            book.merge(_task(t))
    for (rule, fn, key), r in sorted(book.inst.items()):
        rep.inst(rule, fn, key, r['ok'], r['where'], r['detail'], fact={'scenarios': r['n']})
    per = {}
    for u in book.unresolved:
        per.setdefault(u.split(' payload classes')[0], []).append(u)
    for cname, c in codecs.items():
        for A in c.alphabets_run:
            tag = '%s %s' % (cname, A.label)
            if tag in per:
                rep.defer_broken('c04_roundtrip: %d scenario(s) of %s could not be analysed exactly, e.g. %s' % (len(per[tag]), tag, per[tag][0]))
            else:
                rep.inst(RULE + ':analysed', c.recv_name, '%s:every-scenario-analysed-exactly' % A.label, True, c.where(c.newchar),
                         fact={'tier': tier})
    rep.extra['c04_roundtrip'] = {'scenarios': len(tasks), 'paths': book.paths, 'unresolved': book.unresolved[:20],
                                  'wall_s': round(time.time() - t0, 2), 'crc_axiom': AXIOM}
    nq = limits(tier, codecs['gstuff'].alphabets[0])[0]
    ns = limits(tier, codecs['gstuff'].alphabets[2])[0]
    rep.explanation += (
        ' Round trip, mechanised (c04_roundtrip): for payload lengths 0..%d with one symbol per byte, every combination of byte '
        'classes (== START / == STOP / == STUB / other) of the two shipped alphabets and of the legacy alphabet (lengths 0..%d: of '
        'EVERY consistent alphabet, marker values symbolic, START != STOP and START == STOP), every split into 1..3 iovec pieces '
        '(empty pieces included), the encoder is interpreted on concrete bounds, the frame is read back symbol by symbol, interpreted '
        'with the alphabet alone (frame clauses), and fed byte by byte to the receiver (constructor, init with n+2 bytes, newchar, '
        'size(), cstr()): CONTINUE for every byte but the last, NEWPACKAGE for the last, size() == n, content == payload, no access '
        'outside the buffers; receive buffers of 2..5 bytes and a frame whose content is one byte too long: OVERFLOW, nothing '
        'delivered. The CRC-8 step is an uninterpreted function with the single axiom %s; the class of the CRC byte is split as well. '
        'Not decided here: payloads longer than %d bytes (the per-transition clauses of R-FRAME / R-DECODE cover every length), what '
        'the receivers do with the rest of a frame that is more than one byte too long.' % (nq, ns, AXIOM, nq))
    rep.assumptions += ['igris_strmcrc8 is an uninterpreted function of (register, byte) with the axiom ' + AXIOM,
                        'the legacy receiver struct is zero-initialised before gstuff_autorecv_setbuf_v1 (it has no constructor); '
                        'its packet is line[0 .. len-1), the CRC byte stays in the line',
                        'symbolic alphabets satisfy the consistency conditions of R-ALPHABET (markers and escape codes pairwise '
                        'different, except START/STOP and their codes, which differ or coincide together)']
    # floors: 5 clauses per key; keys follow the plan (alphabet x length x piece counts + gstuffing; legacy x length)
    fk = dk = 0
    for c in codecs.values():
        for A in c.alphabets_run:
            nmax, n3 = limits(tier, A)
            dk += nmax + 1
            for n in range(nmax + 1):
                fk += 1 if c.legacy else (3 if n <= n3 else 2) + 1
    na = sum(len(c.alphabets_run) for c in codecs.values())
    rep.floor(RULE + ':frame', 5 * fk)
    rep.floor(RULE + ':decode', 5 * dk)
    rep.floor(RULE + ':overflow', 3 * 4 * na)
    if OVERLONG:
        rep.floor(RULE + ':overlong', 3 * na)
    rep.floor(RULE + ':analysed', na)
    rep.floor(RULE + ':alphabet', 3)
