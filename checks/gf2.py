"""Bit-level linear (GF(2)-affine) abstract domain: every bit of an integer is
an XOR of input-bit symbols and the constant 1.  Used to compute the exact
transformer of CRC-style update steps (shift / xor / mask / select-by-bit /
linear table lookup) for ALL inputs at once and to compare it with the
transformer generated from the mathematical definition (polynomial, bit
order).  Nonlinear constructs are rejected (AnalysisBroken), never guessed."""
from irlib import AnalysisBroken

ONE = '1'


class BV:
    __slots__ = ('w', 'bits')

    def __init__(self, w, bits=None):
        self.w = w
        self.bits = bits if bits is not None else [frozenset()] * w

    @staticmethod
    def const(w, v):
        return BV(w, [frozenset([ONE]) if (v >> i) & 1 else frozenset() for i in range(w)])

    @staticmethod
    def sym(w, name):
        return BV(w, [frozenset(['%s%d' % (name, i)]) for i in range(w)])

    def concrete(self):
        v = 0
        for i, b in enumerate(self.bits):
            if not b:
                continue
            if b == frozenset([ONE]):
                v |= 1 << i
            else:
                return None
        return v

    def xor(self, o):
        return BV(self.w, [a ^ b for a, b in zip(self.bits, o.bits)])

    def shl(self, k):
        return BV(self.w, ([frozenset()] * k + self.bits)[:self.w])

    def lshr(self, k):
        return BV(self.w, (self.bits[k:] + [frozenset()] * k)[:self.w])

    def ashr(self, k):
        return BV(self.w, (self.bits[k:] + [self.bits[-1]] * k)[:self.w])

    def zext(self, w):
        return BV(w, self.bits + [frozenset()] * (w - self.w))

    def sext(self, w):
        return BV(w, self.bits + [self.bits[-1]] * (w - self.w))

    def trunc(self, w):
        return BV(w, self.bits[:w])

    def and_const(self, m):
        return BV(self.w, [b if (m >> i) & 1 else frozenset() for i, b in enumerate(self.bits)])

    def scale(self, bit):
        """bit * self where self is a constant vector, bit a linear form"""
        c = self.concrete()
        if c is None:
            return None
        return BV(self.w, [bit if (c >> i) & 1 else frozenset() for i in range(self.w)])

    def syms(self):
        s = set()
        for b in self.bits:
            s |= b
        return s

    def __eq__(self, o):
        return isinstance(o, BV) and self.w == o.w and self.bits == o.bits

    def show(self):
        return [('^'.join(sorted(b)) or '0') for b in self.bits]


def crc_step_ref(state, data, poly, width, reflected, nbits=8):
    """transformer of one CRC update over GF(2) forms, straight from the
    bit-serial definition: for every data bit, feedback = (bit shifted out of
    the register) XOR (data bit); shift; XOR the polynomial where feedback"""
    x = state
    P = BV.const(width, poly)
    for k in range(nbits):
        if reflected:
            fb = x.bits[0] ^ data.bits[k]
            x = x.lshr(1).xor(P.scale(fb))
        else:
            fb = x.bits[width - 1] ^ data.bits[nbits - 1 - k]
            x = x.shl(1).xor(P.scale(fb))
    return x


class BlockEval:
    """forward evaluation of a straight-line region (a list of blocks executed
    in sequence without symbolic branching) in the GF(2) domain"""

    def __init__(self, fn, mod):
        self.fn = fn
        self.mod = mod
        self.env = {}
        self.mem = {}       # address key -> BV
        self.nsym = 0
        self.symof = {}     # description -> symbol prefix
        self.loads = []
        self.override = {}   # inst id -> BV (assumed value shapes, e.g. sextets)

    def fresh(self, w, why):
        self.nsym += 1
        name = '%s.' % why
        self.symof[why] = name
        return BV.sym(w, name)

    def addr_key(self, v):
        # syntactic address identity (same SSA value / same constant GEP chain)
        if v.k in ('inst', 'arg', 'global'):
            return v.key()
        return None

    def val(self, v, w=None):
        if v.k == 'ci':
            return BV.const(v.width, v.uval)
        if v.k in ('inst', 'arg'):
            r = self.env.get(v.key())
            if r is None:
                if v.k == 'arg':
                    p = self.fn.params[v.argno]
                    if p['ty']['k'] == 'int':
                        r = self.fresh(p['ty']['bits'], 'arg:' + p['name'])
                    else:
                        r = ('ptr', v.key())
                else:
                    ins = self.fn.insts[v.id]
                    if ins.ty.get('k') == 'int':
                        r = self.fresh(ins.ty['bits'], '%s:%s' % (ins.op, ins.name or ins.id))
                    else:
                        r = ('ptr', v.key())
                self.env[v.key()] = r
            return r
        if v.k == 'global':
            return ('global', v.name)
        if v.k == 'undef':
            return BV.const(w or 8, 0)
        return ('other', v.k)

    def run_block(self, b):
        for i in b.insts:
            if i.op in ('dbg', 'phi', 'br', 'ret', 'switch', 'unreachable'):
                continue
            self.step(i)

    def step(self, i):
        op = i.op
        key = ('i', i.id)
        if i.id in self.override:
            self.env[key] = self.override[i.id]
            return
        if op in ('udiv', 'urem') and all(isinstance(self.val(o), BV) and self.val(o).concrete() is not None
                                            for o in i.ops):
            ca, cb = self.val(i.ops[0]).concrete(), self.val(i.ops[1]).concrete()
            if cb:
                self.env[key] = BV.const(i.bits, ca // cb if op == 'udiv' else ca % cb)
                return
        if op in ('xor', 'and', 'or', 'shl', 'lshr', 'ashr', 'add', 'sub', 'mul'):
            a = self.val(i.ops[0])
            b = self.val(i.ops[1])
            if not isinstance(a, BV) or not isinstance(b, BV):
                self.env[key] = self.fresh(i.bits, 'op:%s' % (i.name or i.id))
                return
            ca, cb = a.concrete(), b.concrete()
            w = i.bits
            if ca is not None and cb is not None:
                M = (1 << w) - 1
                r = {'xor': ca ^ cb, 'and': ca & cb, 'or': ca | cb, 'shl': (ca << cb) & M if cb < w else 0,
                     'lshr': ca >> cb if cb < w else 0, 'add': (ca + cb) & M, 'sub': (ca - cb) & M,
                     'mul': (ca * cb) & M}.get(op)
                if op == 'ashr':
                    sa = ca - (1 << w) if ca >> (w - 1) else ca
                    r = (sa >> cb) & M if cb < w else None
                if r is not None:
                    self.env[key] = BV.const(w, r)
                    return
            if op == 'xor':
                self.env[key] = a.xor(b)
            elif op == 'and':
                if cb is not None:
                    self.env[key] = a.and_const(cb)
                elif ca is not None:
                    self.env[key] = b.and_const(ca)
                else:
                    self.env[key] = self.fresh(w, 'nonlinear-and:%s' % (i.name or i.id))
            elif op == 'or':
                # OR of values with disjoint supports is XOR
                if all((not x) or (not y) for x, y in zip(a.bits, b.bits)):
                    self.env[key] = a.xor(b)
                elif cb is not None and all((not x) for j, x in enumerate(a.bits) if (cb >> j) & 1):
                    self.env[key] = a.xor(b)
                else:
                    self.env[key] = self.fresh(w, 'nonlinear-or:%s' % (i.name or i.id))
            elif op in ('shl', 'lshr', 'ashr'):
                if cb is None:
                    # not linear: opaque value (a CRC register depending on it fails the comparison)
                    self.env[key] = self.fresh(w, 'symshift:%s' % (i.name or i.id))
                    return
                self.env[key] = getattr(a, op)(cb) if cb < w else BV.const(w, 0)
            elif op == 'add' and all((not x) or (not y) for x, y in zip(a.bits, b.bits)):
                # no position where both operands can be 1: no carries, ADD == XOR
                self.env[key] = a.xor(b)
            else:
                # add/sub/mul of symbolic values: not linear over GF(2) -> opaque symbol (allowed for
                # counters/pointers; a CRC state depending on it is detected by the comparison)
                self.env[key] = self.fresh(w, 'arith:%s' % (i.name or i.id))
            return
        if op in ('zext', 'sext', 'trunc'):
            a = self.val(i.ops[0])
            if not isinstance(a, BV):
                self.env[key] = self.fresh(i.bits, 'cast:%s' % i.id)
                return
            self.env[key] = getattr(a, op)(i.bits)
            return
        if op == 'icmp':
            a = self.val(i.ops[0])
            b = self.val(i.ops[1])
            r = None
            if isinstance(a, BV) and isinstance(b, BV):
                ca, cb = a.concrete(), b.concrete()
                if ca is not None and cb is not None:
                    M = 1 << a.w
                    sa = ca - M if ca >> (a.w - 1) else ca
                    sb = cb - M if cb >> (a.w - 1) else cb
                    res = {'eq': ca == cb, 'ne': ca != cb, 'ult': ca < cb, 'ule': ca <= cb, 'ugt': ca > cb,
                           'uge': ca >= cb, 'slt': sa < sb, 'sle': sa <= sb, 'sgt': sa > sb, 'sge': sa >= sb}[i.pred]
                    r = BV.const(1, 1 if res else 0)
                elif cb == 0 and i.pred in ('ne', 'eq'):
                    nz = [x for x in a.bits if x]
                    if len(nz) == 1:
                        bit = nz[0]
                        r = BV(1, [bit if i.pred == 'ne' else bit ^ frozenset([ONE])])
            if r is None:
                r = self.fresh(1, 'cmp:%s' % (i.name or i.id))
            self.env[key] = r
            return
        if op == 'select':
            c = self.val(i.ops[0])
            a = self.val(i.ops[1])
            b = self.val(i.ops[2])
            if isinstance(c, BV) and isinstance(a, BV) and isinstance(b, BV):
                cc = c.concrete()
                if cc is not None:
                    self.env[key] = a if cc else b
                    return
                d = a.xor(b)
                sc = d.scale(c.bits[0])
                if sc is not None:
                    self.env[key] = b.xor(sc)
                    return
                ch = getattr(self, 'select_choice', None)
                if ch is not None:
                    if i.id in ch:
                        self.env[key] = a if ch[i.id] else b
                        return
                    raise NeedSplit(i)
                raise AnalysisBroken('select between values whose difference is not constant at %s' % i.where())
            self.env[key] = self.fresh(i.bits or 64, 'sel:%s' % i.id) if i.ty.get('k') == 'int' else ('ptr', key)
            return
        if op == 'load':
            p = i.ops[0]
            pv = self.val(p)
            tbl = self.table_lookup(i, p)
            if tbl is not None:
                self.env[key] = tbl
                return
            k = self.addr_key(p)
            if k is not None and k in self.mem and i.ty.get('k') == 'int' and self.mem[k].w == i.bits:
                self.env[key] = self.mem[k]
                return
            if i.ty.get('k') == 'int':
                v = self.fresh(i.bits, 'load:%s' % (i.name or i.id))
                self.loads.append((i, v))
                if k is not None:
                    self.mem[k] = v
                self.env[key] = v
            else:
                self.env[key] = ('ptr', key)
            return
        if op == 'store':
            v = self.val(i.ops[0])
            k = self.addr_key(i.ops[1])
            if isinstance(v, BV) and k is not None:
                # a store through another pointer may alias: forget everything else
                self.mem = {k: v}
            else:
                self.mem = {}
            return
        if op in ('getelementptr', 'bitcast', 'ptrtoint', 'inttoptr', 'alloca'):
            self.env[key] = ('ptr', key)
            return
        if op == 'call':
            c = i.callee or ''
            if c.startswith('llvm.dbg') or c.startswith('llvm.lifetime'):
                return
            self.mem = {}
            if i.ty.get('k') == 'int':
                self.env[key] = self.fresh(i.bits, 'call:%s' % i.id)
            return
        if i.ty.get('k') == 'int':
            self.env[key] = self.fresh(i.bits, '%s:%s' % (op, i.id))

    def table_lookup(self, i, p):
        """load T[idx] from a constant global table with a symbolic index: linear iff
        T[0] == 0 and T[a^b] == T[a]^T[b]; then T[idx] = XOR_k idx_k * T[2^k]"""
        if p.k != 'inst':
            return None
        g = self.fn.insts[p.id]
        if g.op != 'getelementptr' or g.ops[0].k != 'global':
            return None
        gl = self.mod.globals.get(g.ops[0].name)
        if gl is None or not gl.get('const') or not isinstance(gl.get('init'), list):
            return None
        tbl = gl['init']
        if not all(isinstance(x, int) for x in tbl):
            return None
        steps = g.d['gep']['steps']
        idxs = [s for s in steps if s['k'] == 'index']
        if len(idxs) != 2:
            return None
        from irlib import V
        iv = self.val(V(idxs[1]['v']))
        if not isinstance(iv, BV):
            return None
        w = i.bits
        mask = (1 << w) - 1
        tbl = [x & mask for x in tbl]
        ci = iv.concrete()
        if ci is not None:
            if ci >= len(tbl):
                raise AnalysisBroken('constant table index %d out of range at %s' % (ci, i.where()))
            return BV.const(w, tbl[ci])
        # split index into constant part + symbolic bits
        base = 0
        symbits = []
        for k, b in enumerate(iv.bits):
            if b == frozenset([ONE]):
                base |= 1 << k
            elif b:
                symbits.append((k, b))
        span = 0
        for k, b in symbits:
            span |= 1 << k
        if base & span:
            return None
        if base + span >= len(tbl):
            raise AnalysisBroken('table index may reach %d beyond the %d entries at %s' % (base + span, len(tbl), i.where()))
        # linearity of the sub-table {base ^ s : s subset of span}
        sub0 = tbl[base]
        ks = [k for k, _ in symbits]
        for s in range(1 << len(ks)):
            idx = base
            acc = sub0
            for j, k in enumerate(ks):
                if (s >> j) & 1:
                    idx |= 1 << k
                    acc ^= tbl[base | (1 << k)] ^ sub0
            if tbl[idx] != acc:
                raise TableNotAffine(g.ops[0].name, idx, i)
        r = BV.const(w, sub0)
        for k, b in symbits:
            r = r.xor(BV.const(w, tbl[base | (1 << k)] ^ sub0).scale(b))
        return r


class TableNotAffine(Exception):
    """a constant lookup table indexed by register/data bits is not GF(2)-affine in its index.  Every table of a CRC
    step is (T[i ^ j] == T[i] ^ T[j] ^ T[0], the step being linear), so this is a violation of the CRC rules, reported by
    the rule that met it, not an analysis limit"""
    def __init__(self, table, entry, inst):
        Exception.__init__(self, 'lookup table %s is not GF(2)-affine in its index at %s (entry %d)' % (table, inst.where(), entry))
        self.table, self.entry, self.inst = table, entry, inst

    def detail(self):
        return ('entry %d of the lookup table %s (read at %s) breaks T[i^j] == T[i]^T[j]^T[0]: the table of a CRC step is '
                'linear in its index, so this entry cannot be right whatever the polynomial'
                % (self.entry, self.table, self.inst.where()))


class ReadOutside(Exception):
    def __init__(self, inst, off, nb):
        Exception.__init__(self, 'read of %d byte(s) at offset %d' % (nb, off))
        self.inst, self.off, self.nb = inst, off, nb


class NeedSplit(Exception):
    """a select whose arms differ by a non-constant amount: the caller evaluates once per outcome of its condition"""

    def __init__(self, inst):
        self.inst = inst


class DataDependentBranch(Exception):
    def __init__(self, inst):
        self.inst = inst


class FuncEval(BlockEval):
    """whole-function evaluation in the GF(2) domain with concrete control
    flow: scalar parameters may be fixed to constants (e.g. the length), the
    remaining integers and the bytes behind pointer parameters are symbolic.
    A branch whose condition is not decided by the constants is reported
    (DataDependentBranch)."""

    def __init__(self, fn, mod, args, max_steps=200000):
        BlockEval.__init__(self, fn, mod)
        self.max_steps = max_steps
        self.reads = []      # (param name, offset, width)
        self.read_limit = None   # when set: a read outside [0, limit) of a pointer parameter stops the evaluation (ReadOutside)
        self.bytes = {}      # (base, off) -> BV(8)
        for n, a in enumerate(args):
            self.env[('a', n)] = a

    def val(self, v, w=None):
        if v.k == 'null':
            return ('p', None, 0)
        return BlockEval.val(self, v, w)

    def byte(self, base, off):
        k = (base, off)
        if k not in self.bytes:
            self.bytes[k] = BV.sym(8, '%s[%d].' % (base, off))
        return self.bytes[k]

    def run(self):
        f = self.fn
        b = f.entry
        prev = None
        steps = 0
        while True:
            # phis
            vals = []
            for i in b.insts:
                if i.op == 'dbg':
                    continue
                if i.op != 'phi':
                    break
                for (bb, v) in i.incoming:
                    if prev is not None and bb == prev.name:
                        vals.append((i, self.val(v)))
            for i, v in vals:
                self.env[('i', i.id)] = v
            for i in b.insts:
                steps += 1
                if steps > self.max_steps:
                    raise AnalysisBroken('%s: evaluation budget exceeded' % f.name)
                if i.op in ('dbg', 'phi'):
                    continue
                if i is b.term:
                    break
                self.fstep(i)
            t = b.term
            if t.op == 'ret':
                return self.val(t.ops[0]) if t.ops else None
            if t.op == 'br':
                if 'f' not in t.d:
                    prev, b = b, f.bmap[t.d['t']]
                    continue
                c = self.val(t.ops[0])
                cc = c.concrete() if isinstance(c, BV) else None
                if cc is None:
                    raise DataDependentBranch(t)
                prev, b = b, f.bmap[t.d['t'] if cc else t.d['f']]
                continue
            raise AnalysisBroken('%s: unsupported terminator %s' % (f.name, t.op))

    def fstep(self, i):
        op = i.op
        key = ('i', i.id)
        if op == 'getelementptr':
            p = self.val(i.ops[0])
            if isinstance(p, tuple) and p[0] == 'p':
                off = p[2]
                from irlib import V
                for s in i.d['gep']['steps']:
                    if s['k'] == 'field':
                        off += s['off']
                    else:
                        iv = self.val(V(s['v']))
                        c = iv.concrete() if isinstance(iv, BV) else None
                        if c is None:
                            raise AnalysisBroken('%s: symbolic address at %s' % (self.fn.name, i.where()))
                        if c >> (iv.w - 1):
                            c -= 1 << iv.w
                        off += s['stride'] * c
                self.env[key] = ('p', p[1], off)
                return
            if isinstance(p, tuple) and p[0] == 'global':
                self.env[key] = ('gep', i)
                return
            self.env[key] = ('ptr', key)
            return
        if op in ('bitcast', 'addrspacecast'):
            self.env[key] = self.val(i.ops[0])
            return
        if op == 'load':
            p = self.val(i.ops[0])
            if isinstance(p, tuple) and p[0] == 'p' and p[1] is not None and i.ty.get('k') == 'int':
                nb = i.bits // 8
                self.reads.append((p[1], p[2], nb, i))
                if self.read_limit is not None and (p[2] < 0 or p[2] + nb > self.read_limit):
                    raise ReadOutside(i, p[2], nb)
                bits = []
                for k in range(nb):
                    bits += self.byte(p[1], p[2] + k).bits
                self.env[key] = BV(i.bits, bits)
                return
            if isinstance(p, tuple) and p[0] == 'gep':
                r = self.table_lookup(i, i.ops[0])
                if r is not None:
                    self.env[key] = r
                    return
        if op == 'icmp':
            a = self.val(i.ops[0])
            b = self.val(i.ops[1])
            if isinstance(a, tuple) and isinstance(b, tuple) and a[0] == 'p' and b[0] == 'p' and a[1] == b[1]:
                res = {'eq': a[2] == b[2], 'ne': a[2] != b[2], 'ult': a[2] < b[2], 'ule': a[2] <= b[2],
                       'ugt': a[2] > b[2], 'uge': a[2] >= b[2]}.get(i.pred)
                if res is not None:
                    self.env[key] = BV.const(1, 1 if res else 0)
                    return
            if isinstance(a, tuple) and isinstance(b, tuple) and a[0] == 'p' and b[0] == 'p' and \
                    (a[1] is None) != (b[1] is None) and i.pred in ('eq', 'ne'):
                self.env[key] = BV.const(1, 1 if i.pred == 'ne' else 0)
                return
        self.step(i)
