"""C12 helper: the decimal parsers igris_atof32 / igris_atof64."""
from c07_common import *


# ----------------------------------------------------------------------------------------------
# parsers
# ----------------------------------------------------------------------------------------------
def reach(mod, f, depth=3):
    out = [f]
    seen = {f.name}
    frontier = [f]
    for _ in range(depth):
        nxt = []
        for g in frontier:
            for c in g.calls():
                t = mod.fn(c.callee) if c.callee else None
                if t is not None and not t.decl and t.name not in seen:
                    seen.add(t.name)
                    out.append(t)
                    nxt.append(t)
        frontier = nxt
    return out


def grammar_rule(rep, mod, f, name):
    """R-GRAMMAR (necessary condition): a parser of [+-]d*[.d*][(e|E)[+-]d+] must test characters against '+', '-',
    '.', 'e' and 'E' (or fold the case) somewhere in itself or its callees"""
    eq = set()
    fold = False
    for g in reach(mod, f):
        for i in g.all_insts():
            if i.op == 'icmp' and i.pred in ('eq', 'ne'):
                for o in i.ops:
                    if o.k == 'ci':
                        eq.add(o.ival)
            elif i.op == 'switch':
                for c in i.d['cases']:
                    eq.add(c['v'])
            elif i.op in ('or', 'and') and any(o.k == 'ci' and o.ival in (32, -33, 223) for o in i.ops):
                fold = True
            elif i.op == 'call' and i.callee in ('tolower', 'toupper', 'igris_tolower', 'igris_toupper'):
                fold = True
            elif i.op == 'call' and i.callee in ('strchr', 'memchr', 'strpbrk', 'strspn', 'strcspn'):
                # membership in a constant character set
                for o in i.ops:
                    gname = None
                    if o.k == 'global':
                        gname = o.name
                    elif o.k == 'cexpr' and o.d.get('ops') and o.d['ops'][0].get('k') == 'global':
                        gname = o.d['ops'][0].get('name')
                    gl = mod.globals.get(gname) if gname else None
                    if gl and gl.get('const') and isinstance(gl.get('init'), list):
                        eq.update(x for x in gl['init'] if isinstance(x, int) and x)
    w = where(f)
    for key, ok, miss in (
            ('recognises a leading \'-\'', 45 in eq, '\'-\''),
            ('recognises a leading \'+\'', 43 in eq, '\'+\''),
            ('recognises the decimal point', 46 in eq, '\'.\''),
            ('recognises the exponent marker e/E', (101 in eq and 69 in eq) or ((101 in eq or 69 in eq) and fold), '\'e\'/\'E\'')):
        rep.inst('R-GRAMMAR', name, key, ok, w,
                 'neither %s nor its callees ever compare a character with %s: that part of a decimal literal cannot be '
                 'recognised' % (name, miss), fact={'constants': sorted(c for c in eq if 32 <= c < 127)})


def float_accumulators(f):
    """loops  val = val * 10.0 + digit  in floating point"""
    out = []
    for L in f.loops:
        for ph in [i for i in L['header'].insts if i.op == 'phi' and i.ty.get('k') == 'fp']:
            for (bb, v) in ph.incoming:
                if f.bmap[bb] not in L['blocks'] or v.k != 'inst':
                    continue
                a = f.insts[v.id]
                mul = None
                if a.op == 'call' and (a.callee or '').startswith('llvm.fmuladd'):
                    ops = a.ops[:2]
                    if any(o.k == 'inst' and o.id == ph.id for o in ops) and any(o.k == 'cf' for o in ops):
                        mul = [o for o in ops if o.k == 'cf'][0]
                elif a.op == 'fadd':
                    for o in a.ops:
                        if o.k == 'inst' and f.insts[o.id].op == 'fmul':
                            m = f.insts[o.id]
                            if any(x.k == 'inst' and x.id == ph.id for x in m.ops) and any(x.k == 'cf' for x in m.ops):
                                mul = [x for x in m.ops if x.k == 'cf'][0]
                if mul is not None:
                    try:
                        out.append((L, ph, float(mul.d['v'])))
                    except (ValueError, KeyError):
                        pass
    return out


def unguarded_accumulator(t):
    """t accumulates digits as acc*B + d in a fixed-width integer and never compares the accumulator with anything
    (no overflow test): excess digits wrap"""
    for a in find_accumulators(t):
        ids = {a['phi'].id, a['add'].id, a['mul'].id}
        guarded = any(i.op == 'icmp' and any(o.k == 'inst' and o.id in ids for o in i.ops)
                      for b in a['loop']['blocks'] for i in b.insts)
        if not guarded:
            return True
    return False


def fpacc_rule(rep, mod, f, name):
    """R-FPACC: the mantissa digits are not collected by a fixed-width integer parser that wraps silently on literals
    with more digits than it can hold (accumulating in floating point as val*10+d, or an integer accumulator with an
    overflow test, both pass)"""
    facc = [a for a in float_accumulators(f) if a[2] == 10.0]
    bad = []
    for c in f.calls():
        t = mod.fn(c.callee) if c.callee else None
        if t is None or t.decl or not unguarded_accumulator(t):
            continue
        for u in f.users(c):
            x = u
            if x.op in ('zext', 'sext', 'trunc'):
                us = f.users(x)
                x = us[0] if us else x
            if x.op in ('uitofp', 'sitofp'):
                bad.append((c.callee, t.ret.get('bits')))
    if unguarded_accumulator(f):
        for a in find_accumulators(f):
            for u in f.users(a['phi']):
                if u.op in ('uitofp', 'sitofp') and u.block not in a['loop']['blocks']:
                    bad.append((name, a['phi'].bits))
    ok = not bad
    rep.inst('R-FPACC', name, 'mantissa digits are not collected in a fixed-width integer that wraps', ok, where(f),
             None if ok else ('the mantissa is parsed by %s into a fixed-width integer without an overflow test and converted '
                              'afterwards: digits beyond that width wrap silently (e.g. an integer part of 2^32 or 20 fraction '
                              'digits)' % ', '.join('%s (%s bits)' % b for b in sorted(set(bad)))),
             fact={'float_loops': len(facc), 'integer_parsers': sorted(set(b[0] for b in bad))})


def forced(it, st, ch, c):
    return feasible(it, st, [(ch, c - 1)]) is None and feasible(it, st, [(c + 1, ch)]) is None and \
        feasible(it, st, [(c, ch), (ch, c)]) is not None


class InterpF(Interp7):
    """Interp7 that remembers every character read from the C string (ghost chars: offset key -> (offset, value))"""

    def exec_inst(self, fn, i, st):
        out = Interp7.exec_inst(self, fn, i, st)
        if i.op == 'load' and i.ty.get('bits') == 8:
            for s in out:
                off = s.ghost.get('last_off')
                ch = s.ghost.get('last_ch')
                p = self.val(s, i.ops[0], fn) if i.ops[0].key() in s.env or i.ops[0].k != 'inst' else None
                if off is None or ch is None or not isinstance(p, PtrVal) or p.off != off:
                    continue
                d = dict(s.ghost.get('chars') or {})
                d[off.key()] = (off, ch)
                s.ghost['chars'] = d
        return out


def exp_minus(it, st):
    for (off, ch) in (st.ghost.get('chars') or {}).values():
        if off.is_const() and off.c == 0:
            continue
        if forced(it, st, ch, 45):
            return True
    return False


class InterpP(InterpF):
    """InterpF with hooks on loop entry: entry[(function, header block)] = f(interp, state, function, loop, from block)"""

    def __init__(self, mod, externals=None, opaque=()):
        InterpF.__init__(self, mod, externals, opaque)
        self.entry = {}

    def run_loop(self, fn, L, st, frm, rets):
        h = self.entry.get((fn.name, L['header'].name))
        if h is not None and self.recording == 0:
            h(self, st, fn, L, frm)
        return InterpF.run_loop(self, fn, L, st, frm, rets)


def sign_skipped_hook(sink, rule, fname, label):
    """on entry to a digit scan loop: the character under the cursor is not one the path has already identified as a sign
    (a sign that was recognised but not stepped over ends the digit scan at once: "1e+5" would parse as 1)"""
    def hook(it, st, fn, L, frm):
        cur = [i for i in L['header'].insts if i.op == 'phi' and i.ty.get('k') == 'ptr']
        if len(cur) != 1:
            return
        init = [it.val(st, v, fn) for (bb, v) in cur[0].incoming if bb == frm.name]
        if len(init) != 1 or not isinstance(init[0], PtrVal):
            return
        ent = (st.ghost.get('chars') or {}).get(init[0].off.key())
        bad = None
        if ent is not None:
            for (c, nm) in ((43, '+'), (45, '-')):
                if forced(it, st, ent[1], c):
                    bad = nm
        sink.inst(rule, fname, 'a sign in front of %s is stepped over before its digits are scanned' % label, bad is None,
                  L['header'].term.where(),
                  'the digits of %s are scanned from offset %r, where this path has just recognised a \'%s\'' % (
                      label, init[0].off, bad))
    return hook


def atof64_check(rep, mod):
    import absint
    old = absint.MAX_STATES
    absint.MAX_STATES = 300        # five scan loops in sequence, each with two exits and a terminator split
    try:
        _atof64_check(rep, mod)
    finally:
        absint.MAX_STATES = old


def _atof64_check(rep, mod):
    fname = 'igris_atof64'
    f = need(mod, fname)
    accs = find_accumulators(f)
    if len(accs) != 1:
        raise AnalysisBroken('%s: exponent accumulation loop not found' % fname)
    E = accs[0]
    eb = strip(f, E['base'])
    rep.inst('R-ATOF64', fname, 'exponent digits are accumulated as e*10 + digit', eb.k == 'ci' and eb.ival == 10,
             E['mul'].where(), 'the exponent is accumulated in base %s' % (eb.ival if eb.k == 'ci' else '?'))
    # the addition that merges the exponent into the scale count
    merges = []
    for i in f.all_insts():
        if i.op == 'add' and i.block not in E['loop']['blocks'] and i.id != E['add'].id:
            for k in (0, 1):
                # a widening of the exponent value before it is added (`long d` instead of `int d`) changes nothing
                o = strip(f, i.ops[k], ops=('sext', 'zext'))
                if o.k == 'inst' and (o.id == E['phi'].id or (f.insts[o.id].op in ('mul', 'sub', 'select') and
                                                               depends_mul(f, o, E['phi']))):
                    merges.append((i, i.ops[k]))
    if not merges:
        for i in f.all_insts():
            if i.op == 'sub' and i.block not in E['loop']['blocks'] and i.ops[0].k == 'inst':
                o = strip(f, i.ops[1], ops=('sext', 'zext'))
                if o.k == 'inst' and (o.id == E['phi'].id or depends_mul(f, o, E['phi'])):
                    raise AnalysisBroken('%s: the exponent is merged into the scale by a subtraction at %s: form not '
                                         'recognised' % (fname, i.where()))
        # the exponent value exists (the accumulation loop was found) but nothing adds it to the count of fraction digits:
        # whatever else is done with it, "1.5e2" can no longer come out as 150 (the scale is -1 + 2)
        rep.inst('R-ATOF64', fname, 'the exponent is added to the fraction-digit scale', False, E['add'].where(),
                 'no addition combines the parsed exponent with the (negative) count of fraction digits: a literal with both a '
                 'fraction and an exponent is scaled by the exponent alone (e.g. "1.5e2" gives 1500)')
        return
    if len(merges) != 1:
        raise AnalysisBroken('%s: expected one addition of the exponent to the scale count, found %d' % (fname, len(merges)))
    rep.inst('R-ATOF64', fname, 'the exponent is added to the fraction-digit scale', True, merges[0][0].where())
    M, contrib = merges[0]
    rets = f.returns()
    signs = []
    for i in f.all_insts():
        if i.op == 'sitofp':
            for u in f.users(i):
                if u.op == 'fmul' and any(depends_ret(f, r, u) for r in rets):
                    signs.append(i)
    if not signs and len(rets) == 1 and rets[0].ops:
        # no factor at all: when the returned value is just the scaled mantissa, nothing can make it negative
        o = origins(f, rets[0].ops[0])
        plain = all(k[0] == 'c' or (k[0] == 'i' and f.insts[k[1]].op == 'fmul' and
                                    any(x.k == 'cf' for x in f.insts[k[1]].ops)) or
                    (k[0] == 'i' and f.insts[k[1]].op == 'phi') for k in o)
        if plain:
            rep.inst('R-MANTSIGN', fname, 'leading \'-\': result is negated', False, where(f),
                     'the returned value is the scaled mantissa itself: no sign factor, negation or selection depends on '
                     'the leading \'-\' (e.g. "-1" parses as 1)')
            return
    if len(signs) != 1:
        raise AnalysisBroken('%s: expected one integer sign factor in the result, found %d' % (fname, len(signs)))
    S = signs[0]
    it = InterpP(mod)
    it.no_peel = True
    it.havoc_pure_loops(f)
    sink = Sink(rep, it)

    def merge_hook(interp, st, i, fn):
        if interp.recording > 0:
            return
        ev = interp.val(st, iv(E['phi']), fn)
        cv = interp.val(st, contrib, fn)
        el = st.as_s(ev) if isinstance(ev, IntVal) else None
        cl = st.as_s(cv) if isinstance(cv, IntVal) else None
        neg = exp_minus(interp, st)
        ok = el is not None and cl is not None and st.cons.entails_eq(cl, -el if neg else el)
        sink.inst('R-EXPSIGN', fname, 'exponent is subtracted iff it is written with \'-\'' if neg else
                  'exponent is added when it has no \'-\'', ok, i.where(),
                  'the literal has %s exponent sign but the scale count receives %r for an exponent value %r '
                  '(e.g. "1e-2" must scale by 10^-2)' % ('a \'-\'' if neg else 'no \'-\'', cl, el))
    it.pre[(f.name, M.id)] = merge_hook

    def sign_hook(interp, st, i, fn):
        if interp.recording > 0:
            return
        sv = interp.val(st, i.ops[0], fn)
        sl = st.as_s(sv) if isinstance(sv, IntVal) else None
        ch = st.ghost.get('first_ch')
        if ch is None or sl is None:
            return      # not expressible in the linear domain: nothing is claimed for this state
        minus = forced(interp, st, ch, 45)
        can_minus = feasible(interp, st, [(45, ch), (ch, 45)]) is not None
        if minus:
            ok = st.cons.entails_eq(sl, -1)
            sink.inst('R-MANTSIGN', fname, 'leading \'-\': result is negated', ok, i.where(),
                      'the literal starts with \'-\' but the sign factor is %r' % sl)
        elif not can_minus:
            ok = st.cons.entails_eq(sl, 1)
            sink.inst('R-MANTSIGN', fname, 'no leading \'-\': result keeps its sign', ok, i.where(),
                      'the literal does not start with \'-\' but the sign factor is %r (a \'-\' elsewhere in the literal, '
                      'e.g. in the exponent "1e-2", must not negate the value)' % sl)
    it.pre[(f.name, S.id)] = sign_hook
    IA, FA = atof64_ir_rules(rep, mod, f, fname, E, M, S)
    # a sign is consumed before the digits after it are scanned
    for (label, L) in (('the mantissa', IA[0]), ('the exponent', E['loop'])):
        it.entry[(f.name, L['header'].name)] = sign_skipped_hook(sink, 'R-ATOF64', fname, label)
    # every accumulated digit is c - '0' of a character in '0'..'9' (the one just read)
    for (label, a) in (('integer digit', IA), ('fraction digit', FA)):
        acc = float_acc_inst(f, a)
        it.pre[(f.name, acc[0].id)] = digit_hook(sink, 'R-ATOF64', fname, label, acc[1])
    it.pre[(f.name, E['add'].id)] = digit_hook(sink, 'R-ATOF64', fname, 'exponent digit', E['digit'])
    post = [dict(name='end pointer is the scan position',
                 then=['ghost_end_set_post == 1', 'ghost_end_arg_post == 0', 'ghost_end_off_post == ghost_last_off_post'])]
    run = Run7(it, [])
    run.run(f.name, spec7(setup=cstr_params(0), extents={'arg1': '8'}, post=post, outptrs={1: 'end'}))
    import_obligations(rep, 'R-ATOF64', it, run)
    if guarded_outptr_rule(rep, 'R-ATOF64', f, fname, 1) == 0:
        raise AnalysisBroken('%s never stores the end pointer' % fname)
    atof_shapes(rep, mod, fname, 'R-ATOF64-SHAPE')
    rep.floor('R-ATOF64-SHAPE:post', 27)


def atof_shapes(rep, mod, fname, rule):
    """End pointer on literals of fixed shape (ISO C 7.22.1.3: the subject sequence is a non-empty digit sequence optionally
    containing a point, then optionally an exponent part e/E [sign] digits): every character of the shape is a whole class
    (any digit, any letter that is neither e nor E ...), the end pointer must stand behind the longest prefix of that form."""
    from absval import PtrVal
    f = need(mod, fname)
    D, X = (48, 57), (103, 122)          # any digit; any of g..z (no digit, no point, no exponent marker, no hex digit)
    shapes = [('digit point: "1."', [D, (46, 46)], 2),
              ('digit point letter: "1.x"', [D, (46, 46), X], 2),
              ('digit point digit letter: "1.5x"', [D, (46, 46), D, X], 3),
              ('digit point exponent: "1.e5"', [D, (46, 46), (101, 101), D], 4),
              ('digit exponent: "1E5"', [D, (69, 69), D], 3),
              ('digit exponent plus digit: "1e+5"', [D, (101, 101), (43, 43), D], 4),
              ('digit exponent minus digit: "1E-5"', [D, (69, 69), (45, 45), D], 4),
              ('digit point digit exponent plus digit letter: "1.5e+3x"', [D, (46, 46), D, (101, 101), (43, 43), D, X], 6),
              ('digit letter: "1x"', [D, X], 1)]
    for (label, classes, end) in shapes:
        it = InterpF(mod)

        def setup(run, st, env, names, args, sps, classes=classes):
            n = len(classes)
            o = st.new_obj('param', Lin(n + 1), 'arg0', {'desc': 'literal of %d characters' % n, 'cstr_len': Lin(n)})
            for k, (lo, hi) in enumerate(classes):
                b = st.fresh_int(8, False, 'ch%d' % k)
                st.cons.add_le(lo, b.u)
                st.cons.add_le(b.u, hi)
                st.conv[('cstrbyte', o.id, Lin(k).key())] = b
            args[0] = PtrVal(o.id, Lin(0))
        run = Run7(it, [])
        post = [dict(name='end pointer behind the longest numeric prefix of %s' % label,
                     then=['ghost_end_set_post == 1', 'ghost_end_arg_post == 0', 'ghost_end_off_post == %d' % end])]
        run.run(f.name, spec7(setup=setup, extents={'arg1': '8'}, post=post, outptrs={1: 'end'}))
        obs = [o for o in summarize(it, run) if o['kind'] == 'post']
        rep.add_absint(rule, obs)


def float_acc_inst(f, a):
    """(accumulating instruction, integer digit value V) of a float accumulator (L, phi, factor): the value added to
    phi*factor is (double)(int digit)"""
    L, ph, k = a
    for (bb, v) in ph.incoming:
        if f.bmap[bb] in L['blocks'] and v.k == 'inst':
            i = f.insts[v.id]
            cand = []
            if i.op == 'call' and (i.callee or '').startswith('llvm.fmuladd'):
                cand = [i.ops[2]]
            elif i.op == 'fadd':
                cand = [o for o in i.ops if not (o.k == 'inst' and f.insts[o.id].op == 'fmul')]
            for c in cand:
                x = c
                while x.k == 'inst' and f.insts[x.id].op in ('fpext', 'fptrunc'):
                    x = f.insts[x.id].ops[0]
                if x.k == 'inst' and f.insts[x.id].op in ('sitofp', 'uitofp'):
                    return i, f.insts[x.id].ops[0]
    raise AnalysisBroken('%s: the digit added in a mantissa accumulation is not an integer converted to floating point' % f.name)


def digit_hook(sink, rule, fname, label, digit, chain=None):
    """pre-hook: the digit value accumulated here is c - '0' for the character c just read and c is in '0'..'9'"""
    def hook(it, st, i, fn):
        if chain is not None:
            chain(it, st, i, fn)
        if it.recording > 0:
            return
        ch = st.ghost.get('last_ch')
        d = it.val(st, digit, fn)
        dl = (st.as_s(d) if st.as_s(d) is not None else st.as_u(d)) if isinstance(d, IntVal) else None
        ok = ch is not None and st.cons.entails_le(48, ch) and st.cons.entails_le(ch, 57)
        sink.inst(rule, fname, '%s: only characters \'0\'..\'9\' are accumulated' % label, ok, i.where(),
                  'a character %r outside \'0\'..\'9\' can reach the accumulation%s' % (ch, it.explain(st, [ch]) if ch is not None else ''))
        ok = ch is not None and dl is not None and st.cons.entails_eq(dl, ch - 48)
        sink.inst(rule, fname, '%s: value is c - \'0\'' % label, ok, i.where(),
                  'the accumulated digit is %r for the character %r' % (dl, ch))
    return hook


def origins(f, v, stops=()):
    """where a value comes from, looking through phis (for a loop-header phi only through the values that enter the
    loop): set of ('i', inst id) | ('c', constant) | ('a', argument index)"""
    hdr = {L['header']: L for L in f.loops}
    out = set()
    seen = set()
    st = [v]
    while st:
        x = st.pop()
        if x.k == 'cf':
            try:
                out.add(('c', float(x.d['v'])))
            except ValueError:
                out.add(('c', x.d['v']))
            continue
        if x.k == 'ci':
            out.add(('c', x.ival))
            continue
        if x.k == 'arg':
            out.add(('a', x.argno))
            continue
        if x.k != 'inst':
            out.add(('?', str(x.d)))
            continue
        if x.id in seen:
            continue
        seen.add(x.id)
        i = f.insts[x.id]
        if i.id in stops or i.op != 'phi':
            out.add(('i', i.id))
            continue
        L = hdr.get(i.block)
        for (bb, o) in i.incoming:
            if L is not None and f.bmap[bb] in L['blocks']:
                continue
            st.append(o)
    return out


def int_counters(f, L):
    """header phis of L stepped by a constant per iteration: [(phi, step)]"""
    out = []
    for ph in [i for i in L['header'].insts if i.op == 'phi' and i.ty.get('k') == 'int']:
        steps = []
        for (bb, v) in ph.incoming:
            if f.bmap[bb] in L['blocks']:
                a = f.insts[v.id] if v.k == 'inst' else None
                if a is not None and a.op == 'add' and any(o.k == 'inst' and o.id == ph.id for o in a.ops) and \
                        any(o.k == 'ci' for o in a.ops):
                    steps.append([o for o in a.ops if o.k == 'ci'][0].ival)
                else:
                    steps.append(None)
        if steps and all(s is not None and s == steps[0] for s in steps):
            # an integer that indexes memory (`nptr[i]` instead of `*nptr++`) is the text cursor, not a counter of digits
            work, seen, indexes = [ph], set(), False
            while work and not indexes:
                x = work.pop()
                if x.id in seen:
                    continue
                seen.add(x.id)
                for u in f.users(x):
                    if u.op in ('sext', 'zext', 'trunc'):
                        work.append(u)
                    elif u.op == 'add' and any(o.k == 'ci' for o in u.ops) and u.id != ph.id:
                        work.append(u)
                    elif u.op == 'getelementptr' and any(o.k == 'inst' and o.id == x.id for o in u.ops[1:]):
                        indexes = True
            if not indexes:
                out.append((ph, steps[0]))
    return out


def loop_guard(f, L):
    """(pred, lhs V, rhs V) under which the loop continues when it has a single head test `icmp` as exit, else None"""
    ex = [(b, t) for (b, t) in L['exits']]
    if len(ex) != 1 or ex[0][0] is not L['header']:
        return None
    t = L['header'].term
    if t.op != 'br' or 'f' not in t.d or t.ops[0].k != 'inst':
        return None
    c = f.insts[t.ops[0].id]
    if c.op != 'icmp':
        return None
    stay_true = f.bmap[t.d['t']] in L['blocks']
    pred = c.pred
    if not stay_true:
        pred = {'sgt': 'sle', 'sge': 'slt', 'slt': 'sge', 'sle': 'sgt', 'eq': 'ne', 'ne': 'eq',
                'ugt': 'ule', 'uge': 'ult', 'ult': 'uge', 'ule': 'ugt'}[pred]
    return pred, c.ops[0], c.ops[1]


def atof64_ir_rules(rep, mod, f, fname, E, M, S):
    """IR dataflow clauses of igris_atof64: E exponent accumulator, M the addition merging the exponent into the decimal
    scale, S the integer sign factor"""
    w = where(f)

    def inst(key, ok, detail=None, where_=None, fact=None):
        rep.inst('R-ATOF64', fname, key, bool(ok), where_ or w, None if ok else detail, fact=fact)
    fa = float_accumulators(f)
    ok = len(fa) == 2 and all(a[2] == 10.0 for a in fa)
    inst('integer and fraction digits are accumulated as val*10 + digit', ok,
         'found %d floating accumulation loops with factors %s' % (len(fa), [a[2] for a in fa]))
    if len(fa) != 2:
        raise AnalysisBroken('%s: expected two mantissa accumulation loops, found %d' % (fname, len(fa)))
    # order: the loop whose accumulator starts from a constant is the integer part
    first = [a for a in fa if all(k[0] == 'c' for k in origins(f, iv(a[1]), stops=[x[1].id for x in fa if x is not a]))]
    if len(first) != 1:
        raise AnalysisBroken('%s: cannot tell the integer digit loop from the fraction digit loop' % fname)
    IA = first[0]
    FA = [a for a in fa if a is not IA][0]
    inst('mantissa starts at 0.0', origins(f, iv(IA[1])) == {('c', 0.0)},
         'the integer digits accumulate onto %s' % sorted(origins(f, iv(IA[1]))), IA[1].where())
    o = origins(f, iv(FA[1]), stops=[IA[1].id])
    inst('fraction digits continue the integer digits\' accumulation', o == {('i', IA[1].id)},
         'the fraction digits accumulate onto %s, not onto the value of the integer digits' % sorted(o), FA[1].where())
    # decimal scale: one step down per fraction digit, none per integer digit
    ic = [c for c in int_counters(f, IA[0])]
    fcs = [c for c in int_counters(f, FA[0])]
    inst('integer digits leave the decimal scale unchanged', not ic,
         'the integer digit loop steps a counter by %s' % [c[1] for c in ic])
    ok = len(fcs) == 1 and fcs[0][1] == -1 and origins(f, iv(fcs[0][0])) == {('c', 0)}
    inst('each fraction digit lowers the decimal scale by one (starting from 0)', ok,
         'counters stepped in the fraction digit loop: %s' % [(c[1], sorted(origins(f, iv(c[0])))) for c in fcs])
    FC = fcs[0][0] if len(fcs) == 1 else None
    other = [o_ for o_ in M.ops if not depends_mul(f, o_, E['phi'])]
    oo = origins(f, other[0], stops=[FC.id] if FC is not None else []) if len(other) == 1 else set()
    ok = FC is not None and oo <= {('i', FC.id), ('c', 0)} and ('i', FC.id) in oo
    inst('the exponent is added to the (negative) count of fraction digits', ok,
         'the exponent is merged with %s' % sorted(oo), M.where())
    # scaling loops
    sl = []
    for L in f.loops:
        if L in (IA[0], FA[0], E['loop']):
            continue
        for ph in [i for i in L['header'].insts if i.op == 'phi' and i.ty.get('k') == 'fp']:
            for (bb, v) in ph.incoming:
                if f.bmap[bb] in L['blocks'] and v.k == 'inst' and f.insts[v.id].op == 'fmul':
                    m = f.insts[v.id]
                    k = [x for x in m.ops if x.k == 'cf']
                    if len(k) == 1 and any(x.k == 'inst' and x.id == ph.id for x in m.ops):
                        sl.append((L, ph, float(k[0].d['v'])))
    facs = sorted(x[2] for x in sl)
    inst('scaling multiplies by 10 and by 0.1', facs == [0.1, 10.0], 'scaling loops multiply by %s' % facs, fact=facs)
    stops = [M.id] + ([FC.id] if FC is not None else [])
    for (L, ph, k) in sl:
        nm = 'scale up (x10)' if k == 10.0 else 'scale down (x0.1)' if k == 0.1 else 'scale by %r' % k
        cs = int_counters(f, L)
        g = loop_guard(f, L)
        want_step, want_pred = (-1, 'sgt') if k == 10.0 else (1, 'slt')
        ok = len(cs) == 1 and cs[0][1] == want_step and g is not None and g[0] == want_pred and \
            g[1].k == 'inst' and g[1].id == cs[0][0].id and g[2].k == 'ci' and g[2].ival == 0
        if not ok and len(cs) == 1 and cs[0][1] == want_step and g is not None and g[0] == 'ne' and \
                g[1].k == 'inst' and g[1].id == cs[0][0].id and g[2].k == 'ci' and g[2].ival == 0:
            # `if (e > 0) for (n = e; n != 0; --n)`: counting to zero is the same loop when every way into it has established
            # the sign of the entry value
            cph = cs[0][0]
            inits = [v for (bb, v) in cph.incoming if f.bmap[bb] not in L['blocks']]
            if len(inits) == 1 and inits[0].k == 'inst':
                iv0 = inits[0]
                for c in f.all_insts():
                    if c.op != 'icmp' or len(c.ops) != 2:
                        continue
                    a, b = c.ops
                    pos = None
                    if a.key() == iv0.key() and b.k == 'ci':
                        # True: the true edge gives init >= 0 (enough for a count-down to zero); False: it gives init <= 0
                        pos = {('sgt', 0): True, ('sge', 1): True, ('sge', 0): True, ('sgt', -1): True,
                               ('slt', 0): False, ('sle', -1): False, ('sle', 0): False, ('slt', 1): False}.get((c.pred, b.ival))
                        # the same for the false edge
                        neg_edge = {('sle', 0): True, ('slt', 1): True, ('slt', 0): True, ('sle', -1): True,
                                    ('sge', 0): False, ('sgt', -1): False, ('sgt', 0): False, ('sge', 1): False}.get((c.pred, b.ival))
                    else:
                        continue
                    want_pos = (k == 10.0)
                    edges = []
                    if pos is not None and pos == want_pos:
                        edges = f.edges_implying(c, True)
                    elif neg_edge is not None and neg_edge == want_pos:
                        edges = f.edges_implying(c, False)
                    if edges and f.only_through_edges(edges, L['header']):
                        ok = True
                        break
        inst('%s: runs while the decimal scale is %s zero, stepping it by %+d' % (
            nm, 'above' if k == 10.0 else 'below', want_step), ok,
            'counter steps %s, loop continues while %s' % ([c[1] for c in cs], g[0] if g else '?'), L['header'].term.where())
        if len(cs) == 1:
            so = origins(f, iv(cs[0][0]), stops=stops + [c2[0].id for (L2, p2, k2) in sl for c2 in int_counters(f, L2) if L2 is not L])
            base = set(('i', x) for x in stops) | {('c', 0)} | set(('i', c2[0].id) for (L2, p2, k2) in sl if L2 is not L
                                                                   for c2 in int_counters(f, L2))
            inst('%s: the counter is the decimal scale (fraction digit count + exponent)' % nm,
                 so <= base and (('i', M.id) in so or any(('i', c2[0].id) in so for (L2, p2, k2) in sl if L2 is not L
                                                          for c2 in int_counters(f, L2))),
                 'the loop counts %s' % sorted(so))
        vo = origins(f, iv(ph), stops=[IA[1].id, FA[1].id] + [p2.id for (L2, p2, k2) in sl if L2 is not L])
        base = {('i', IA[1].id), ('i', FA[1].id)} | set(('i', p2.id) for (L2, p2, k2) in sl if L2 is not L)
        inst('%s: scales the accumulated mantissa' % nm, vo <= base and bool(vo), 'the loop scales %s' % sorted(vo))
    # result = sign factor * scaled mantissa
    rets = f.returns()
    ok = False
    det = 'no single return'
    if len(rets) == 1 and rets[0].ops:
        ro = origins(f, rets[0].ops[0])
        comp = [k for k in ro if k[0] == 'i']
        det = 'returned values: %s' % sorted(ro)
        if len(comp) == 1 and f.insts[comp[0][1]].op == 'fmul':
            m = f.insts[comp[0][1]]
            sides = [o_ for o_ in m.ops if not (o_.k == 'inst' and o_.id == S.id)]
            if len(sides) == 1 and any(o_.k == 'inst' and o_.id == S.id for o_ in m.ops):
                vo = origins(f, sides[0], stops=[p2.id for (L2, p2, k2) in sl])
                ok = bool(vo) and vo <= set(('i', p2.id) for (L2, p2, k2) in sl)
                det = 'the sign factor multiplies %s, not the scaled mantissa' % sorted(vo)
    inst('result is the sign factor times the scaled mantissa', ok, det)
    return IA, FA


def depends_mul(f, v, target, depth=4):
    if v.k != 'inst' or depth < 0:
        return False
    if v.id == target.id:
        return True
    i = f.insts[v.id]
    if i.op in ('mul', 'sub', 'select', 'sext', 'zext', 'trunc'):
        return any(depends_mul(f, o, target, depth - 1) for o in i.ops)
    return False


def depends_ret(f, r, inst, depth=4):
    if not r.ops:
        return False
    st = [(r.ops[0], 0)]
    while st:
        v, d = st.pop()
        if v.k != 'inst' or d > depth:
            continue
        if v.id == inst.id:
            return True
        i = f.insts[v.id]
        if i.op in ('phi', 'select', 'fptrunc', 'fpext'):
            for o in i.ops:
                st.append((o, d + 1))
    return False


def result_sign_rule(rep, f, fname):
    """every computed result of igris_atof32 is `leading '-' ? -x : x`"""
    rets = f.returns()
    vals = []
    if len(rets) == 1 and rets[0].ops:
        v = rets[0].ops[0]
        i = f.insts[v.id] if v.k == 'inst' else None
        vals = list(i.ops) if i is not None and i.op == 'phi' else [v]
    n = 0
    for v in vals:
        if v.k == 'cf':
            continue
        n += 1
        i = f.insts[v.id] if v.k == 'inst' else None
        if i is None or i.op != 'select':
            raise AnalysisBroken('%s: result %d is not a selection between a magnitude and its negation (the shape this '
                                 'rule decides)' % (fname, n))
        t, e = i.ops[1], i.ops[2]
        ti = f.insts[t.id] if t.k == 'inst' else None
        ei = f.insts[e.id] if e.k == 'inst' else None
        neg_true = ti is not None and ti.op == 'fneg' and same_float(f, ti.ops[0], e)
        neg_false = ei is not None and ei.op == 'fneg' and same_float(f, ei.ops[0], t)
        if not (neg_true or neg_false):
            raise AnalysisBroken('%s: result %d does not select between x and -x' % (fname, n))
        c = bool_root(f, i.ops[0])
        ci = f.insts[c.id] if c.k == 'inst' else None
        while ci is not None and ci.op == 'select' and ci.ops[1].k == 'ci' and ci.ops[2].k == 'ci' and \
                ci.ops[1].ival == 1 and ci.ops[2].ival == 0:
            c = bool_root(f, ci.ops[0])
            ci = f.insts[c.id] if c.k == 'inst' else None
        ok = False
        det = 'the negated magnitude is selected by a test that is not "first character == \'-\'"'
        if ci is not None and ci.op == 'icmp' and ci.pred in ('eq', 'ne'):
            k = [o for o in ci.ops if o.k == 'ci']
            x = [strip(f, o) for o in ci.ops if o.k != 'ci']
            ld = f.insts[x[0].id] if x and x[0].k == 'inst' else None
            first = bool(k) and k[0].ival == 45 and ld is not None and ld.op == 'load' and \
                ld.ops[0].k == 'arg' and ld.ops[0].argno == 0
            if first:
                ok = neg_true if ci.pred == 'eq' else neg_false
                det = 'the magnitude is negated when the literal does NOT start with \'-\''
        rep.inst('R-ATOF32', fname, 'result %d is negated iff the literal starts with \'-\'' % n, ok,
                 i.where(), None if ok else det)
    if n == 0:
        raise AnalysisBroken('%s: no computed result found' % fname)


def atof32_check(rep, mod):
    fname = 'igris_atof32'
    f = need(mod, fname)
    it = InterpF(mod)
    it.havoc_pure_loops(need(mod, 'local_pow'))
    sink = Sink(rep, it)
    scans = [c for c in f.calls() if c.callee in ('igris_atou32', 'igris_atou64')]
    pows = [c for c in f.calls() if c.callee == 'local_pow']
    if len(scans) != 2 or len(pows) != 1 or not f.dominates(scans[0], scans[1]):
        raise AnalysisBroken('%s: expected igris_atou32 (integer part), igris_atou64 (fraction) and local_pow calls' % fname)
    S0, S1, P = scans[0], scans[1], pows[0]
    # the power of ten is accumulated at the width of the value local_pow returns (int64: exact up to 10^18, the limit the known
    # finding R-FPACC states); in a narrower accumulator it wraps from 10^10 on, i.e. for literals with ten fraction digits
    lp = need(mod, 'local_pow')
    muls = [i for L in lp.loops for b in L['blocks'] for i in b.insts if i.op == 'mul']
    if len(muls) != 1:
        raise AnalysisBroken('local_pow: expected one multiplication in its loop, found %d' % len(muls))
    rbits = lp.ret.get('bits')
    rep.inst('R-ATOF32', 'local_pow', 'the power is accumulated at the width of the result', muls[0].bits == rbits, muls[0].where(),
             'the power is accumulated in %d bits and widened to the %s-bit result afterwards: 10^n wraps for n >= %d (a literal '
             'with that many fraction digits is divided by a wrong power)' % (muls[0].bits, rbits, {32: 10, 16: 5, 8: 3}.get(muls[0].bits, 0)),
             fact={'accumulator_bits': muls[0].bits, 'result_bits': rbits})

    def setup(run, st, env, names, args, sps):
        st.ghost['scanned'] = 0

    def scan0_hook(interp, st, i, fn):
        st.ghost['scanned'] = 1
        if interp.recording > 0:
            return
        p = interp.val(st, i.ops[0], fn)
        b = interp.val(st, i.ops[1], fn)
        ch = st.ghost.get('first_ch')
        sink.inst('R-ATOF32', fname, 'digits are scanned in base 10', isinstance(b, IntVal) and b.const() == 10, i.where(),
                  'base argument is %r' % b)
        if ch is None or not isinstance(p, PtrVal):
            return
        signed_ = forced(interp, st, ch, 45) or forced(interp, st, ch, 43)
        unsigned_ = feasible(interp, st, [(45, ch), (ch, 45)]) is None and feasible(interp, st, [(43, ch), (ch, 43)]) is None
        if signed_:
            sink.inst('R-ATOF32', fname, 'a leading sign is skipped before the digits are scanned',
                      st.cons.entails_eq(p.off, 1), i.where(),
                      'the literal starts with a sign but the digit scan starts at offset %r' % p.off)
        elif unsigned_:
            sink.inst('R-ATOF32', fname, 'without a sign the digits are scanned from the first character',
                      st.cons.entails_eq(p.off, 0), i.where(),
                      'the literal has no sign but the digit scan starts at offset %r' % p.off)
    it.pre[(f.name, S0.id)] = scan0_hook

    def scan1_hook(interp, st, i, fn):
        p = interp.val(st, i.ops[0], fn)
        e = interp.val(st, i.ops[2], fn)
        b = interp.val(st, i.ops[1], fn)
        if isinstance(p, PtrVal):
            st.ghost['frac_off'] = p.off
        st.ghost['endcell'] = e.obj if isinstance(e, PtrVal) else None
        if interp.recording > 0:
            return
        sink.inst('R-ATOF32', fname, 'fraction digits are scanned in base 10', isinstance(b, IntVal) and b.const() == 10,
                  i.where(), 'base argument is %r' % b)
        ch = st.ghost.get('last_ch')
        lo = st.ghost.get('last_off')
        ok = ch is not None and lo is not None and isinstance(p, PtrVal) and forced(interp, st, ch, 46) and \
            st.cons.entails_eq(p.off, lo + 1)
        sink.inst('R-ATOF32', fname, 'the fraction is scanned from the character after the decimal point', ok, i.where(),
                  'fraction scan starts at offset %r; last character read: %r at offset %r' % (
                      p.off if isinstance(p, PtrVal) else None, ch, lo))
    it.pre[(f.name, S1.id)] = scan1_hook

    def pow_hook(interp, st, i, fn):
        if interp.recording > 0:
            return
        b = interp.val(st, i.ops[0], fn)
        n = interp.val(st, i.ops[1], fn)
        fo = st.ghost.get('frac_off')
        cell = st.mem.get((st.ghost.get('endcell'), 0, 8)) if st.ghost.get('endcell') is not None else None
        nl = (st.as_s(n) if st.as_s(n) is not None else st.as_u(n)) if isinstance(n, IntVal) else None
        ok = isinstance(b, IntVal) and b.sconst() == 10 and nl is not None and fo is not None and \
            isinstance(cell, PtrVal) and st.cons.entails_eq(nl, cell.off - fo)
        sink.inst('R-ATOF32', fname, 'the fraction is divided by 10^(number of fraction digits scanned)', ok, i.where(),
                  'the divisor is %r ^ %r; the fraction digits start at offset %r and the scan stopped at %r' % (
                      b, nl, fo, cell.off if isinstance(cell, PtrVal) else None))
    it.pre[(f.name, P.id)] = pow_hook
    # the divisor really is the power: fdiv(fraction, (double)local_pow(...)) added to the integer part
    ok = False
    for u in f.users(P):
        x = u
        while x.op in ('sitofp', 'uitofp', 'fpext', 'fptrunc', 'sext', 'zext'):
            us = f.users(x)
            if len(us) != 1:
                break
            x = us[0]
        if x.op == 'fdiv' and same_root(f, x.ops[0], S1) and not same_root(f, x.ops[1], S1):
            for y in f.users(x):
                z = y
                while z.op in ('fpext', 'fptrunc'):
                    z = f.users(z)[0] if len(f.users(z)) == 1 else z
                    if z is y:
                        break
                    y = z
                if z.op == 'fadd' and any(same_root(f, o, S0) for o in z.ops):
                    ok = True
    rep.inst('R-ATOF32', fname, 'value is integer part + fraction / power of ten', ok, P.where(),
             'the result is not (float)integer + (double)fraction / (double)10^n')

    # early return (nothing scanned): taken only for characters that cannot start a literal
    class RunA(Run7):
        def check_return(self, fn, spec, env, struct_params, T, rv, posts=None):
            ch = T.ghost.get('first_ch')
            if fn is f and not T.ghost.get('scanned') and ch is not None:
                for (nm, lo, hi) in (('\'+\'', 43, 43), ('\'-\'', 45, 45), ('\'.\'', 46, 46), ('a digit', 48, 57)):
                    ok = feasible(it, T, [(lo, ch), (ch, hi)]) is None
                    sink.inst('R-ATOF32', fname, 'a literal starting with %s is not rejected' % nm, ok, where(f),
                              'the early return (result 0, nothing parsed) is reachable when the first character is %s' % nm)
            Run7.check_return(self, fn, spec, env, struct_params, T, rv, posts)
    post = [dict(name='end pointer is set on every path', then=['ghost_end_set_post == 1']),
            dict(name='end pointer is the scan position', when=['ghost_end_set_post == 1'],
                 then=['ghost_end_arg_post == 0', 'ghost_end_off_post == ghost_last_off_post'])]
    run = RunA(it, [])
    run.run(f.name, spec7(setup=combine(cstr_params(0), setup), extents={'arg1': '8'}, post=post, outptrs={1: 'end'}))
    import_obligations(rep, 'R-ATOF32', it, run)
    it2 = InterpF(mod)
    it2.havoc_pure_loops(need(mod, 'local_pow'))
    run2 = Run7(it2, [])
    run2.run(f.name, spec7(setup=combine(cstr_params(0), null_param(1))))
    import_obligations(rep, 'R-ATOF32-NOEND', it2, run2)
    if guarded_outptr_rule(rep, 'R-ATOF32', f, fname, 1) == 0:
        raise AnalysisBroken('%s never stores the end pointer' % fname)
    result_sign_rule(rep, f, fname)


def same_root(f, v, target):
    """v is `target` looked at through value conversions"""
    for _ in range(6):
        if v.k != 'inst':
            return False
        if v.id == target.id:
            return True
        i = f.insts[v.id]
        if i.op in ('sitofp', 'uitofp', 'fpext', 'fptrunc', 'sext', 'zext', 'trunc'):
            v = i.ops[0]
        else:
            return False
    return False


def same_float(f, a, b):
    if a.key() == b.key():
        return True
    ia = f.insts[a.id] if a.k == 'inst' else None
    ib = f.insts[b.id] if b.k == 'inst' else None
    if ia is not None and ib is not None and ia.op == ib.op and ia.op in ('uitofp', 'sitofp', 'fpext', 'fptrunc'):
        return same_float(f, ia.ops[0], ib.ops[0])
    return False


