"""helpers shared by the per-property checks"""
import os
from irlib import compile_ir, compile_many, AnalysisBroken, VERIF
from absint import Interp
from contracts import ContractRun, StructSpec, FnSpec, summarize

WIT = os.path.join(VERIF, 'witness')

# representation invariant of struct sline (property C15: 0 <= cursor <= length < capacity,
# capacities >= 2).  cap <= INT_MAX because the API returns sizes as int.
SLINE = StructSpec('struct.sline',
                   inv=['0 <= cursor', 'cursor <= len', 'len + 1 <= cap', 'cap >= 2',
                        'cap <= 2147483647'],
                   owns={'buf': 'cap'})


def witness(name, repo, flags=(), lang=None):
    src = os.path.join(WIT, name)
    if not os.path.exists(src):
        raise AnalysisBroken('witness unit %s missing' % src)
    return compile_ir(src, repo, flags, lang=lang)


def relpath(repo, f):
    f = f or ''
    if f.startswith(repo.rstrip('/') + '/'):
        return f[len(repo.rstrip('/')) + 1:]
    return f


def run_contracts(rep, rule, mod, struct_specs, fnspecs, externals=None, opaque=()):
    """run absint contracts for the given functions; import all obligations
    into the report under 'rule'"""
    it = Interp(mod, externals=externals, opaque=opaque)
    run = ContractRun(it, struct_specs)
    for fname, spec in fnspecs.items():
        run.run(fname, spec)
    obs = summarize(it, run)
    rep.add_absint(rule, obs)
    rep.extra.setdefault('absint', {})
    a = rep.extra['absint']
    a['accesses_checked'] = a.get('accesses_checked', 0) + it.checked
    a['accesses_without_known_extent'] = a.get('accesses_without_known_extent', 0) + it.unchecked
    a['loops_closed_by_invariant'] = a.get('loops_closed_by_invariant', 0) + it.loops_seen
    a['functions_interpreted'] = sorted(set(a.get('functions_interpreted', [])) | it.functions_seen)
    return it, run


def cxx(mod, cls, method, nth=None, param_count=None):
    """mangled name of the instantiated member cls::method (cls given as a
    prefix of the debug-info scope, e.g. 'igris::ring<int'). AnalysisBroken
    if the anchor vanished."""
    c = [f for f in mod.defined() if f.scope.startswith(cls) and
         (f.srcname == method or f.srcname.startswith(method + '<'))]
    if param_count is not None:
        c = [f for f in c if len(f.params) == param_count]
    if not c:
        raise AnalysisBroken('member %s::%s not instantiated in %s (anchor vanished or witness out of date)'
                             % (cls, method, mod.path))
    c.sort(key=lambda f: f.name)
    if nth is not None:
        return c[nth].name
    if len(c) > 1:
        # const / non-const twins etc: caller must disambiguate
        raise AnalysisBroken('member %s::%s is ambiguous in %s: %s' % (cls, method, mod.path, [f.name for f in c]))
    return c[0].name


def fn_named(mod, srcname):
    c = [f for f in mod.defined() if f.srcname == srcname]
    if len(c) != 1:
        raise AnalysisBroken('function %s: %d definitions in %s' % (srcname, len(c), mod.path))
    return c[0].name
