"""helpers shared by the per-property checks"""
import os
from irlib import compile_ir, compile_many, AnalysisBroken, VERIF
from absint import Interp, ext_strmcrc8
from contracts import ContractRun, StructSpec, FnSpec, summarize

WIT = os.path.join(VERIF, 'witness')

# representation invariant of struct sline (property C15: 0 <= cursor <= length < capacity,
# capacities >= 2).  cap <= INT_MAX because the API returns sizes as int.
SLINE = StructSpec('struct.sline',
                   inv=['0 <= cursor', 'cursor <= len', 'len + 1 <= cap', 'cap >= 2',
                        'cap <= 2147483647'],
                   owns={'buf': 'cap'})


def witness(name, repo, flags=(), lang=None, **kw):
    src = os.path.join(WIT, name)
    if not os.path.exists(src):
        raise AnalysisBroken('witness unit %s missing' % src)
    return compile_ir(src, repo, flags, lang=lang, **kw)


def relpath(repo, f):
    f = f or ''
    if f.startswith(repo.rstrip('/') + '/'):
        return f[len(repo.rstrip('/')) + 1:]
    return f


def run_contracts(rep, rule, mod, struct_specs, fnspecs, externals=None, opaque=()):
    """run absint contracts for the given functions; import all obligations
    into the report under 'rule'"""
    it = Interp(mod, externals=externals, opaque=opaque)
    run = ContractRun(it, struct_specs)
    for fname, spec in fnspecs.items():
        run.run(fname, spec)
    obs = summarize(it, run)
    rep.add_absint(rule, obs)
    rep.extra.setdefault('absint', {})
    a = rep.extra['absint']
    a['accesses_checked'] = a.get('accesses_checked', 0) + it.checked
    a['accesses_without_known_extent'] = a.get('accesses_without_known_extent', 0) + it.unchecked
    a['loops_closed_by_invariant'] = a.get('loops_closed_by_invariant', 0) + it.loops_seen
    a['functions_interpreted'] = sorted(set(a.get('functions_interpreted', [])) | it.functions_seen)
    return it, run


def cxx(mod, cls, method, nth=None, param_count=None):
    """mangled name of the instantiated member cls::method (cls given as a
    prefix of the debug-info scope, e.g. 'igris::ring<int'). AnalysisBroken
    if the anchor vanished."""
    c = [f for f in mod.defined() if f.scope.startswith(cls) and
         (f.srcname == method or f.srcname.startswith(method + '<'))]
    if param_count is not None:
        c = [f for f in c if len(f.params) == param_count]
    if not c:
        raise AnalysisBroken('member %s::%s not instantiated in %s (anchor vanished or witness out of date)'
                             % (cls, method, mod.path))
    c.sort(key=lambda f: f.name)
    if nth is not None:
        return c[nth].name
    if len(c) > 1:
        # const / non-const twins etc: caller must disambiguate
        raise AnalysisBroken('member %s::%s is ambiguous in %s: %s' % (cls, method, mod.path, [f.name for f in c]))
    return c[0].name


def fn_named(mod, srcname):
    c = [f for f in mod.defined() if f.srcname == srcname]
    if len(c) != 1:
        raise AnalysisBroken('function %s: %d definitions in %s' % (srcname, len(c), mod.path))
    return c[0].name


def class_methods(mod, scope_prefix):
    """instantiated member functions of a class (debug-info scope prefix,
    e.g. 'igris::static_vector<int, 4')"""
    return sorted([f for f in mod.defined() if f.scope.startswith(scope_prefix)], key=lambda f: f.name)


def base_name(f):
    n = f.srcname
    if n.startswith('operator'):
        return n
    return n.split('<', 1)[0]


def run_class(rep, rule, mod, scope_prefix, sspec, table, default=None, externals=None, min_methods=1,
              extra_structs=(), today=None):
    """run every instantiated member of a class under its class contract.
    table: list of (matcher, FnSpec-or-None); matcher is a base name or a
    callable(fn); the first match wins; None skips the member (with reason
    recorded by the caller).  Members without an entry use 'default'."""
    it = Interp(mod, externals=externals)
    run = ContractRun(it, [sspec] + list(extra_structs))
    fns = class_methods(mod, scope_prefix)
    if len(fns) < min_methods:
        raise AnalysisBroken('%s: only %d members instantiated in %s (floor %d)'
                             % (scope_prefix, len(fns), mod.path, min_methods))
    used = 0
    skipped = []
    for f in fns:
        spec = default
        for (m, sp) in table:
            if (callable(m) and m(f)) or (not callable(m) and base_name(f) == m):
                spec = sp
                break
        if today is not None and base_name(f) not in today and \
                any(c.callee == f.name for g in fns if g is not f for c in g.calls()):
            # a member that did not exist when the contracts were written and that other members call: a helper split off by
            # a refactoring.  It is entered in states its callers establish (possibly with the class invariant suspended),
            # not in every state of the class, and is analysed in its callers' contexts.
            skipped.append(f.qualname)
            continue
        if spec is None:
            skipped.append(f.qualname)
            continue
        import copy
        spec = copy.copy(spec)
        st = dict(spec.structs or {})
        for p in f.params:
            if p['ty']['k'] == 'ptr':
                from irlib import tyname
                if p['name'] in ('this', 'other', 'oth') or tyname(p['ty']['elem']) == sspec.name:
                    pass
        # bind the class contract to every parameter of the class type
        this_ty = None
        for p in f.params:
            if p['name'] == 'this':
                this_ty = p['ty']['elem']
        for p in f.params:
            if p['ty']['k'] == 'ptr' and this_ty is not None and p['ty']['elem'] == this_ty:
                st.setdefault(p['name'], sspec)
        spec.structs = st
        run.run(f.name, spec, fn=f)
        used += 1
    obs = summarize(it, run)
    # report under demangled-ish names
    def nice(n):
        fobj = mod.fn(n)
        if fobj is not None and fobj.srcname:
            return fobj.qualname + sig_suffix(fobj)
        return n
    for o in obs:
        stack = o.get('call_stack') or []
        if stack:
            o['root'] = nice(stack[0].split('@')[0])
            o['leaf'] = nice(o['function'])
            if o['root'] == o['leaf']:
                o['function'] = o['root']
        else:
            o['function'] = nice(o['function'])
    rep.add_absint(rule, obs)
    a = rep.extra.setdefault('absint', {})
    a['accesses_checked'] = a.get('accesses_checked', 0) + it.checked
    a['accesses_without_known_extent'] = a.get('accesses_without_known_extent', 0) + it.unchecked
    a['loops_closed_by_invariant'] = a.get('loops_closed_by_invariant', 0) + it.loops_seen
    a['functions_interpreted'] = sorted(set(a.get('functions_interpreted', [])) | it.functions_seen)
    a.setdefault('members_skipped', []).extend(skipped)
    return it, run, used


def sig_suffix(f):
    """short stable disambiguator for overloads: parameter type list"""
    ps = [p['ty']['s'] for p in f.params if p['name'] != 'this']
    return '(' + ','.join(ps) + ')' + (' const' if f.name.startswith('_ZNK') else '')


# igris_strmcrc8 is summarised (one byte read+written at *crc) wherever the CRC
# value itself is irrelevant; its arithmetic is the subject of C17
CRC_EXT = {'igris_strmcrc8': ext_strmcrc8, '_ZL14igris_strmcrc8Phc': ext_strmcrc8}
CRC_OPAQUE = set(CRC_EXT)


def cstr_params(*names, extra=0, maxlen=1 << 30):
    """FnSpec.setup: the named pointer parameters point to NUL-terminated strings of symbolic length
    len_<name> (object size len+1+extra); binds len_<name> in the contract environment"""
    from absval import PtrVal
    from lin import Lin

    def setup(run, st, env, pnames, args, sps):
        for nm in names:
            i = nm if isinstance(nm, int) else pnames.index(nm)
            nm = 'arg%d' % i if isinstance(nm, int) else nm
            n = st.fresh_int(64, False, 'len_' + nm)
            st.cons.add_le(n.u, maxlen)
            o = st.new_obj('param', n.u + 1 + extra, nm, {'desc': 'C string ' + nm, 'cstr_len': n.u})
            args[i] = PtrVal(o.id, Lin(0))
            env.bind('len_' + nm, n.u)
    return setup


LIBC_FLAGS = ['-fno-builtin', '-D_GNU_SOURCE', '-D__weak_alias(a,b)=']


def libc_unit(repo, rel, **kw):
    """compat/libc sources are hosted against the system headers (the bundled headers are incomplete)"""
    return compile_ir(os.path.join(repo, rel), repo, LIBC_FLAGS, lang='c', **kw)
