"""C01 intrusive lists: shape analysis of every loop-free mutator over all
footprint configurations + traversal rules on the IR."""
import itertools
from common import *
from irlib import demangle1
from shape import *
from absval import PtrVal, IntVal, State, NULL
from lin import Lin


def arg_ptrs(*names):
    def b(st, objs, link_off=None):
        return [PtrVal(objs[n].id, Lin(0)) for n in names]
    return b


def same_ring_cfgs(anchor, x, others=('a', 'b')):
    """x linked in the ring of anchor (every relative position)"""
    return [[r] for r in gen_rings(anchor, [anchor, x], list(others))]


def two_ring_cfgs(anchor, x, others1=('a', 'b'), others2=('c', 'd')):
    out = []
    for r1 in gen_rings(anchor, [anchor], list(others1)):
        for r2 in gen_rings(x, [x], list(others2)):
            out.append([r1, r2])
    return out


def one_ring_cfgs(anchor, others=('a', 'b', 'c')):
    return [[r] for r in gen_rings(anchor, [anchor], list(others))]


def report(rep, rule, runner, min_cfg):
    per = {}
    for r in runner.results:
        per.setdefault(r['function'], []).append(r)
    for f, rs in per.items():
        for r in rs:
            rep.inst(rule, f, 'config:' + r['config'], r['ok'], r['where'], r['detail'])
    if runner.footprint:
        f, cfg, where = runner.footprint[0]
        raise AnalysisBroken('%s touches a node outside the footprint in configuration %s at %s '
                             '(the shape engine only models the arguments and their direct neighbours)'
                             % (f, cfg, where))


def run_c_dlist(rep, mod):
    R = ShapeRunner(mod)

    def F(n):
        f = mod.fn(n)
        if f is None or f.decl:
            raise AnalysisBroken('list primitive %s not found (anchor vanished)' % n)
        return f
    # init
    R.run('dlist_init', F('dlist_init'), arg_ptrs('h'), [], lambda r: dict(rings=[], self=['h']), loose=['h'])
    # add_next / add_prev : lnk fresh
    for cfg in one_ring_cfgs('h'):
        R.run('dlist_add_next', F('dlist_add_next'), arg_ptrs('x', 'h'), cfg,
              lambda r: dict(rings=seq_insert_after(r, 'x', 'h')), loose=['x'])
        R.run('dlist_add_prev', F('dlist_add_prev'), arg_ptrs('x', 'h'), cfg,
              lambda r: dict(rings=seq_insert_before(r, 'x', 'h')), loose=['x'])
    # __dlist_add(lnk, next, prev): prev and next adjacent (or the same single cell)
    R.run('__dlist_add', F('__dlist_add'), arg_ptrs('x', 'p', 'p'), [['p']],
          lambda r: dict(rings=[['p', 'x']]), loose=['x'])
    for ring in gen_rings('p', ['p', 'n'], ['a', 'b']):
        if ring[1] != 'n':
            continue
        R.run('__dlist_add', F('__dlist_add'), arg_ptrs('x', 'n', 'p'), [ring],
              lambda r: dict(rings=seq_insert_after(r, 'x', 'p')), loose=['x'])
    # __dlist_del(prev, next) around a node x
    for ring in gen_rings('x', ['x'], ['a', 'b', 'c']):
        if len(ring) < 2:
            continue
        p, n = ring[-1], ring[1]
        R.run('__dlist_del', F('__dlist_del'), arg_ptrs(p, n), [ring],
              lambda r: dict(rings=seq_remove(r, 'x')))
    # del / del_init
    for ring in gen_rings('x', ['x'], ['a', 'b', 'c']):
        R.run('dlist_del', F('dlist_del'), arg_ptrs('x'), [ring],
              lambda r: dict(rings=seq_remove(r, 'x'), poison=['x']))
        R.run('dlist_del_init', F('dlist_del_init'), arg_ptrs('x'), [ring],
              lambda r: dict(rings=seq_remove(r, 'x'), self=['x']))
    # move / move_tail: x linked anywhere (same ring, other ring, self-linked), x != head
    for cfg in same_ring_cfgs('h', 'x') + two_ring_cfgs('h', 'x'):
        R.run('dlist_move', F('dlist_move'), arg_ptrs('x', 'h'), cfg,
              lambda r: dict(rings=seq_insert_after(seq_remove(r, 'x'), 'x', 'h')))
        R.run('dlist_move_tail', F('dlist_move_tail'), arg_ptrs('x', 'h'), cfg,
              lambda r: dict(rings=seq_insert_before(seq_remove(r, 'x'), 'x', 'h')))
    # insert_instead(iter fresh, instead linked)
    for ring in gen_rings('y', ['y'], ['a', 'b', 'c']):
        R.run('dlist_insert_instead', F('dlist_insert_instead'), arg_ptrs('x', 'y'), [ring],
              lambda r: dict(rings=seq_remove(seq_insert_before(r, 'x', 'y'), 'y'), self=['y']), loose=['x'])
    report(rep, 'R-SHAPE-DLIST', R, 0)
    return R


def run_cxx_dlist(rep, mod):
    R = ShapeRunner(mod)
    N = 'igris::dlist_node'
    B = 'igris::dlist_base'

    def M(cls, name, **kw):
        return mod.fn(cxx(mod, cls, name, **kw))
    R.run(N + '::dlist_node', M(N, 'dlist_node'), arg_ptrs('x'), [], lambda r: dict(rings=[], self=['x']), loose=['x'])
    for ring in gen_rings('x', ['x'], ['a', 'b', 'c']):
        R.run(N + '::unlink', M(N, 'unlink'), arg_ptrs('x'), [ring],
              lambda r: dict(rings=seq_remove(r, 'x'), self=['x']))
        R.run(N + '::~dlist_node', M(N, '~dlist_node'), arg_ptrs('x'), [ring],
              lambda r: dict(rings=seq_remove(r, 'x'), self=['x']))
    for cfg in same_ring_cfgs('a0', 'x', ('a', 'b')) + two_ring_cfgs('a0', 'x'):
        R.run(N + '::move_prev_than', M(N, 'move_prev_than'), arg_ptrs('x', 'a0'), cfg,
              lambda r: dict(rings=seq_insert_before(seq_remove(r, 'x'), 'x', 'a0')))
        R.run(N + '::move_next_than', M(N, 'move_next_than'), arg_ptrs('x', 'a0'), cfg,
              lambda r: dict(rings=seq_insert_after(seq_remove(r, 'x'), 'x', 'a0')))
        R.run(B + '::move_next', M(B, 'move_next'), arg_ptrs('h0', 'x', 'a0'), cfg,
              lambda r: dict(rings=seq_insert_after(seq_remove(r, 'x'), 'x', 'a0')), extra_cells=['h0'])
        R.run(B + '::move_prev', M(B, 'move_prev'), arg_ptrs('h0', 'x', 'a0'), cfg,
              lambda r: dict(rings=seq_insert_before(seq_remove(r, 'x'), 'x', 'a0')), extra_cells=['h0'])
    # a node moved next to ITSELF (the property's histories include it): remove + insert next to a node that is no longer in
    # the list leaves the node detached and self-linked and every ring well-formed
    for ring in gen_rings('x', ['x'], ['a', 'b', 'c']):
        R.run(N + '::move_prev_than(self)', M(N, 'move_prev_than'), arg_ptrs('x', 'x'), [ring],
              lambda r: dict(rings=seq_remove(r, 'x'), self=['x']))
        R.run(N + '::move_next_than(self)', M(N, 'move_next_than'), arg_ptrs('x', 'x'), [ring],
              lambda r: dict(rings=seq_remove(r, 'x'), self=['x']))
    for cfg in same_ring_cfgs('h', 'x') + two_ring_cfgs('h', 'x'):
        R.run(B + '::move_front', M(B, 'move_front'), arg_ptrs('h', 'x'), cfg,
              lambda r: dict(rings=seq_insert_after(seq_remove(r, 'x'), 'x', 'h')))
        R.run(B + '::move_back', M(B, 'move_back'), arg_ptrs('h', 'x'), cfg,
              lambda r: dict(rings=seq_insert_before(seq_remove(r, 'x'), 'x', 'h')))
        R.run(B + '::pop_node', M(B, 'pop_node'), arg_ptrs('h', 'x'), cfg,
              lambda r: dict(rings=seq_remove(r, 'x'), self=['x']))
    # pop_front / pop_back on every list shape (the first/last element must be explicit)
    for ring in gen_rings('h', ['h'], ['a', 'b', 'c']):
        if len(ring) == 1:
            R.run(B + '::pop_front', M(B, 'pop_front'), arg_ptrs('h'), [ring], lambda r: dict(rings=r, self=['h']))
            R.run(B + '::pop_back', M(B, 'pop_back'), arg_ptrs('h'), [ring], lambda r: dict(rings=r, self=['h']))
            continue
        first, last = ring[1], ring[-1]
        n = len(ring)
        if not is_gap(first) and not is_gap(ring[2 % n]):
            R.run(B + '::pop_front', M(B, 'pop_front'), arg_ptrs('h'), [ring],
                  lambda r, f=first: dict(rings=seq_remove(r, f), self=[f]))
        if not is_gap(last) and not is_gap(ring[(n - 2) % n]):
            R.run(B + '::pop_back', M(B, 'pop_back'), arg_ptrs('h'), [ring],
                  lambda r, l=last: dict(rings=seq_remove(r, l), self=[l]))
    # whole-list splice: this list (any shape) takes all nodes of the other list (any shape, incl. empty)
    for r1 in gen_rings('h', ['h'], ['a', 'b']):
        for r2 in gen_rings('o', ['o'], ['c', 'd']):
            def spec(r, r1=r1, r2=r2):
                rr = tag_gaps([r1, r2])
                orphan = [t for t in rr[0] if t != 'h']
                taken = ['h' if t == 'o' else t for t in rr[1]]
                out = [taken]
                if orphan:
                    out.append(orphan)
                return dict(rings=out, self=['o'])
            R.run(B + '::unlink_and_move_all_nodes_from_other', M(B, 'unlink_and_move_all_nodes_from_other'),
                  arg_ptrs('h', 'o'), [r1, r2], spec)
    # destructor / clear: every node ends up self-linked, the list empty (explicit rings only)
    for n in range(0, 4):
        ring = ['h'] + ['a', 'b', 'c'][:n]
        R.run(B + '::~dlist_base', M(B, '~dlist_base'), arg_ptrs('h'), [ring],
              lambda r: dict(rings=[], self=list(r[0])))
    report(rep, 'R-SHAPE-DLISTXX', R, 0)
    return R


def run_typed_dlist(rep, mod):
    """igris::dlist<VItem,&VItem::lnk>: the typed front end must hand the member address to the base"""
    fl = {f['name']: f for f in mod.flat_fields('struct.VItem')}
    st = mod.structs.get('struct.VItem')
    if st is None or 'lnk.next' not in fl:
        raise AnalysisBroken('struct VItem layout not found in witness')
    off = fl['lnk.next']['off']
    size = st['size']
    R = ShapeRunner(mod)
    L = 'igris::dlist<VItem'
    lo = {'x': off, 'y': off}
    cs = {'x': size, 'y': size}

    def M(name, **kw):
        return mod.fn(cxx(mod, L, name, **kw))

    def items(*names):
        def b(st_, objs):
            return [PtrVal(objs[n].id, Lin(0)) for n in names]
        return b
    for cfg in same_ring_cfgs('h', 'x') + two_ring_cfgs('h', 'x'):
        R.run('dlist<T>::move_front', M('move_front'), items('h', 'x'), cfg,
              lambda r: dict(rings=seq_insert_after(seq_remove(r, 'x'), 'x', 'h')), cell_sizes=cs, link_off=lo)
        R.run('dlist<T>::move_back', M('move_back'), items('h', 'x'), cfg,
              lambda r: dict(rings=seq_insert_before(seq_remove(r, 'x'), 'x', 'h')), cell_sizes=cs, link_off=lo)
        R.run('dlist<T>::pop', M('pop'), items('h', 'x'), cfg,
              lambda r: dict(rings=seq_remove(r, 'x'), self=['x']), cell_sizes=cs, link_off=lo)
    mv_next = sorted([f for f in class_methods(mod, L) if base_name(f) == 'move_next'], key=lambda f: f.name)
    mv_prev = sorted([f for f in class_methods(mod, L) if base_name(f) == 'move_prev'], key=lambda f: f.name)
    for fs, ins, nm in ((mv_next, seq_insert_after, 'move_next'), (mv_prev, seq_insert_before, 'move_prev')):
        for f in fs:
            ptys = [p['ty']['s'] for p in f.params[1:]]
            if len(ptys) != 2:
                continue
            if ptys[1] == '%struct.VItem*':
                kind = 'item'
            elif 'dlist_node' in ptys[1]:
                kind = 'node'
            elif 'iterator' in ptys[1]:
                kind = 'iter'      # iterator passed by value (indirectly): an object of its own holding the node pointer
            else:
                continue
            for cfg in same_ring_cfgs('y', 'x', ('a', 'b')) + two_ring_cfgs('y', 'x'):
                def args(st_, objs, kind=kind):
                    a = [PtrVal(objs['h0'].id, Lin(0)), PtrVal(objs['x'].id, Lin(0))]
                    if kind == 'iter':
                        io = st_.new_obj('param', Lin(8), 'iterator', {'desc': 'iterator argument (by value)'})
                        st_.mem[(io.id, 0, 8)] = PtrVal(objs['y'].id, Lin(off))
                        a.append(PtrVal(io.id, Lin(0)))
                    else:
                        a.append(PtrVal(objs['y'].id, Lin(0 if kind == 'item' else off)))
                    return a
                def deref_hook(interp, st_, i, callee, a):
                    # iterator::operator*(): the element that contains the node the iterator points at (member_container is
                    # pointer arithmetic through an integer; summarised by its definition)
                    if callee and 'iterator' in demangle1(callee) and 'operator*' in demangle1(callee) and a and \
                            isinstance(a[0], PtrVal):
                        node = st_.mem.get((a[0].obj, a[0].off.c if a[0].off.is_const() else None, 8))
                        if isinstance(node, PtrVal) and node.obj is not None:
                            return [(st_, PtrVal(node.obj, node.off - off))]
                    return None
                R.run('dlist<T>::%s(%s)' % (nm, kind), f, args, cfg,
                      lambda r, ins=ins: dict(rings=ins(seq_remove(r, 'x'), 'x', 'y')),
                      extra_cells=['h0'], cell_sizes=cs, link_off=lo, call_hook=deref_hook if kind == 'iter' else None)
    for n in range(0, 4):
        ring = ['h'] + ['a', 'b', 'c'][:n]
        R.run('dlist<T>::clear', M('clear'), items('h'), [ring], lambda r: dict(rings=[], self=list(r[0])))
    report(rep, 'R-SHAPE-DLISTXX', R, 0)
    return R


def run_slist(rep, modc, modx):
    R = ShapeRunner(modc, cell_size=8, fields=(NEXT,))

    def F(n):
        f = modc.fn(n)
        if f is None or f.decl:
            raise AnalysisBroken('list primitive %s not found' % n)
        return f
    R.run('slist_init', F('slist_init'), arg_ptrs('h'), [], lambda r: dict(rings=[], self=['h']), loose=['h'])
    for cfg in one_ring_cfgs('h'):
        R.run('slist_add', F('slist_add'), arg_ptrs('x', 'h'), cfg,
              lambda r: dict(rings=seq_insert_after(r, 'x', 'h')), loose=['x'])
    for ring in gen_rings('h', ['h'], ['a', 'b', 'c']):
        if len(ring) == 1:
            R.run('slist_pop_first', F('slist_pop_first'), arg_ptrs('h'), [ring], lambda r: dict(rings=r),
                  ret_check=lambda T, rv, objs, it: None if (isinstance(rv, PtrVal) and rv.is_null)
                  else 'pop from an empty list must return NULL')
            continue
        first = ring[1]
        if is_gap(first) or is_gap(ring[2 % len(ring)]):
            continue
        R.run('slist_pop_first', F('slist_pop_first'), arg_ptrs('h'), [ring],
              lambda r, f=first: dict(rings=seq_remove(r, f)),
              ret_check=lambda T, rv, objs, it, f=first: None if (isinstance(rv, PtrVal) and rv.obj == objs[f].id)
              else 'pop must return the first element')
    report(rep, 'R-SHAPE-SLIST', R, 0)
    # typed slist
    fl = {f['name']: f for f in modx.flat_fields('struct.VItem')}
    off = fl['slnk.next']['off'] if 'slnk.next' in fl else None
    if off is None:
        raise AnalysisBroken('VItem::slnk not found')
    size = modx.structs['struct.VItem']['size']
    R2 = ShapeRunner(modx, cell_size=8, fields=(NEXT,))
    S = 'igris::slist<VItem'
    for cfg in one_ring_cfgs('h'):
        for nm in ('add_first', 'move_front'):
            R2.run('slist<T>::' + nm, modx.fn(cxx(modx, S, nm)), arg_ptrs('h', 'x'), cfg,
                   lambda r: dict(rings=seq_insert_after(r, 'x', 'h')), loose=['x'],
                   cell_sizes={'x': size}, link_off={'x': off})
    R2.run('slist<T>::slist', modx.fn(cxx(modx, S, 'slist')), arg_ptrs('h'), [], lambda r: dict(rings=[], self=['h']),
           loose=['h'])
    report(rep, 'R-SHAPE-SLIST', R2, 0)
    return R.configs + R2.configs


def run_hlist(rep, mod):
    """hlist: head{first} -> n1{next,pprev} -> n2 ... -> NULL ; pprev points at the previous 'next' slot"""
    from absint import Interp
    cases = 0

    def build(chain, extra=(), tail_gap=False):
        st = State()
        objs = {'head': st.new_obj('param', Lin(8), 'head', {'desc': 'hlist head'})}
        for c in list(chain) + list(extra):
            objs[c] = st.new_obj('param', Lin(16), 'node_' + c, {'desc': 'hlist node ' + c})
        gap = None
        if tail_gap:
            gap = st.new_obj('param', Lin(0), 'opaque_tail', {'desc': 'opaque node(s) outside the footprint'})
        wire(st, objs, chain, gap)
        return st, objs, gap

    def wire(st, objs, chain, gap):
        prev_slot = (objs['head'].id, 0)
        for c in chain:
            st.mem[(prev_slot[0], prev_slot[1], 8)] = PtrVal(objs[c].id, Lin(0))
            st.mem[(objs[c].id, 8, 8)] = PtrVal(prev_slot[0], Lin(prev_slot[1]))
            prev_slot = (objs[c].id, 0)
        st.mem[(prev_slot[0], prev_slot[1], 8)] = PtrVal(gap.id, Lin(0)) if gap is not None else NULL

    def check(fname, f, T, objs, chain, gap, cfg, untouched_tail=True):
        exp = State()
        exp.objs = T.objs
        wire(exp, objs, chain, gap)
        ok = True
        detail = None
        for k, w in exp.mem.items():
            v = T.mem.get(k)
            good = isinstance(v, PtrVal) and ((v.obj is None and w.obj is None) or
                                              (v.obj == w.obj and v.off == w.off))
            if not good:
                ok = False
                detail = 'configuration %s: slot %s holds %r, the list model requires %r' % (cfg, k, v, w)
                break
        rep.inst('R-SHAPE-HLIST', fname, 'config:' + cfg, ok, '%s:%d' % (f.file, f.line), detail)

    def fn(n):
        f = mod.fn(n)
        if f is None or f.decl:
            raise AnalysisBroken('hlist primitive %s not found' % n)
        return f
    add, dele = fn('hlist_add_next'), fn('hlist_del')
    names = ['a', 'b', 'c']
    for n in range(0, 4):
        for tg in (False, True):
            chain = names[:n]
            # insert x at every slot: head.first or after the i-th node
            for pos in range(0, n + 1):
                if tg and pos == n and n > 0:
                    # inserting after the last explicit node touches the opaque successor's pprev
                    continue
                if tg and n == 0:
                    continue
                st, objs, gap = build(chain, extra=['x'], tail_gap=tg)
                slot = PtrVal(objs['head'].id, Lin(0)) if pos == 0 else PtrVal(objs[chain[pos - 1]].id, Lin(0))
                it = Interp(mod)
                rets = it.run_function(add, st, [PtrVal(objs['x'].id, Lin(0)), slot])
                cases += 1
                cfg = 'head->%s%s insert x at slot %d' % ('->'.join(chain), '->..' if tg else '', pos)
                for (T, rv) in rets:
                    check('hlist_add_next', add, T, objs, chain[:pos] + ['x'] + chain[pos:], gap, cfg)
            for i in range(n):
                if tg and i == n - 1:
                    continue
                st, objs, gap = build(chain, tail_gap=tg)
                it = Interp(mod)
                rets = it.run_function(dele, st, [PtrVal(objs[chain[i]].id, Lin(0))])
                cases += 1
                cfg = 'head->%s%s delete %s' % ('->'.join(chain), '->..' if tg else '', chain[i])
                for (T, rv) in rets:
                    check('hlist_del', dele, T, objs, chain[:i] + chain[i + 1:], gap, cfg)
    # deleting an initialised, never linked node is a no-op
    st, objs, gap = build(['a'], extra=['x'])
    st.mem[(objs['x'].id, 8, 8)] = NULL
    it = Interp(mod)
    for (T, rv) in it.run_function(dele, st, [PtrVal(objs['x'].id, Lin(0))]):
        check('hlist_del', dele, T, objs, ['a'], None, 'head->a delete unlinked x')
    cases += 1
    return cases


# ---------------------------------------------------------------------------
# traversal rules (IR): the cursor advances through exactly the expected link
# ---------------------------------------------------------------------------
def trace_const(fn, v):
    """follow bitcast / constant-offset GEP / ptrtoint-add chains: returns (root value, const byte offset)"""
    off = 0
    seen = 0
    while v.k == 'inst' and seen < 40:
        seen += 1
        i = fn.insts[v.id]
        if i.op in ('bitcast', 'addrspacecast'):
            v = i.ops[0]
        elif i.op == 'getelementptr':
            d = 0
            okc = True
            for s in i.d['gep']['steps']:
                if s['k'] == 'field':
                    d += s['off']
                else:
                    iv = s['v']
                    if iv['k'] != 'ci':
                        okc = False
                        break
                    d += s['stride'] * iv['v']
            if not okc:
                break
            off += d
            v = i.ops[0]
        else:
            break
    return v, off


def traversal_rule(rep, mod, fname, expect_off, link_member_off=0, fn=None, what=''):
    """some header phi Q of a loop is advanced by  Q' = *(Q + expect_off [+member]) [- member]"""
    f = fn or mod.fn(fname)
    if f is None or f.decl:
        raise AnalysisBroken('traversal function %s not found' % fname)
    name = f.qualname if f.scope else f.name
    if not f.loops:
        raise AnalysisBroken('%s has no loop (anchor changed?)' % name)
    found = []
    for L in f.loops:
        hdr = L['header']
        for ph in hdr.insts:
            if ph.op != 'phi' or ph.ty.get('k') != 'ptr':
                continue
            for (bb, v) in ph.incoming:
                if f.bmap[bb] not in L['blocks']:
                    continue
                root, adj = trace_const(f, v)
                if root.k != 'inst' or f.insts[root.id].op != 'load':
                    continue
                ld = f.insts[root.id]
                base, d = trace_const(f, ld.ops[0])
                if base.k == 'inst' and base.id == ph.id:
                    found.append((ph, d + adj + 0, d, adj, ld))
    ok = False
    detail = None
    if not found:
        detail = 'no loop cursor of the form q = q->link found'
    for (ph, tot, d, adj, ld) in found:
        # d = member offset + link field offset ; adj = -(member offset)
        if d + adj == expect_off:
            ok = True
    if found and not ok:
        ph, tot, d, adj, ld = found[0]
        detail = ('cursor %s is advanced through the link field at offset %d, expected %d (%s)'
                  % (ph.name or ph.id, d + adj, expect_off, what))
    rep.inst('R-ITER', name, 'cursor-advance:%s' % what, ok, '%s:%d' % (f.file, f.line), detail,
             fact={'link_field_offset': expect_off})
    # exit test compares the cursor (or its member address) with the head argument
    ok2 = False
    for L in f.loops:
        for (b, s) in L['exits']:
            t = b.term
            if t.op != 'br' or 'f' not in t.d:
                continue
            c = t.ops[0]
            if c.k != 'inst':
                continue
            ci = f.insts[c.id]
            if ci.op != 'icmp' or ci.pred not in ('eq', 'ne'):
                continue
            roots = [trace_const(f, o)[0] for o in ci.ops]
            kinds = set()
            for r in roots:
                if r.k == 'arg':
                    kinds.add('arg')
                elif r.k == 'inst' and f.insts[r.id].op == 'phi':
                    kinds.add('phi')
                elif r.k == 'null':
                    kinds.add('null')
                elif r.k == 'inst' and f.insts[r.id].op == 'load':
                    kinds.add('load')
            if ('arg' in kinds or 'null' in kinds) and ('phi' in kinds or 'load' in kinds):
                ok2 = True
    rep.inst('R-ITER', name, 'terminates-at-head', ok2, '%s:%d' % (f.file, f.line),
             None if ok2 else 'no loop exit compares the cursor with the list head (or NULL for hlist)')


def iterator_rule(rep, mod):
    """operator++/-- of dlist<T>::iterator and reverse_iterator: current = current->next / ->prev"""
    from absint import Interp
    L = 'igris::dlist<VItem'
    n = 0
    for f in class_methods(mod, L):
        q = f.qualname
        if 'iterator::operator++' not in q and 'iterator::operator--' not in q:
            continue
        rev = 'reverse_iterator' in q
        inc = 'operator++' in q
        forward = (inc != rev)
        R = ShapeRunner(mod)
        st, objs, gaps, rings = R.build([['a', 'b', 'c']])
        it = Interp(mod)
        ito = st.new_obj('param', Lin(8), 'iter', {'desc': 'iterator object'})
        st.mem[(ito.id, 0, 8)] = PtrVal(objs['b'].id, Lin(0))
        args = []
        for p in f.params:
            if p.get('sret'):
                r = st.new_obj('param', Lin(8), 'result')
                args.append(PtrVal(r.id, Lin(0)))
            elif p['name'] == 'this':
                args.append(PtrVal(ito.id, Lin(0)))
            else:
                args.append(mk_int(p))
        rets = it.run_function(f, st, args)
        want = 'c' if forward else 'a'
        ok = bool(rets)
        detail = None
        for (T, rv) in rets:
            v = T.mem.get((ito.id, 0, 8))
            if not (isinstance(v, PtrVal) and v.obj == objs[want].id):
                ok = False
                detail = 'iterator at b in ring (a b c) moves to %r, expected &%s' % (v, want)
        rep.inst('R-ITER', q + sig_suffix(f), 'iterator-step:%s' % ('next' if forward else 'prev'), ok,
                 '%s:%d' % (f.file, f.line), detail)
        n += 1
    return n


def mk_int(p):
    from absval import mk_const
    return mk_const(p['ty'].get('bits', 32), 0)


def nocopy_witness(rep, repo):
    """R-NOCOPY: dlist_node is neither copy constructible nor copy assignable (compile-time witness)"""
    import subprocess, tempfile, os
    src = os.path.join(WIT, 'static_lists.cpp')
    r = subprocess.run(['clang++', '-std=gnu++20', '-fsyntax-only', '-I' + repo, src], capture_output=True, text=True)
    rep.inst('R-NOCOPY', 'igris::dlist_node', 'static_assert:not-copyable', r.returncode == 0,
             'igris/container/dlist.h', None if r.returncode == 0 else r.stderr[-600:])


def run(rep, repo, tier):
    rep.explanation = (
        'Shape analysis: the IR of every loop-free list mutator (C dlist, C++ dlist_node/dlist_base/dlist<T>, slist, '
        'hlist) is interpreted on every footprint configuration - all aliasings of the arguments and their neighbours, '
        'rings of 1..n explicit cells with opaque gaps standing for arbitrarily many further nodes - and the resulting '
        'pointer graph is compared with the ring sequences produced by an independent sequence-rewrite model '
        '(insert before/after, remove, move = remove+insert, splice, self-link, poison). Touching a node outside the '
        'footprint is reported. Traversal macros/iterators are checked to advance through exactly next (forward) / prev '
        '(reverse) and to stop at the head. Equality with a reference list over whole histories follows from these '
        'per-operation verdicts by the frame argument, which is not mechanised.')
    rep.assumptions += ['moving a C++ node next to itself is defined as remove + insert (the node ends detached); a C node is never its own anchor',
                        'dlist_add_* is applied to a node that is not linked (C API contract)',
                        'destructor/clear loops analysed on explicit rings of up to 3 elements']
    modc = witness('w_lists.c', repo)
    modx = witness('w_dlistxx.cpp', repo)
    rep.units += ['witness/w_lists.c -> igris/datastruct/dlist.h, slist.h, hlist.h',
                  'witness/w_dlistxx.cpp -> igris/container/dlist.h, dlist.cpp (via igris/container/dlist.cpp), slist.h']
    # dlist_node::unlink lives in container/dlist.cpp: link it into the witness unit by inclusion
    r1 = run_c_dlist(rep, modc)
    r2 = run_cxx_dlist(rep, modx)
    r3 = run_typed_dlist(rep, modx)
    n4 = run_slist(rep, modc, modx)
    n5 = run_hlist(rep, modc)
    FWD, REV = 0, 8
    for nm, off, what in (
            ('dlist_in', FWD, 'next'), ('dlist_size', FWD, 'next'), ('dlist_check', FWD, 'next'),
            ('dlist_check_reversed', REV, 'prev'),
            ('igris_verif_dlist_for_each', FWD, 'next'), ('igris_verif_dlist_for_each_reverse', REV, 'prev'),
            ('igris_verif_dlist_for_each_safe', FWD, 'next'),
            ('igris_verif_dlist_for_each_entry', FWD, 'next'),
            ('igris_verif_dlist_for_each_entry_reverse', REV, 'prev'),
            ('igris_verif_dlist_for_each_entry_safe', FWD, 'next'),
            ('igris_verif_dlist_move_sorted', FWD, 'next'),
            ('slist_size', FWD, 'next'), ('slist_in', FWD, 'next'), ('igris_verif_slist_for_each_entry', FWD, 'next'),
            ('igris_verif_hlist_for_each', FWD, 'next')):
        traversal_rule(rep, modc, nm, off, what=what)
    traversal_rule(rep, modx, None, FWD, fn=modx.fn(cxx(modx, 'igris::dlist_node', 'circular_size')), what='next')
    traversal_rule(rep, modx, None, REV, fn=modx.fn(cxx(modx, 'igris::dlist_node', 'reverse_circular_size')), what='prev')
    iterator_rule(rep, modx)
    nocopy_witness(rep, repo)
    rep.extra['shape'] = {'configurations': r1.configs + r2.configs + r3.configs + n4 + n5}
    rep.floor('R-SHAPE-DLIST', 90)
    rep.floor('R-SHAPE-DLISTXX', 250)
    rep.floor('R-SHAPE-SLIST', 12)
    rep.floor('R-SHAPE-HLIST', 12)
    rep.floor('R-ITER', 30)
