"""C07 integer <-> text: renderers (igris_*toa, itoa/utoa/ltoa/ultoa, debug_print dec/hex/bin), parsers
(igris_ato*, atol/atoi), their width wrappers and vt100_left."""
from c07_common import *
from c01 import trace_const
from irlib import keep_all_but_new_helpers, UNROLL_PASSES, UNROLL_ARGS

IGRIS_CORES = [('igris_i64toa', True), ('igris_u64toa', False)]
LIBC_CORES = [('itoa', True), ('utoa', False), ('ltoa', True), ('ultoa', False)]
TOA_WRAPPERS = [('igris_i32toa', 'igris_i64toa'), ('igris_i16toa', 'igris_i64toa'), ('igris_i8toa', 'igris_i64toa'),
                ('igris_u32toa', 'igris_u64toa'), ('igris_u16toa', 'igris_u64toa'), ('igris_u8toa', 'igris_u64toa')]
ATO_WRAPPERS = [('igris_atou16', 'igris_atou32'), ('igris_atou8', 'igris_atou32'),
                ('igris_atoi16', 'igris_atoi32'), ('igris_atoi8', 'igris_atoi32')]


# ----------------------------------------------------------------------------------------------
# renderers: abstract interpretation of the buffer layout
# ----------------------------------------------------------------------------------------------
def render_check(rep, mod, fname, signed, ret_at_end, alphabets):
    """R-RENDER / R-DIGITCHAR / R-BASERANGE for one `char *xtoa(value, buf, base)` core"""
    f = need(mod, fname)
    D = the_divloop(f)
    L = D['loop']
    rem = D['rems'][0] if D['rems'] else None
    if rem is None:
        raise AnalysisBroken('%s: digit loop computes no remainder' % fname)
    dstores = set(i.id for b in L['blocks'] for i in b.insts if i.op == 'store' and depends_on(f, i.ops[0], rem))
    rstores = {}
    for L2 in f.loops:
        if L2 is L:
            continue
        for b in L2['blocks']:
            ss = [i for i in b.insts if i.op == 'store']
            for i in ss:
                rstores[i.id] = ss
    if not dstores or not rstores:
        raise AnalysisBroken('%s: digit store / reversal loop not found (anchor changed)' % fname)
    it = Interp7(mod)
    sink = Sink(rep, it)
    buf = {}

    def setup(run, st, env, names, args, sps):
        buf['id'] = args[1].obj
        buf['num'] = args[0]
        buf['base'] = args[2]
        st.ghost['nminus'] = 0
        st.ghost['nstores'] = 0
        st.ghost['nul_off'] = Lin(-1)

    def sign_len(st):
        return 1 if st.ghost.get('nminus') else 0

    def store_hook(interp, st, i, p, v):
        if not isinstance(p, PtrVal) or p.obj != buf.get('id') or i.fn is not f:
            return
        g = st.ghost
        g['nstores'] = g.get('nstores', 0) + 1
        w = i.where()
        c = v.const() if isinstance(v, IntVal) else None
        if i.id in dstores:
            r = st.env.get(('i', rem.id))
            rl = (st.as_u(r) if st.as_u(r) is not None else st.as_s(r)) if isinstance(r, IntVal) else None
            if rl is not None and rem.op == 'srem' and st.cons.entails_le(rl, 0):
                rl = -rl        # signed form: on this path the remainder is <= 0 and the digit is its magnitude
            vl = st.force_u(v) if isinstance(v, IntVal) else None
            if rl is None or vl is None:
                sink.inst('R-DIGITCHAR', fname, 'digit character is a function of the remainder', False, w,
                          'stored character or remainder not expressible')
            else:
                for (lo, hi) in ((None, 9), (10, None)):
                    cons = ([(rl, hi)] if hi is not None else []) + ([(lo, rl)] if lo is not None else [])
                    s = feasible(interp, st, cons)
                    if s is None:
                        continue
                    if hi is not None:
                        ok = s.cons.entails_le(0, rl) and s.cons.entails_eq(vl, rl + 48)
                        sink.inst('R-DIGITCHAR', fname, 'remainder 0..9 -> \'0\' + r', ok, w,
                                  'for a remainder r <= 9 the stored character is %r (r = %r), expected 48 + r with '
                                  '0 <= r%s' % (vl, rl, interp.explain(s, [vl, rl])))
                    else:
                        K = [k for k in (87, 55) if s.cons.entails_eq(vl, rl + k)]
                        sink.inst('R-DIGITCHAR', fname, 'remainder 10..35 -> letter', bool(K), w,
                                  'for a remainder r >= 10 the stored character is %r (r = %r): neither \'a\' + r - 10 '
                                  'nor \'A\' + r - 10%s' % (vl, rl, interp.explain(s, [vl, rl])),
                                  fact={'alphabet': {87: 'lower', 55: 'upper'}.get(K[0]) if K else None})
                        if K and interp.recording == 0:
                            alphabets.setdefault(fname, set()).add('a-z' if K[0] == 87 else 'A-Z')
            ok = st.cons.entails_le(sign_len(st), p.off)
            sink.inst('R-RENDER', fname, 'digits-follow-the-sign', ok, w,
                      'digit stored at offset %r, before the end of the sign' % p.off)
            g['digit_off'] = p.off
            return
        if i.id in rstores:
            src_ = i.ops[0]
            li_ = f.insts[src_.id] if src_.k == 'inst' else None
            q_ = interp.val(st, li_.ops[0], f) if (li_ is not None and li_.op == 'load') else None
            if not (isinstance(q_, PtrVal) and q_.obj == p.obj):
                # a loop that fills the buffer from somewhere else (e.g. copies the digits out of a local array) is not the
                # in-place reversal this rule describes: the content of the buffer is decided by c07_roundtrip (R-TEXT)
                buf['foreign_fill'] = w
                return
            lo, hi = Lin(sign_len(st)), g['nul_off'] - 1
            ok = st.cons.entails_le(lo, p.off) and st.cons.entails_le(p.off, hi)
            sink.inst('R-RENDER', fname, 'reversal-stays-inside-the-digits', ok, w,
                      'the reversal writes offset %r, outside the digit range [%r, %r] (sign and terminator must stay '
                      'in place)%s' % (p.off, lo, hi, interp.explain(st, [p.off, hi])))
            src = i.ops[0]
            li = f.insts[src.id] if src.k == 'inst' else None
            ok = False
            det = 'the reversal stores a value that is not read from the buffer'
            if li is not None and li.op == 'load':
                q = interp.val(st, li.ops[0], f)
                if isinstance(q, PtrVal) and q.obj == p.obj:
                    ok = st.cons.entails_eq(p.off + q.off, lo + hi)
                    det = 'the reversal moves the byte at offset %r to offset %r: not mirror images in [%r, %r]' % (
                        q.off, p.off, lo, hi)
                    first = min(s_.idx for s_ in rstores[i.id])
                    if ok and not (li.block is i.block and li.idx < first):
                        ok = False
                        det = 'the swap reads a byte after a store of the same swap may have overwritten it'
            sink.inst('R-RENDER', fname, 'reversal-swaps-mirror-positions', ok, w, det)
            return
        if c == 0:
            if 'digit_off' in g:
                ok = st.cons.entails_eq(p.off, g['digit_off'] + 1)
                sink.inst('R-RENDER', fname, 'terminator-follows-the-last-digit', ok, w,
                          'NUL stored at offset %r, last digit at %r' % (p.off, g['digit_off']))
            else:
                ok = st.cons.entails_eq(p.off, 0)
                sink.inst('R-RENDER', fname, 'buffer-starts-empty', ok, w, 'initial NUL stored at offset %r' % p.off)
            g['nul_off'] = p.off
            return
        if c == 45:
            n = buf['num']
            ns = st.as_s(n) if isinstance(n, IntVal) else None
            ok = signed and ns is not None and st.cons.entails_le(ns, -1) and st.cons.entails_eq(p.off, 0) and \
                'digit_off' not in g
            sink.inst('R-RENDER', fname, 'minus-sign-first-and-only-for-negative-values', ok, w,
                      '\'-\' stored at offset %r for a value %r' % (p.off, ns))
            g['nminus'] = g.get('nminus', 0) + 1
            return
        sink.inst('R-RENDER', fname, 'no-other-stores-into-the-buffer', False, w,
                  'unexpected store of %r at offset %r' % (v, p.off))

    it.store_hook = store_hook

    def room_hook(interp, st, inst, p, size, kind):
        # the caller's text buffer is an object of fewer than 2^31 bytes and large enough for the text (C07 does not state a
        # size): an access at offset o therefore tells o + size <= 2^31, which is what keeps a 32-bit index from wrapping
        if isinstance(p, PtrVal) and p.obj == buf.get('id') and not st.bottom:
            st.cons.add_le(0, p.off)
            st.cons.add_le(p.off + size, 1 << 31)
    it.access_hook = room_hook

    def base_hook(interp, st, i, fn):
        if interp.recording > 0:
            return
        b = interp.val(st, i.ops[1], fn)
        bl = st.as_u(b) if isinstance(b, IntVal) else None
        pb = buf.get('base')
        pl = st.as_u(pb) if isinstance(pb, IntVal) else None
        ok = bl is not None and st.cons.entails_le(2, bl) and st.cons.entails_le(bl, 36)
        sink.inst('R-BASERANGE', fname, 'division only with 2 <= base <= 36', ok, i.where(),
                  'the digit loop can be reached with a base outside 2..36 (divisor %r)%s'
                  % (bl, interp.explain(st, [bl]) if bl is not None else ''))
        ok = bl is not None and pl is not None and st.cons.entails_eq(bl, pl)
        sink.inst('R-BASERANGE', fname, 'divisor is the base parameter', ok, i.where(),
                  'divisor %r differs from the base parameter %r' % (bl, pl))
    it.pre[(f.name, D['div'].id)] = base_hook
    it.pre[(f.name, rem.id)] = base_hook

    ret_ok = ['ret_arg == 1', 'ret_off == ghost_nul_off_post' if ret_at_end else 'ret_off == 0', 'ghost_nul_off_post >= 1']
    refuse = ['ret_arg == 1', 'ret_off == 0', 'ghost_nstores_post == 1', 'ghost_nul_off_post == 0']
    post = [dict(name='valid-base: result points at the %s' % ('terminator' if ret_at_end else 'buffer start'),
                 when=['arg2 >= 2', 'arg2 <= 36'], then=ret_ok),
            dict(name='base<2: empty string, nothing else written', when=['arg2 <= 1'], then=refuse),
            dict(name='base>36: empty string, nothing else written', when=['arg2 >= 37'], then=refuse)]
    if signed:
        post += [dict(name='negative: one minus sign', when=['arg2 >= 2', 'arg2 <= 36', 'arg0 <= -1'],
                      then=['ghost_nminus_post == 1']),
                 dict(name='non-negative: no minus sign', when=['arg2 >= 2', 'arg2 <= 36', 'arg0 >= 0'],
                      then=['ghost_nminus_post == 0'])]
    else:
        post += [dict(name='unsigned: no minus sign', when=['arg2 >= 2', 'arg2 <= 36'], then=['ghost_nminus_post == 0'])]
    run = Run7(it, [])
    run.run(f.name, spec7(setup=setup, post=post))
    if buf.get('foreign_fill'):
        rep.defer_broken('%s: the buffer is filled by a loop that does not reverse it in place (%s): R-RENDER does not apply to this '
                         'form' % (fname, buf['foreign_fill']))
        return
    import_obligations(rep, 'R-RENDER', it, run)


# ----------------------------------------------------------------------------------------------
# parsers
# ----------------------------------------------------------------------------------------------
def parse_check(rep, mod, fname, class_ok):
    """R-PARSE for igris_atou32/atou64: C-string bounds, digit closed forms, digit < base, loop stops
    exactly at the first character that is not a digit of the base, *end is that position"""
    f = need(mod, fname)
    accs = find_accumulators(f)
    if len(accs) != 1:
        raise AnalysisBroken('%s: expected one digit accumulation loop, found %d' % (fname, len(accs)))
    acc = accs[0]
    b = strip(f, acc['base'])
    rep.inst('R-PARSE', fname, 'accumulator-multiplies-by-the-base-parameter', b.k == 'arg' and b.argno == 1, where(f),
             'the accumulator is multiplied by %r, not by the base parameter' % (b,))
    rep.inst('R-PARSE', fname, 'accumulator-has-the-width-of-the-result', acc['phi'].bits == f.ret.get('bits'), where(f),
             'accumulator is %s bits, result %s bits' % (acc['phi'].bits, f.ret.get('bits')))
    for null_end in (False, True):
        it = Interp7(mod)
        sink = Sink(rep, it)
        if not null_end:
            it.pre[(f.name, acc['add'].id)] = digit_class_hook(sink, 'R-PARSE', fname, acc, DIGIT_CLASSES)
        stops = [dict(name='stops only at a non-digit: class %s' % cn,
                      when=['ghost_last_ch_post >= %d' % lo, 'ghost_last_ch_post <= %d' % hi,
                            'ghost_last_ch_post - %d <= arg1 - 1' % K], then=['0 == 1'])
                 for (cn, lo, hi, K) in DIGIT_CLASSES]
        post = []
        if not null_end:
            post += stops + [dict(name='end pointer is the scan position',
                                  then=['ghost_end_set_post == 1', 'ghost_end_arg_post == 0',
                                        'ghost_end_off_post == ghost_last_off_post'])]
        setup = cstr_params(0) if not null_end else combine(cstr_params(0), null_param(2))
        run = Run7(it, [])
        run.run(f.name, spec7(setup=setup, extents={'arg2': '8'}, pre=['arg1 >= 2', 'arg1 <= 36'], post=post,
                              outptrs={} if null_end else {2: 'end'}))
        import_obligations(rep, 'R-PARSE' if not null_end else 'R-PARSE-NOEND', it, run)
        if not null_end:
            for (cn, lo, hi, K) in DIGIT_CLASSES:
                keys = [k for k in sink.seen if k[1] == fname and k[2].startswith('class %s:' % cn)]
                class_ok.setdefault(cn, True)
                if not keys or not all(sink.seen[k] for k in keys):
                    class_ok[cn] = False
                if any(r['function'] == f.name and r['kind'] == 'post' and cn in r['name'] and not r['ok']
                       for r in run.results if isinstance(r, dict)):
                    class_ok[cn] = False


def signed_parse_check(rep, mod, fname, core, bits):
    """R-PSIGN for igris_atoi32/atoi64: a leading '-' is skipped, the unsigned core parses the rest with the same
    base and end pointer, the result is its value, negated iff there was a '-'"""
    f = need(mod, fname)
    it = Interp7(mod)
    H = 1 << (bits - 1)

    def hook(interp, st, i, callee, args):
        if callee != core:
            return None
        g = st.ghost
        g['ncalls'] = g.get('ncalls', 0) + 1
        a0 = args[0]
        if isinstance(a0, PtrVal) and not a0.is_null:
            g['core_off'] = a0.off
            la = getattr(run, 'last_args', [])
            g['core_str'] = 1 if isinstance(la[0], PtrVal) and la[0].obj == a0.obj else 0
            g['core_end'] = 1 if isinstance(args[2], PtrVal) and isinstance(la[2], PtrVal) and \
                args[2].obj == la[2].obj and args[2].off == la[2].off else 0
        if isinstance(args[1], IntVal):
            g['core_base'] = st.force_u(args[1])
        ch = g.get('first_ch')
        g['minus'] = -1
        if ch is not None:
            can_minus = feasible(interp, st, [(45, ch), (ch, 45)]) is not None
            can_other = feasible(interp, st, [(ch, 44)]) is not None or feasible(interp, st, [(46, ch)]) is not None
            if can_minus != can_other:
                g['minus'] = 1 if can_minus else 0
        u = st.fresh_int(bits, False, 'U')
        g['U'] = u.u
        # case split on the magnitude so that the negation is evaluated with a known range
        s2 = st.fork()
        st.cons.add_le(u.u, H - 1)
        s2.cons.add_le(H, u.u)
        return [(st, u), (s2, u)]
    it.call_hook = hook
    fwd = ['ghost_ncalls_post == 1', 'ghost_core_str_post == 1', 'ghost_core_end_post == 1', 'ghost_core_base_post == arg1']
    post = [dict(name='sign test is on the first character', then=['ghost_minus_post >= 0']),
            dict(name='minus: core parses after the sign', when=['ghost_minus_post == 1'],
                 then=fwd + ['ghost_core_off_post == 1']),
            dict(name='no minus: core parses from the start', when=['ghost_minus_post == 0'],
                 then=fwd + ['ghost_core_off_post == 0']),
            dict(name='minus: result is -u', when=['ghost_minus_post == 1', 'ghost_U_post <= %d' % (H - 1)],
                 then=['ret == -ghost_U_post']),
            dict(name='no minus: result is u', when=['ghost_minus_post == 0', 'ghost_U_post <= %d' % (H - 1)],
                 then=['ret == ghost_U_post'])]
    run = Run7(it, [])
    run.run(f.name, spec7(setup=cstr_params(0), extents={'arg2': '8'}, post=post))
    import_obligations(rep, 'R-PSIGN', it, run)


def atol_check(rep, mod):
    """libc atol: C-string bounds under the C-locale isspace/isdigit model, digit closed form, stop rule,
    sign selection, unsigned accumulation"""
    f = need(mod, 'atol')
    accs = find_accumulators(f)
    if len(accs) != 1:
        raise AnalysisBroken('atol: expected one digit accumulation loop, found %d' % len(accs))
    acc = accs[0]
    b = strip(f, acc['base'])
    rep.inst('R-ATOL', 'atol', 'accumulator-multiplies-by-10', b.k == 'ci' and b.ival == 10, where(f),
             'the accumulator is multiplied by %r' % (b,))
    bad = [i for i in (acc['add'], acc['mul']) if i.d.get('nsw')]
    rep.inst('R-NEG', 'atol', 'accumulation-wraps', not bad, bad[0].where() if bad else where(f),
             None if not bad else 'digits are accumulated in the signed result type (overflow undefined): the magnitude '
             'of LONG_MIN does not fit, so "-9223372036854775808" overflows on its last digit')
    cc = carried_char(f, acc['loop'])
    if cc is None:
        raise AnalysisBroken('atol: the digit loop no longer carries the current character as c = *p++ '
                             '(analysis pattern out of date)')
    C, P, loads = cc
    it = Interp7(mod)
    sink = Sink(rep, it)
    it.pre[(f.name, acc['add'].id)] = digit_class_hook(sink, 'R-ATOL', 'atol', acc, DIGIT_CLASSES[:1], char_value=iv(C))
    for ld in loads:
        it.pre[(f.name, ld.id)] = carried_lemma_hook(C)
    ex = acc['loop']['exits']
    if len(ex) != 1:
        raise AnalysisBroken('atol: digit loop has %d exits' % len(ex))

    def stop_hook(interp, st, i, fn):
        if interp.recording > 0:
            return
        c = interp.val(st, iv(C), fn)
        cu = st.force_u(c) if isinstance(c, IntVal) else None
        ok = cu is not None and feasible(interp, st, [(48, cu), (cu, 57)]) is None
        sink.inst('R-ATOL', 'atol', 'stops only at a non-digit', ok, i.where(),
                  'the digit loop can be left although the current character is a digit')
    first = [i for i in ex[0][1].insts if i.op not in ('phi', 'dbg')][0]
    it.pre[(f.name, first.id)] = stop_hook
    run = Run7(it, [])
    run.run(f.name, spec7(setup=cstr_params(0)))
    import_obligations(rep, 'R-ATOL', it, run)
    # sign selection: the result is select(first non-space character == '-', 0 - total, total)
    rets = f.returns()
    ok = False
    det = 'result is not a selection between the accumulated total and its negation'
    if len(rets) == 1 and rets[0].ops:
        v = strip(f, rets[0].ops[0])
        if v.k == 'inst' and f.insts[v.id].op in ('select', 'phi'):
            s = f.insts[v.id]
            vals = s.ops[1:] if s.op == 'select' else s.ops
            tot = [x for x in vals if strip(f, x).k == 'inst' and strip(f, x).id == acc['phi'].id]
            neg = [x for x in vals if x.k == 'inst' and f.insts[x.id].op == 'sub' and
                   f.insts[x.id].ops[0].k == 'ci' and f.insts[x.id].ops[0].ival == 0 and
                   strip(f, f.insts[x.id].ops[1]).k == 'inst' and strip(f, f.insts[x.id].ops[1]).id == acc['phi'].id]
            if len(tot) == 1 and len(neg) == 1 and s.op == 'select':
                c = bool_root(f, s.ops[0])
                ci = f.insts[c.id] if c.k == 'inst' else None
                if ci is not None and ci.op == 'icmp' and ci.pred == 'eq' and s.ops[1].k == 'inst' and \
                        s.ops[1].id == neg[0].id:
                    k = [o for o in ci.ops if o.k == 'ci']
                    x = [strip(f, o) for o in ci.ops if o.k != 'ci']
                    if k and k[0].ival == 45 and x and x[0].k == 'inst' and f.insts[x[0].id].op == 'load':
                        ok = True
                    else:
                        det = 'the negated total is selected by a test that is not "sign character == \'-\'"'
    rep.inst('R-ATOL', 'atol', 'result-negated-iff-sign-character-is-minus', ok, where(f), None if ok else det)


# ----------------------------------------------------------------------------------------------
# debug print renderers
# ----------------------------------------------------------------------------------------------
def ndigits(bits, base):
    n, v = 0, (1 << bits) - 1
    while v:
        v //= base
        n += 1
    return n


def dprint_dec(rep, mod):
    fname = 'debug_printdec_uint64'
    f = need(mod, fname)
    D = skeleton_rule(rep, f, fname, 0, ('const', 10))
    if not D['rems']:
        raise AnalysisBroken('%s: the digit loop computes no remainder (form not recognised)' % fname)
    L, ph, rem = D['loop'], D['phi'], D['rems'][0]
    stores = [i for b in L['blocks'] for i in b.insts if i.op == 'store' and depends_on(f, i.ops[0], rem)]
    if len(stores) != 1:
        raise AnalysisBroken('%s: digit store not found' % fname)
    st0 = stores[0]
    it = Interp7(mod, externals={'debug_putchar': ext_nop, 'debug_print': ext_nop}, opaque=('debug_putchar', 'debug_print'))
    sink = Sink(rep, it)
    N = ndigits(ph.bits, 10)
    info = {}

    def lemma(interp, st, i, fn):
        # division lemma: a loop that divides a w-bit value by 10 until it is zero runs at most N times, and its
        # cursor moves one byte per iteration (both checked by R-SKELETON), so the cursor is at most N bytes from
        # where it started
        p = interp.val(st, i.ops[1], fn)
        if isinstance(p, PtrVal) and 'start' in st.ghost:
            st.cons.add_le(st.ghost['start'] - N, p.off)
            st.cons.add_le(p.off, st.ghost['start'] - 1)
    it.pre[(f.name, st0.id)] = lemma

    def store_hook(interp, st, i, p, v):
        if i.fn is not f or not isinstance(p, PtrVal):
            return
        c = v.const() if isinstance(v, IntVal) else None
        if i.id == st0.id:
            r = st.env.get(('i', rem.id))
            rl = st.as_u(r) if isinstance(r, IntVal) else None
            vl = st.force_u(v) if isinstance(v, IntVal) else None
            ok = rl is not None and vl is not None and st.cons.entails_eq(vl, rl + 48) and st.cons.entails_le(rl, 9)
            sink.inst('R-DIGITCHAR', fname, 'remainder 0..9 -> \'0\' + r', ok, i.where(),
                      'stored character %r for remainder %r' % (vl, rl))
            st.ghost['first_digit'] = p.off
        elif c == 0:
            st.ghost['start'] = p.off
            st.ghost['nul'] = p.off
            o = st.objs.get(p.obj)
            ok = o is not None and o.size is not None and st.cons.entails_eq(p.off, o.size - 1)
            sink.inst('R-DPRINT', fname, 'terminator-in-the-last-byte-of-the-buffer', ok, i.where(),
                      'NUL stored at offset %r' % p.off)
            if o is not None and o.size is not None and o.size.is_const() and p.off.is_const():
                info['room'] = p.off.c
    it.store_hook = store_hook

    def call_hook(interp, st, i, callee, args):
        if callee == 'debug_putchar' and i.fn is f:
            a = args[0]
            n = getattr(run, 'last_args', [None])[0]
            nl = st.as_u(n) if isinstance(n, IntVal) else None
            ok = isinstance(a, IntVal) and a.const() == 48 and nl is not None and st.cons.entails_eq(nl, 0)
            sink.inst('R-DPRINT', fname, 'single-0-only-for-zero', ok, i.where(),
                      'debug_putchar(%r) for a value %r' % (a, nl))
        return None
    it.call_hook = call_hook
    run = Run7(it, [])
    run.run(f.name, spec7())
    import_obligations(rep, 'R-DPRINT', it, run)
    # the text handed to debug_print starts at the cursor, i.e. at the digit stored last (most significant)
    pc = [c for c in f.calls() if c.callee == 'debug_print']
    ok = None
    if len(pc) == 1 and pc[0].ops[0].k == 'inst':
        cur = f.insts[pc[0].ops[0].id]
        if cur.op == 'phi' and cur.block is L['header']:
            latch = [v for (bb, v) in cur.incoming if f.bmap[bb] in L['blocks']]
            ok = len(latch) == 1 and latch[0].key() == st0.ops[1].key() and not any(
                b in L['blocks'] for b in [pc[0].block])
    if ok is not None:
        # pointer-cursor form only; in any other form (index cursor, copy into a second buffer) the characters that reach the
        # output are decided by c07_roundtrip (R-PRINT)
        rep.inst('R-DPRINT', fname, 'prints-from-the-most-significant-digit', ok, where(f),
                 'debug_print does not receive the cursor left by the digit loop (address of the last digit stored)')
    room = info.get('room')
    ok = room is not None and room >= N
    rep.inst('R-DPRINT', fname, 'buffer-holds-%d-digits-and-terminator' % N, ok, where(f),
             'a %d-bit value has up to %d decimal digits; the buffer has room for %s before the terminator'
             % (ph.bits, N, room), fact={'digits': N, 'room': room})


def seq_hook(names):
    """call hook recording calls to the named functions: ghost n (count), c<k>_f (index into names),
    c<k>_a<j> (integer argument forms)"""
    def hook(interp, st, i, callee, args):
        if callee not in names:
            return None
        g = st.ghost
        k = g.get('n', 0)
        g['n'] = k + 1
        g['c%d_f' % k] = names.index(callee)
        for j, a in enumerate(args):
            if isinstance(a, IntVal):
                dit = None
                tgt = interp.mod.fn(callee)
                sg = False
                if tgt is not None:
                    dit = tgt.d.get('ditypes') or []
                    sg = 1 + j < len(dit) and dit[1 + j].get('signed') == 1
                g['c%d_a%d' % (k, j)] = st.force_s(a) if sg else st.force_u(a)
        return [(st, None)]
    return hook


def dprint_signed(rep, mod):
    fname = 'debug_printdec_signed_long_long'
    f = need(mod, fname)
    neg_rule(rep, f, fname)
    names = ['debug_putchar', 'debug_printdec_uint64']
    it = Interp7(mod)
    it.call_hook = seq_hook(names)
    post = [dict(name='negative: \'-\' then the magnitude', when=['arg0 <= -1'],
                 then=['ghost_n_post == 2', 'ghost_c0_f_post == 0', 'ghost_c0_a0_post == 45', 'ghost_c1_f_post == 1',
                       'ghost_c1_a0_post == -arg0']),
            dict(name='non-negative: the value', when=['arg0 >= 0'],
                 then=['ghost_n_post == 1', 'ghost_c0_f_post == 1', 'ghost_c0_a0_post == arg0'])]
    run = Run7(it, [])
    run.run(f.name, spec7(post=post))
    import_obligations(rep, 'R-DPRINT', it, run)


def dprint_hex4(rep, mod):
    fname = 'debug_printhex_uint4'
    f = need(mod, fname)
    it = Interp7(mod)
    it.call_hook = seq_hook(['debug_putchar'])
    post = [dict(name='nibble 0..9 -> \'0\' + n', when=['arg0 <= 9'], then=['ghost_n_post == 1', 'ghost_c0_a0_post == arg0 + 48']),
            dict(name='nibble 10..15 -> \'A\' + n - 10', when=['arg0 >= 10'], then=['ghost_n_post == 1', 'ghost_c0_a0_post == arg0 + 55'])]
    run = Run7(it, [])
    run.run(f.name, spec7(pre=['arg0 <= 15'], post=post))
    import_obligations(rep, 'R-DPRINT', it, run)


def bit_slices(rep, mod, fname, callee, want, rule='R-DPRINT'):
    """the k-th call of `callee` in the single-block function receives the bit slice want[k] = (lo bit, width) of
    parameter 0 (exact GF(2) evaluation)"""
    from gf2 import BV, BlockEval
    f = need(mod, fname)
    if len(f.blocks) != 1:
        raise AnalysisBroken('%s is not straight-line code' % fname)
    ev = BlockEval(f, mod)
    ev.env[('a', 0)] = BV.sym(f.params[0]['ty']['bits'], 'b')
    ev.run_block(f.blocks[0])
    calls = [c for c in f.calls() if c.callee == callee]
    rep.inst(rule, fname, 'emits-%d-pieces' % len(want), len(calls) == len(want), where(f),
             '%d calls of %s, expected %d' % (len(calls), callee, len(want)))
    for k, (lo, n) in enumerate(want):
        if k >= len(calls):
            break
        a = ev.val(calls[k].ops[0])
        exp = [frozenset(['b%d' % (lo + j)]) for j in range(n)]
        got = list(a.bits) if isinstance(a, BV) else None
        ok = got is not None and got[:n] == exp and all(not x for x in got[n:])
        rep.inst(rule, fname, 'piece %d == bits %d..%d' % (k, lo + n - 1, lo), ok, calls[k].where(),
                 'piece %d is %s' % (k, ['^'.join(sorted(x)) or '0' for x in (got or [])]))


def bit_chars(rep, mod, fname, nbits, rule='R-DPRINT'):
    """debug_printbin_uintN: call k prints '1' if bit N-1-k of the parameter is set, else '0'.  Decided on the unrolled,
    straight-line body in the GF(2) domain: '0' + bit is affine (bit 0 of the character is the tested bit, bits 4 and 5 are
    set), whether the bits are picked by unrolled constant masks, a shifting mask or a shift of the value."""
    from gf2 import BV, BlockEval, ONE
    f = need(mod, fname)
    if len(f.blocks) != 1:
        raise AnalysisBroken('%s is not straight-line code after unrolling (characters chosen by branches?): R-DPRINT '
                             'evaluates the select form' % fname)
    ev = BlockEval(f, mod)
    w = f.params[0]['ty']['bits']
    ev.env[('a', 0)] = BV.sym(w, 'b')
    ev.run_block(f.blocks[0])
    calls = [c for c in f.calls() if c.callee == 'debug_putchar']
    rep.inst(rule, fname, 'emits-%d-characters' % nbits, len(calls) == nbits, where(f),
             '%d calls of debug_putchar' % len(calls))
    one = frozenset([ONE])
    for k, c in enumerate(calls[:nbits]):
        a = ev.val(c.ops[0])
        if not isinstance(a, BV):
            raise AnalysisBroken('%s: the character of call %d is not a bit-vector value' % (fname, k))
        bits = list(a.bits)[:8] + [frozenset()] * max(0, 8 - len(a.bits))
        want = [frozenset(['b%d' % (nbits - 1 - k)]), frozenset(), frozenset(), frozenset(), one, one, frozenset(), frozenset()]
        ok = bits == want and all(not x for x in list(a.bits)[8:])
        rep.inst(rule, fname, 'character %d shows bit %d' % (k, nbits - 1 - k), ok, c.where(),
                 None if ok else "call %d prints the character with bits %s; '0' + bit %d of the value is required"
                 % (k, ['^'.join(sorted(x)) or '0' for x in bits], nbits - 1 - k))


def byte_lanes(rep, mod, fname, callee, nbytes, rule='R-DPRINT'):
    """debug_print{hex,bin}_uintN: the k-th call of the byte printer receives byte lane N-1-k of the parameter
    (most significant byte first on the little-endian target).  Decided on the bit-lane evaluation of c18_lanes (every value
    a tuple of bit symbols of the parameter): byte pointer into the parameter, shifts and masks, or a counted loop all give
    the same lanes."""
    import c18_lanes
    f = need(mod, fname)
    calls = [c for c in f.calls() if c.callee == callee]
    rep.inst(rule, fname, 'emits-%d-bytes' % nbytes, len(calls) == nbytes and len(f.calls()) == nbytes, where(f),
             '%d calls of %s' % (len(calls), callee))
    ev = c18_lanes.LaneEval(f, hex_arg=None, in_arg=0)
    for k, c in enumerate(calls[:nbytes]):
        bits = ev.bits_of(c.ops[0], 8)[:8]
        want = c18_lanes.lane_bits(nbytes - 1 - k)
        if c18_lanes.TOP in bits:
            raise AnalysisBroken('%s: the byte handed to call %d of %s is outside the bit-lane domain' % (fname, k, callee))
        ok = tuple(bits) == want
        rep.inst(rule, fname, 'byte %d printed is lane %d' % (k, nbytes - 1 - k), ok, c.where(),
                 None if ok else 'call %d prints %s of the parameter' % (k, c18_lanes.describe(tuple(bits), nbytes)))


def dprint_hex_n(rep, mod):
    """debug_printhex_n(arg, n): reads arg[n-1] .. arg[0], each exactly once, inside the object"""
    fname = 'debug_printhex_n'
    f = need(mod, fname)
    it = Interp7(mod)
    sink = Sink(rep, it)

    def hook(interp, st, i, callee, args):
        if callee != 'debug_printhex_uint8':
            return None
        st.ghost['n'] = st.ghost.get('n', 0) + 1
        return [(st, None)]
    it.call_hook = hook
    run = Run7(it, [])
    run.run(f.name, spec7(pre=['arg1 >= 0', 'arg1 <= 1073741824'], extents={'arg0': 'arg1'}))
    import_obligations(rep, 'R-DPRINT', it, run)
    # the pointer walks down from arg + n by one byte per iteration, n iterations
    loops = f.loops
    ok = False
    det = 'no loop'
    if len(loops) == 1:
        L = loops[0]
        pph = [i for i in L['header'].insts if i.op == 'phi' and i.ty.get('k') == 'ptr']
        if len(pph) == 1:
            init = [v for (bb, v) in pph[0].incoming if f.bmap[bb] not in L['blocks']]
            latch = [v for (bb, v) in pph[0].incoming if f.bmap[bb] in L['blocks']]
            gi = f.insts[init[0].id] if init and init[0].k == 'inst' else None
            gl = f.insts[latch[0].id] if latch and latch[0].k == 'inst' else None
            if gi is not None and gl is not None and gi.op == 'getelementptr' and gl.op == 'getelementptr':
                s0 = gi.d['gep']['steps']
                s1 = gl.d['gep']['steps']
                from_end = gi.ops[0].k == 'arg' and gi.ops[0].argno == 0 and len(s0) == 1 and s0[0]['v'].get('k') == 'inst' and \
                    strip(f, V(s0[0]['v'])).k == 'arg' and strip(f, V(s0[0]['v'])).argno == 1
                down = len(s1) == 1 and s1[0]['v'].get('k') == 'ci' and s1[0]['v']['v'] * s1[0]['stride'] == -1
                loads = [i for b in L['blocks'] for i in b.insts if i.op == 'load']
                pre_dec = len(loads) == 1 and loads[0].ops[0].k == 'inst' and loads[0].ops[0].id == gl.id
                ok = from_end and down and pre_dec
                det = 'cursor starts at arg+n: %s, steps by -1: %s, reads after decrementing: %s' % (from_end, down, pre_dec)
        elif not pph:
            # index form: for (i = n; i != 0; --i) print(arg[i - 1])
            recognised = False
            for ph in [i for i in L['header'].insts if i.op == 'phi' and i.ty.get('k') == 'int']:
                init = [v for (bb, v) in ph.incoming if f.bmap[bb] not in L['blocks']]
                latch = [v for (bb, v) in ph.incoming if f.bmap[bb] in L['blocks']]
                li = f.inst_of(latch[0]) if latch else None
                if not init or li is None or li.ops[0].key() != ('i', ph.id) or li.ops[1].k != 'ci' or \
                        (li.op, li.ops[1].ival) not in (('add', -1), ('sub', 1)):
                    continue
                from_end = strip(f, init[0]).k == 'arg' and strip(f, init[0]).argno == 1
                loads = [i for b in L['blocks'] for i in b.insts if i.op == 'load']
                if len(loads) != 1:
                    continue
                g = f.inst_of(loads[0].ops[0])
                if g is None or g.op != 'getelementptr' or g.ops[0].k != 'arg' or g.ops[0].argno != 0:
                    continue
                st_ = [x for x in g.d['gep']['steps'] if x['k'] == 'index']
                if len(st_) != 1 or st_[0]['stride'] != 1 or st_[0]['v'].get('k') != 'inst':
                    continue
                x = strip(f, V(st_[0]['v']))
                xi = f.inst_of(x)
                pre_dec = xi is not None and xi.ops and xi.ops[0].key() == ('i', ph.id) and len(xi.ops) > 1 and \
                    xi.ops[1].k == 'ci' and (xi.op, xi.ops[1].ival) in (('add', -1), ('sub', 1))
                recognised = True
                ok = from_end and pre_dec
                det = 'index starts at n: %s, element read is arg[i - 1]: %s' % (from_end, pre_dec)
            if not recognised:
                rep.defer_broken('debug_printhex_n: the byte walk is neither a pointer walk nor an index walk this rule recognises')
                return
    rep.inst('R-DPRINT', fname, 'walks-from-the-most-significant-byte-down', ok, where(f), None if ok else det)


def vt100_check(rep, repo):
    mod = witness('w_c07_vt100.c', repo)
    rep.units.append('witness/w_c07_vt100.c -> igris/defs/vt100.h')
    f = need(mod, 'vt100_left')
    it = Interp7(mod)
    sink = Sink(rep, it)
    box = {}

    def setup(run, st, env, names, args, sps):
        box['buf'] = args[0].obj
        st.ghost['stores'] = 0

    def hook(interp, st, i, callee, args):
        if callee != 'igris_i32toa':
            return None
        p = args[1]
        n = st.fresh_int(8, False, 'ndigits')
        st.cons.add_le(1, n.u)
        st.cons.add_le(n.u, 11)
        g = st.ghost
        la = getattr(run, 'last_args', [])
        g['toa_off'] = p.off if isinstance(p, PtrVal) else None
        g['toa_val'] = 1 if isinstance(args[0], IntVal) and isinstance(la[1], IntVal) and \
            st.cons.entails_eq(st.force_s(args[0]), st.force_s(la[1])) else 0
        g['toa_base'] = st.force_u(args[2]) if isinstance(args[2], IntVal) else None
        g['len'] = n.u
        return [(st, PtrVal(p.obj, p.off + n.u, p.lo, p.hi, True))]
    it.call_hook = hook

    def store_hook(interp, st, i, p, v):
        if isinstance(p, PtrVal) and p.obj == box.get('buf') and isinstance(v, IntVal) and v.const() is not None:
            c = v.const()
            nm = {27: 'esc', 91: 'bracket', 68: 'cmd', 0: 'nul'}.get(c)
            if nm:
                st.ghost[nm + '_off'] = p.off
    it.store_hook = store_hook
    post = [dict(name='ESC [ digits D NUL', then=[
        'ghost_esc_off_post == 0', 'ghost_bracket_off_post == 1', 'ghost_toa_off_post == 2', 'ghost_toa_val_post == 1',
        'ghost_toa_base_post == 10', 'ghost_cmd_off_post == 2 + ghost_len_post', 'ghost_nul_off_post == 3 + ghost_len_post',
        'ret == 3 + ghost_len_post'])]
    run = Run7(it, [])
    run.run(f.name, spec7(setup=setup, post=post))
    import_obligations(rep, 'R-VT100', it, run)


# ----------------------------------------------------------------------------------------------
def run(rep, repo, tier):
    rep.explanation = (
        'Renderers (igris_i64toa/u64toa, itoa/utoa/ltoa/ultoa, debug_printdec_uint64): an IR rule checks that the digit loop '
        'is the textbook conversion (unsigned full-width dividend starting from the value or its wrapping negation, '
        'remainder and quotient by the same base, loop until the quotient is zero, one byte per digit) so that by the '
        'division lemma the digits are exact, least significant first, without leading zeros; abstract interpretation '
        'proves for all values/bases: division only with 2 <= base <= 36, digit character closed forms (r<10 -> \'0\'+r, '
        'else letter+r-10), \'-\' first and only for negative values, terminator directly after the last digit, the '
        'reversal swaps mirror positions inside the digit range, the result points at the terminator (igris) or the '
        'buffer start (libc), an invalid base yields the empty string. Negations must wrap (no signed-overflow UB on the '
        'minimum value). Width wrappers forward value (sign/zero extension by signedness), buffer and base unchanged. '
        'Parsers (igris_atou32/64): with the C-string model no byte past the terminator is read, every accumulated digit '
        'is c-\'0\' / c-\'a\'+10 / c-\'A\'+10 and smaller than the base, the loop stops exactly at the first character that '
        'is not a digit of the base and *end is that position (also with end == NULL); igris_atoi32/64 skip one \'-\' and '
        'negate the core result; atol under a C-locale isspace/isdigit model. Debug printers: nibble/bit/byte-lane order by '
        'exact dataflow, decimal buffer size against the digit count of 2^64-1. Letters emitted by every renderer are '
        'letters the parser maps back to the same digit. Not decided: the numeric value of a parse (non-linear), digit '
        'count bounds for caller buffers, overflow behaviour of the parsers.')
    rep.assumptions += ['the text buffer handed to a renderer is large enough and smaller than 2^31 bytes (so a 32-bit index into it does not wrap)',
                        '2 <= base <= 36 for the parsers', 'little-endian target for the byte-lane rules',
                        'C locale for isspace/isdigit in atol (glibc table bits _ISdigit/_ISspace)',
                        'input strings are NUL terminated']
    # file-local helpers a refactoring may introduce (e.g. a shared digit-reversal routine) are folded into their callers
    mod = compile_ir(repo + '/igris/util/numconvert.c', repo, inline=keep_all_but_new_helpers(('local_pow',)))
    rep.units.append('igris/util/numconvert.c')
    modl = libc_unit(repo, 'compat/libc/stdlib/itoa.c', inline=keep_all_but_new_helpers())
    rep.units.append('compat/libc/stdlib/itoa.c')
    alphabets = {}
    for (m, cores, at_end) in ((mod, IGRIS_CORES, True), (modl, LIBC_CORES, False)):
        for (fname, signed) in cores:
            f = need(m, fname)
            D = skeleton_rule(rep, f, fname, 0, ('arg', 2))
            if signed:
                neg_rule(rep, f, fname, expect=not D.get('signed_form'))
            render_check(rep, m, fname, signed, at_end, alphabets)
    for (w, core) in TOA_WRAPPERS:
        forward_rule(rep, 'R-WRAPPER', need(mod, w), w, core, [('arg', 0), ('arg', 1), ('arg', 2)], 'same')
    # parsers
    class_ok = {}
    for fname in ('igris_atou32', 'igris_atou64'):
        parse_check(rep, mod, fname, class_ok)
    for (fname, core, bits) in (('igris_atoi32', 'igris_atou32', 32), ('igris_atoi64', 'igris_atou64', 64)):
        neg_rule(rep, need(mod, fname), fname)
        signed_parse_check(rep, mod, fname, core, bits)
    for (w, core) in ATO_WRAPPERS:
        forward_rule(rep, 'R-WRAPPER', need(mod, w), w, core, [('arg', 0), ('arg', 1), ('arg', 2)], 'narrow')
    # alphabets
    for fname, al in sorted(alphabets.items()):
        for a in sorted(al):
            ok = class_ok.get(a, False)
            rep.inst('R-ALPHA', fname, 'letters %s are parsed back to the same digit' % a, ok, where(need(mod if fname.startswith('igris') else modl, fname)),
                     'the renderer emits letters %s but igris_atou32/atou64 do not map every such letter below the base '
                     'back to its digit (see R-PARSE class %s)' % (a, a), fact={'alphabet': a})
    # libc parser
    moda = libc_unit(repo, 'compat/libc/stdlib/atol.c')
    rep.units.append('compat/libc/stdlib/atol.c')
    atol_check(rep, moda)
    neg_rule(rep, need(moda, 'atol'), 'atol')
    forward_rule(rep, 'R-WRAPPER', need(moda, 'atoi'), 'atoi', 'atol', [('arg', 0)], 'narrow')
    # debug printers
    modd = compile_ir(repo + '/igris/dprint/dprint_func_impl.c', repo)
    rep.units.append('igris/dprint/dprint_func_impl.c')
    dprint_dec(rep, modd)
    dprint_signed(rep, modd)
    dprint_hex4(rep, modd)
    bit_slices(rep, modd, 'debug_printhex_uint8', 'debug_printhex_uint4', [(4, 4), (0, 4)])
    moddu = compile_ir(repo + '/igris/dprint/dprint_func_impl.c', repo, passes=UNROLL_PASSES, opt_args=UNROLL_ARGS,
                       out_name='dprint_func_impl_unrolled')
    for fname_, nb_ in (('debug_printbin_uint4', 4), ('debug_printbin_uint8', 8)):
        try:
            bit_chars(rep, moddu, fname_, nb_)
        except AnalysisBroken as e:
            rep.defer_broken(e)
    for n, nm in ((2, '16'), (4, '32'), (8, '64')):
        for pre_, cal_ in (('debug_printhex_uint', 'debug_printhex_uint8'), ('debug_printbin_uint', 'debug_printbin_uint8')):
            try:
                byte_lanes(rep, moddu, pre_ + nm, cal_, n)
            except AnalysisBroken as e:
                rep.defer_broken(e)
    dprint_hex_n(rep, modd)
    for nm in ('signed_char', 'signed_short', 'signed_int', 'signed_long'):
        forward_rule(rep, 'R-WRAPPER', need(modd, 'debug_printdec_' + nm), 'debug_printdec_' + nm,
                     'debug_printdec_signed_long_long', [('arg', 0)], None)
    for nm in ('unsigned_char', 'unsigned_short', 'unsigned_int', 'unsigned_long'):
        forward_rule(rep, 'R-WRAPPER', need(modd, 'debug_printdec_' + nm), 'debug_printdec_' + nm,
                     'debug_printdec_unsigned_long_long', [('arg', 0)], None)
    for nm in ('unsigned_long_long', 'uint8', 'uint16', 'uint32'):
        forward_rule(rep, 'R-WRAPPER', need(modd, 'debug_printdec_' + nm), 'debug_printdec_' + nm,
                     'debug_printdec_uint64', [('arg', 0)], None)
    vt100_check(rep, repo)
    rep.floor('R-SKELETON', 7 * 7)
    rep.floor('R-NEG', 7)
    rep.floor('R-DIGITCHAR', 13)
    rep.floor('R-BASERANGE', 12)
    rep.floor('R-RENDER', 60)
    rep.floor('R-WRAPPER', 70)
    rep.floor('R-PARSE', 30)
    rep.floor('R-PARSE-NOEND', 2)
    rep.floor('R-PSIGN', 16)
    rep.floor('R-ALPHA', 6)
    rep.floor('R-ATOL', 6)
    rep.floor('R-DPRINT', 60)
    rep.floor('R-VT100', 8)
    import c07_roundtrip
    c07_roundtrip.run_ext(rep, repo, tier)

