"""Abstract interpreter over the IR JSON (see irlib).

Domain: SSA integers are linear forms over symbols (entry values, fresh
symbols) with a conjunction of linear inequalities; pointers are (object,
linear byte offset, optional array window); memory is a map of cells with
strong updates.  Acyclic control flow is analysed path-sensitively with a
bounded number of disjuncts; loops are closed with template (Houdini) loop
invariants over fresh loop-head symbols -- candidate inequalities that hold
on entry and are preserved by every path through the body.  Calls to defined
functions are analysed in the caller's context; external functions need a
summary.  No path is handed to a solver: the only decision procedure is the
domain's own Fourier-Motzkin entailment (lin.py).
"""
import os
import sys
from lin import Lin, Cons, _L, normalize
from absval import (IntVal, PtrVal, CondVal, FloatVal, AggVal, TOP, Top, NULL,
                    Obj, State, mk_const)
from irlib import AnalysisBroken, V

MAX_STATES = 96
MAX_DEPTH = 14
MAX_HOUDINI = 60
MAX_PEEL = 3


class Obligation:
    __slots__ = ('kind', 'fn', 'inst', 'where', 'stack', 'ok', 'count', 'detail', 'key', 'objdesc', 'flagloop')

    def __init__(self, kind, fn, inst, where, stack, key):
        self.kind = kind
        self.fn = fn
        self.inst = inst
        self.where = where
        self.stack = stack
        self.ok = True
        self.count = 0
        self.detail = None
        self.key = key
        self.objdesc = None
        self.flagloop = None

    def as_dict(self):
        return {'kind': self.kind, 'function': self.fn, 'where': self.where, 'objdesc': self.objdesc,
                'call_stack': list(self.stack), 'ok': self.ok,
                'states_checked': self.count, 'detail': self.detail, 'flagloop': self.flagloop}


class Interp:
    def __init__(self, mod, externals=None, opaque=()):
        self.mod = mod
        self.obligs = {}
        self.recording = 0        # >0 => suppressed (inside a non-final loop pass)
        self.stack = []           # call stack of (fn name, call inst where)
        self.externals = dict(DEFAULT_EXTERNALS)
        if externals:
            self.externals.update(externals)
        self.opaque = set(opaque)
        self.unchecked = 0        # accesses through pointers of unknown extent
        self.checked = 0
        self.notes = []
        self.call_hook = None     # f(interp, state, inst, callee_name, args) -> None | list[(state, ret)]
        self.access_hook = None   # f(interp, state, inst, ptr, size, kind)
        self.store_hook = None    # f(interp, state, inst, ptr, value)
        self.max_peel = MAX_PEEL  # loops whose trip count is decided by constants are executed up to this many times
        self.max_peel_states = 4
        self.cmp_log = None       # differences compared inside the loop body being analysed (predicate shapes)
        self.ghost_keys = ()      # ghost entries that must be loop-invariant
        self.functions_seen = set()
        self.unknown_calls = {}   # external callee -> first call site (treated as unknown effects)
        self.loops_seen = 0
        self.explosions = 0

    # ------------------------------------------------------------------
    # obligations
    # ------------------------------------------------------------------
    def oblige(self, kind, inst, ok, detail=None, extra_key=None, undecidable=None):
        if self.recording > 0:
            return
        fn = inst.fn.name if inst is not None else (self.stack[-1][0] if self.stack else '?')
        where = inst.where() if inst is not None else '?'
        stack = tuple(s[0] + '@' + s[1] for s in self.stack)
        key = (kind, fn, inst.id if inst is not None else -1, stack, extra_key)
        ob = self.obligs.get(key)
        if ob is None:
            ob = Obligation(kind, fn, inst, where, stack, key)
            ob.objdesc = extra_key
            self.obligs[key] = ob
        ob.count += 1
        if not ok:
            if ob.ok:
                ob.detail = detail
                if undecidable:
                    ob.flagloop = undecidable
                if inst is not None and kind.startswith('bounds:'):
                    for (L, ph) in inst.fn.flag_loops():
                        if inst.block in L['blocks']:
                            ob.flagloop = '%s: the loop at %s is steered by the flag %s computed in the previous iteration' % (
                                inst.fn.srcname or inst.fn.name, L['header'].term.where(), ph.name or ph.id)
            ob.ok = False

    # ------------------------------------------------------------------
    # operand evaluation
    # ------------------------------------------------------------------
    def val(self, st, v, fn):
        k = v.k
        if k == 'inst' or k == 'arg':
            r = st.env.get(v.key())
            if r is None:
                raise AnalysisBroken('use of undefined SSA value %r in %s' % (v, fn.name))
            return r
        if k == 'ci':
            w = v.width
            if w == 1:
                return CondVal('const', bool(v.uval))
            return mk_const(w, v.uval)
        if k == 'null':
            return NULL
        if k == 'cf':
            try:
                return FloatVal(float(v.d['v']))
            except ValueError:
                return FloatVal(None)
        if k == 'global':
            return self.global_ptr(st, v.name)
        if k == 'func':
            o = self.named_obj(st, 'func:' + v.name, 'func', None)
            return PtrVal(o.id)
        if k == 'undef':
            return TOP
        if k == 'cexpr':
            return self.cexpr(st, v, fn)
        if k == 'cagg':
            return TOP
        return TOP

    def named_obj(self, st, oid, kind, size, info=None):
        o = st.objs.get(oid)
        if o is None:
            o = Obj(oid, kind, size, info)
            st.objs[oid] = o
        return o

    def global_ptr(self, st, name):
        g = self.mod.globals.get(name)
        size = None
        if g is not None and 'size' in g['ty']:
            size = Lin(g['ty']['size'])
        o = self.named_obj(st, 'global:' + name, 'global', size, {'g': g})
        return PtrVal(o.id)

    def cexpr(self, st, v, fn):
        op = v.d['op']
        ops = [V(x) for x in v.d.get('ops', [])]
        if op == 'getelementptr':
            base = self.val(st, ops[0], fn)
            return self.do_gep(st, base, v.d['gep'], fn)
        if op in ('bitcast', 'addrspacecast'):
            return self.val(st, ops[0], fn)
        if op == 'ptrtoint':
            p = self.val(st, ops[0], fn)
            w = v.d['ty'].get('bits', 64)
            r = st.fresh_int(w, False, 'p2i')
            r.pint = p if isinstance(p, PtrVal) else None
            return r
        if op == 'inttoptr':
            return self.unknown_ptr(st)
        return TOP

    def unknown_ptr(self, st, hint='unk', nonnull=False):
        o = st.new_obj('unknown', None, hint)
        return PtrVal(o.id, Lin(0), None, None, nonnull)

    def top_of_type(self, st, ty, hint='t', signed=False):
        k = ty.get('k')
        if k == 'int':
            if ty['bits'] == 1:
                return CondVal('unknown')
            return st.fresh_int(ty['bits'], signed, hint)
        if k == 'ptr':
            return self.unknown_ptr(st, hint)
        if k == 'fp':
            return FloatVal(None)
        return TOP

    # ------------------------------------------------------------------
    # GEP
    # ------------------------------------------------------------------
    def do_gep(self, st, base, gep, fn):
        if not isinstance(base, PtrVal):
            return self.unknown_ptr(st)
        if base.is_null:
            # nullptr + 0 is nullptr (begin()/end() of a container without storage: m_data + m_size with both zero)
            if base.off.is_const() and base.off.c == 0 and all(s['k'] != 'field' for s in gep['steps']):
                zero = True
                for s in gep['steps']:
                    iv = self.val(st, V(s['v']), fn)
                    u = (st.as_u(iv) if iv.s is None else st.as_s(iv)) if isinstance(iv, IntVal) else None
                    if u is None or not st.cons.entails_eq(u, 0):
                        zero = False
                        break
                if zero:
                    return base
            # offsetof idiom / null arithmetic: keep null-based pointer as unknown
            return self.unknown_ptr(st)
        off = base.off
        lo, hi = base.lo, base.hi
        for s in gep['steps']:
            if s['k'] == 'field':
                off = off + s['off']
                if s.get('is_array'):
                    lo, hi = off, off + s['size']
            else:
                iv = self.val(st, V(s['v']), fn)
                stride = s['stride']
                if isinstance(iv, IntVal):
                    c = iv.sconst()
                    if c is not None:
                        off = off + stride * c
                    else:
                        sform = st.force_s(iv, 'idx')
                        off = off + sform * stride
                else:
                    f = st.fresh_int(64, True, 'idx')
                    off = off + f.s * stride
        return PtrVal(base.obj, off, lo, hi, base.nonnull)

    # ------------------------------------------------------------------
    # memory
    # ------------------------------------------------------------------
    def check_access(self, st, p, size, inst, kind):
        """bounds obligation for an access of 'size' (int or Lin) bytes"""
        if self.access_hook:
            self.access_hook(self, st, inst, p, size, kind)
        if not isinstance(p, PtrVal):
            self.unchecked += 1
            return
        if p.is_null:
            self.oblige('deref-null', inst, False, 'dereference of a null pointer (%s)' % kind)
            st.bottom = True
            return
        o = st.objs.get(p.obj)
        size = _L(size)
        lo, hi = p.lo, p.hi
        if lo is None:
            if o is None or o.size is None:
                self.unchecked += 1
                return
            lo, hi = Lin(0), o.size
        ok1 = st.cons.entails_le(lo, p.off)
        ok2 = st.cons.entails_le(p.off + size, hi)
        self.checked += 1
        detail = None
        if not (ok1 and ok2):
            detail = ('%s of %r byte(s) at offset %r of %s not provably inside [%r, %r)'
                      % (kind, size, p.off, self.describe_obj(st, p.obj), lo, hi))
            detail += self.explain(st, [p.off, size, hi])
        und = None
        if not (ok1 and ok2) and inst is not None and o is not None and o.info.get('cstr_len') is None and \
                not (st.cons.entails_le(p.off + 1, lo) or st.cons.entails_le(hi + 1, p.off + size)):
            # a scan / copy that runs up to a terminator inside an object for which no terminator position is modelled (a slot
            # of a larger buffer, say): where the loop ends is unknown to the domain, so its extent is not a verdict
            for L in inst.fn.sentinel_loops():
                if inst.block in L['blocks']:
                    und = ('%s: the loop at %s runs up to a NUL byte inside %s, for which no terminator position is modelled'
                           % (inst.fn.srcname or inst.fn.name, L['header'].term.where(), self.describe_obj(st, p.obj)))
                    break
        self.oblige('bounds:' + kind, inst, ok1 and ok2, detail, self.describe_obj(st, p.obj), undecidable=und)
        if not (ok1 and ok2) and (st.cons.entails_le(p.off + 1, lo) or st.cons.entails_le(hi + 1, p.off + size)):
            # definitely outside: the path ends here (undefined behaviour); continuing under the in-bounds assumption would
            # make the state inconsistent, and an inconsistent state decides every later test both ways
            st.bottom = True
            return
        # continue under the assumption that the access was in bounds
        st.cons.add_le(lo, p.off)
        st.cons.add_le(p.off + size, hi)

    def explain(self, st, lins):
        from lin import cone
        syms = set()
        for l in lins:
            syms.update(l.t.keys())
        c = cone(st.cons.items, syms)
        small = [l for l in c if all(abs(x) < (1 << 31) for x in [l.c] + list(l.t.values()))]
        return ' ; known: ' + ', '.join('%r<=0' % l for l in small[:int(os.environ.get('VERIF_EXPLAIN', '14'))])

    def describe_obj(self, st, oid):
        o = st.objs.get(oid)
        if o is None:
            return str(oid).split('#')[0]
        return o.info.get('desc', str(oid).split('#')[0])

    def havoc_obj(self, st, oid):
        for k in [k for k in st.mem if k[0] == oid]:
            del st.mem[k]
            if st.written is not None:
                st.written.add(k)
        if st.written is not None:
            st.written.add(('smash', oid))

    def havoc_escaped(self, st):
        """unknown side effects: drop all cells except allocas that are only
        accessed directly (non-escaped allocas are never passed around: we
        conservatively keep only cells of alloca objects flagged private)"""
        for k in list(st.mem):
            o = st.objs.get(k[0])
            if o is not None and o.kind == 'alloca' and not o.info.get('escaped'):
                continue
            del st.mem[k]
            if st.written is not None:
                st.written.add(k)
        if st.written is not None:
            st.written.add(('smash', '*'))

    def load(self, st, p, ty, inst):
        size = ty.get('size')
        if ty.get('k') == 'int':
            size = (ty['bits'] + 7) // 8       # i48 is stored in 6 bytes
        if size is None:
            return TOP
        self.check_access(st, p, size, inst, 'load')
        if st.bottom:
            return TOP
        if not isinstance(p, PtrVal) or p.is_null:
            return self.top_of_type(st, ty, 'ld')
        if p.off.is_const():
            key = (p.obj, p.off.c, size)
            v = st.mem.get(key)
            if v is not None:
                return v
            # overlapping cells of another size: constants are re-assembled
            # (little endian); anything else is unknown, not memoised
            ov = [(off, sz, v) for (o, off, sz), v in st.mem.items()
                  if o == p.obj and off < p.off.c + size and p.off.c < off + sz]
            if ov:
                r = self.assemble_const(ov, p.off.c, size, ty)
                if r is not None:
                    return r
                r = self.split_cell(st, p, ov, size, ty)
                if r is not None:
                    return r
                return self.top_of_type(st, ty, 'ld')
            v = self.initial_content(st, p, ty, inst)
            st.mem[key] = v
            return v
        # variable offset: is there exactly one cell provably equal?
        for (o, off, sz), v in st.mem.items():
            if o == p.obj and sz == size and st.cons.entails_eq(p.off, off):
                return v
        return self.initial_content_var(st, p, ty, inst)

    def split_cell(self, st, p, ov, size, ty):
        """an aligned part of ONE wider integer cell is read (a struct passed by value arrives as one i64 and is read field by
        field): the wide cell is replaced, once, by its little-endian parts - fresh unsigned symbols that add up to the
        wide value - so that every later read of the same field is the same value"""
        if len(ov) != 1 or ty.get('k') != 'int' or size not in (1, 2, 4):
            return None
        (coff, csz, v) = ov[0]
        if not isinstance(v, IntVal) or csz not in (2, 4, 8) or csz % size or (p.off.c - coff) % size or \
                not (coff <= p.off.c and p.off.c + size <= coff + csz) or ty['bits'] != 8 * size:
            return None
        parts = []
        for k in range(csz // size):
            parts.append(st.fresh_int(8 * size, False, 'part'))
        wide = st.as_u(v)
        if wide is not None:
            total = Lin(0)
            for k, x in enumerate(parts):
                total = total + x.u * (1 << (8 * size * k))
            st.cons.add_eq(wide, total)
        del st.mem[(p.obj, coff, csz)]
        for k, x in enumerate(parts):
            st.mem[(p.obj, coff + k * size, size)] = x
        return st.mem[(p.obj, p.off.c, size)]

    def assemble_const(self, cells, off, size, ty):
        if ty.get('k') != 'int':
            return None
        by = {}
        for (coff, csz, v) in cells:
            if not isinstance(v, IntVal):
                return None
            c = v.const()
            if c is None:
                return None
            for b in range(csz):
                by[coff + b] = (c >> (8 * b)) & 0xff
        val = 0
        for b in range(size):
            if off + b not in by:
                return None
            val |= by[off + b] << (8 * b)
        return mk_const(ty['bits'], val)

    def load_cstr(self, st, p, o, inst, key):
        """byte load from an object known to hold a NUL-terminated string of
        length n = o.info['cstr_len'] (terminator at offset n): the byte is
        non-zero before n and zero at n; when the position is not decided the
        state is split (off < n | off == n [| off > n when the object is larger])"""
        n = o.info['cstr_len']
        self.check_access(st, p, 1, inst, 'load')
        if st.bottom:
            return []
        # a cell written explicitly wins
        if p.off.is_const() and (p.obj, p.off.c, 1) in st.mem:
            st.env[key] = st.mem[(p.obj, p.off.c, 1)]
            return [st]
        out = []

        def nonzero(s):
            mk = ('cstrbyte', p.obj, p.off.key())
            v = s.conv.get(mk)
            if v is None:
                b = s.fresh_int(8, False, 'ch')
                s.cons.add_le(1, b.u)
                v = b
                s.conv[mk] = v
            s.env[key] = v
            return s
        if st.cons.entails_lt(p.off, n):
            return [nonzero(st)]
        if st.cons.entails_eq(p.off, n):
            st.env[key] = mk_const(8, 0)
            return [st]
        if st.cons.entails_lt(n, p.off):
            st.env[key] = self.top_of_type(st, inst.ty, 'past')
            return [st]
        s1 = st.fork()
        s1.cons.add_lt(p.off, n)
        if not self.infeasible(s1, p.off, n):
            out.append(nonzero(s1))
        s2 = st.fork()
        s2.cons.add_eq(p.off, n)
        if not self.infeasible(s2, p.off, n):
            s2.env[key] = mk_const(8, 0)
            out.append(s2)
        if not st.cons.entails_le(p.off, n):
            s3 = st
            s3.cons.add_lt(n, p.off)
            if not self.infeasible(s3, p.off, n):
                s3.env[key] = self.top_of_type(s3, inst.ty, 'past')
                out.append(s3)
        return out

    def initial_content(self, st, p, ty, inst):
        o = st.objs.get(p.obj)
        if o is not None:
            f = o.info.get('content')
            if f:
                r = f(self, st, o, p.off.c, ty)
                if r is not None:
                    return r
            if o.kind == 'global' and o.info.get('g') and o.info['g'].get('const'):
                r = self.const_global_load(st, o, p.off.c, ty)
                if r is not None:
                    return r
        return self.top_of_type(st, ty, 'm')

    def initial_content_var(self, st, p, ty, inst):
        o = st.objs.get(p.obj)
        if o is not None:
            f = o.info.get('content_var')
            if f:
                r = f(self, st, o, p.off, ty)
                if r is not None:
                    return r
        return self.top_of_type(st, ty, 'mv')

    def load_table(self, st, p, i, key):
        """element of a small constant table selected by an index with a known small range (a digit table indexed by a
        nibble): one state per index value, each with the constant element"""
        o = st.objs.get(p.obj)
        if o is None or o.kind != 'global' or not o.info.get('g') or not o.info['g'].get('const'):
            return None
        init = o.info['g'].get('init')
        if not (isinstance(init, list) and init and all(isinstance(x, int) for x in init)) or len(init) > 64:
            return None
        esz = o.info['g']['ty']['size'] // len(init)
        if not esz or i.ty.get('size') != esz:
            return None
        if not (st.cons.entails_le(0, p.off) and st.cons.entails_le(p.off, (len(init) - 1) * esz)):
            return None
        self.check_access(st, p, esz, i, 'load')
        out = []
        for k, v in enumerate(init):
            s2 = st.fork()
            s2.cons.add_eq(p.off, k * esz)
            if self.infeasible(s2, p.off, Lin(k * esz)):
                continue
            s2.env[key] = mk_const(i.ty['bits'], v)
            out.append(s2)
        return out or None

    def const_global_load(self, st, o, off, ty):
        g = o.info['g']
        init = g.get('init')
        if init is None:
            return None
        if isinstance(init, list) and init and all(isinstance(x, int) for x in init):
            esz = g['ty']['size'] // len(init) if len(init) else 0
            if esz and ty.get('k') == 'int' and ty['size'] == esz and off % esz == 0:
                i = off // esz
                if 0 <= i < len(init):
                    return mk_const(ty['bits'], init[i])
        if isinstance(init, dict) and init.get('k') == 'zero' and ty.get('k') == 'int':
            return mk_const(ty['bits'], 0)
        if isinstance(init, dict) and init.get('k') == 'ci' and ty.get('k') == 'int' and off == 0:
            return mk_const(ty['bits'], int(init.get('u', init.get('v', 0))))
        return None

    def store(self, st, p, v, size, inst):
        self.check_access(st, p, size, inst, 'store')
        if st.bottom:
            return
        if not isinstance(p, PtrVal) or p.is_null:
            self.havoc_escaped(st)
            return
        o = st.objs.get(p.obj)
        if o is not None and o.kind == 'unknown':
            # may alias anything that is not a private alloca
            self.havoc_escaped(st)
            return
        if isinstance(v, PtrVal) and v.obj is not None:
            vo = st.objs.get(v.obj)
            if vo is not None and vo.kind == 'alloca':
                vo.info['escaped'] = True
        if o is not None and o.info.get('cstr_len') is not None:
            n_ = o.info['cstr_len']
            keeps = isinstance(v, IntVal) and size == 1 and st.cons.entails_lt(p.off, n_) and \
                v.u is not None and st.cons.entails_le(1, v.u)
            if not keeps:
                # the string may be cut or extended: forget its length (object-level fact, so the
                # descriptor is replaced for this state only)
                o2 = Obj(o.id, o.kind, o.size, dict(o.info))
                o2.info['cstr_len'] = None
                st.objs = dict(st.objs)
                st.objs[o.id] = o2
        if p.off.is_const():
            c = p.off.c
            for k in [k for k in st.mem if k[0] == p.obj and k[1] < c + size and c < k[1] + k[2]]:
                del st.mem[k]
                if st.written is not None:
                    st.written.add(k)
            st.mem[(p.obj, c, size)] = v
            if st.written is not None:
                st.written.add((p.obj, c, size))
            return
        # variable offset: drop every cell not provably disjoint
        for k in [k for k in st.mem if k[0] == p.obj]:
            _, off, sz = k
            if st.cons.entails_le(p.off + size, off) or st.cons.entails_le(off + sz, p.off):
                continue
            del st.mem[k]
            if st.written is not None:
                st.written.add(k)
        if st.written is not None:
            st.written.add(('smashvar', p.obj))

    def mem_range_write(self, st, p, n, inst):
        """a write of n (Lin) bytes starting at p: drop overlapping cells"""
        if not isinstance(p, PtrVal) or p.is_null:
            self.havoc_escaped(st)
            return
        o = st.objs.get(p.obj)
        if o is not None and o.kind == 'unknown':
            self.havoc_escaped(st)
            return
        if o is not None and o.info.get('cstr_len') is not None:
            o2 = Obj(o.id, o.kind, o.size, dict(o.info))
            o2.info['cstr_len'] = None
            st.objs = dict(st.objs)
            st.objs[o.id] = o2
        for k in [k for k in st.mem if k[0] == p.obj]:
            _, off, sz = k
            if st.cons.entails_le(p.off + n, off) or st.cons.entails_le(off + sz, p.off):
                continue
            del st.mem[k]
            if st.written is not None:
                st.written.add(k)
        if st.written is not None:
            st.written.add(('smashvar', p.obj))

    # ------------------------------------------------------------------
    # integer arithmetic
    # ------------------------------------------------------------------
    def fits_u(self, st, l, w):
        return st.cons.entails_le(0, l) and st.cons.entails_le(l, (1 << w) - 1)

    def fits_s(self, st, l, w):
        return st.cons.entails_le(-(1 << (w - 1)), l) and st.cons.entails_le(l, (1 << (w - 1)) - 1)

    def mk_from_math(self, st, l, w, nsw=False, nuw=False, prefer=None, hint='a'):
        """value whose mathematical result is l: find an interpretation in
        which it does not wrap"""
        u = s = None
        if l.is_const():
            return mk_const(w, l.c)
        if nuw or self.fits_u(st, l, w):
            u = l
        if nsw or self.fits_s(st, l, w):
            s = l
        if u is None and s is None:
            return None
        return IntVal(w, u, s)

    def binop(self, st, op, a, b, inst):
        w = inst.bits
        if not isinstance(a, IntVal) or not isinstance(b, IntVal):
            if w == 1:
                return self.bool_binop(op, a, b)
            return self.top_of_type(st, inst.ty, op)
        nsw = inst.d.get('nsw', False)
        nuw = inst.d.get('nuw', False)
        ca, cb = a.const(), b.const()
        if ca is not None and cb is not None:
            r = self.const_fold(op, ca, cb, w, a, b)
            if r is not None:
                return mk_const(w, r)
        if op in ('add', 'sub'):
            sign = 1 if op == 'add' else -1
            cands = []
            au, bu = st.as_u(a), st.as_u(b)
            as_, bs = st.as_s(a), st.as_s(b)
            if au is not None and bu is not None:
                cands.append(au + bu * sign)
            if as_ is not None and bs is not None:
                l = as_ + bs * sign
                if not cands or cands[0] != l:
                    cands.append(l)
            if au is not None and bs is not None and b.const() is not None:
                # unsigned + signed constant (e.g. x + (-1))
                cands.append(au + bs * sign)
            for l in cands:
                r = self.mk_from_math(st, l, w)
                if r is not None:
                    if nsw and r.s is None and as_ is not None and bs is not None:
                        r = IntVal(w, r.u, as_ + bs * sign)
                    return r
            # UB-free assumption for signed arithmetic flagged nsw by the compiler
            if nsw and as_ is not None and bs is not None:
                return IntVal(w, None, as_ + bs * sign)
            if nuw and au is not None and bu is not None:
                return IntVal(w, au + bu * sign, None)
            # pointer difference
            if op == 'sub' and a.pint is not None and b.pint is not None and \
                    a.pint.obj is not None and a.pint.obj == b.pint.obj:
                return IntVal(w, None, a.pint.off - b.pint.off)
            if au is not None and bu is not None:
                # modular result with an explicit carry/borrow symbol k in {0,1}:
                #   add: r = au + bu - 2^w*k     sub: r = au - bu + 2^w*k
                kf = st.fresh_int(1, False, 'carry')
                l = au + bu * sign + kf.u * (-(1 << w) * sign)
                st.cons.add_le(0, l)
                st.cons.add_le(l, (1 << w) - 1)
                return IntVal(w, l, None)
            return st.fresh_int(w, False, 'wrap')
        if op == 'mul':
            k, x = (ca, b) if ca is not None else ((cb, a) if cb is not None else (None, None))
            if k is not None:
                ks = k - (1 << w) if k >= (1 << (w - 1)) else k
                xu, xs = st.as_u(x), st.as_s(x)
                for l in ([xu * k] if xu is not None else []) + ([xs * ks] if xs is not None else []):
                    r = self.mk_from_math(st, l, w)
                    if r is not None:
                        return r
                if nsw and xs is not None:
                    return IntVal(w, None, xs * ks)
                if nuw and xu is not None:
                    return IntVal(w, xu * k, None)
            r = st.fresh_int(w, not nuw and nsw, 'mul')
            return r
        if op == 'shl' and cb is not None and cb < w:
            k = 1 << cb
            xu = st.as_u(a)
            if xu is not None:
                r = self.mk_from_math(st, xu * k, w)
                if r is not None:
                    return r
            return st.fresh_int(w, False, 'shl')
        if op in ('udiv', 'urem', 'lshr'):
            au, bu = st.as_u(a), st.as_u(b)
            if op in ('udiv', 'urem') and a.u is None and a.s is not None:
                # a signed quantity is reinterpreted as unsigned by an unsigned
                # division/modulo: only value-preserving when it is >= 0
                self.oblige('signmod:' + op, inst, au is not None,
                            None if au is not None else
                            'signed value %r (possibly negative) is converted to unsigned by %s'
                            % (a.s, op), 'dividend')
            if op == 'lshr':
                if cb is None or cb >= w:
                    return st.fresh_int(w, False, op)
                bu = Lin(1 << cb)
                op = 'udiv'
            if au is not None and bu is not None and bu.is_const() and bu.c > 0:
                # exact Euclidean relation a = b*q + r, shared by udiv and urem of the same operands
                mk = ('udivrem', w, au.key(), bu.c)
                q = st.conv.get(mk)
                if q is None:
                    q = st.fresh_int(w, False, 'quot').u
                    st.cons.add_le(q * bu.c, au)
                    st.cons.add_le(au, q * bu.c + (bu.c - 1))
                    st.conv[mk] = q
                if op == 'udiv':
                    return IntVal(w, q, None)
                if st.cons.entails_le(au, bu.c - 1):
                    return IntVal(w, au, None)
                return IntVal(w, au - q * bu.c, None)
            r = st.fresh_int(w, False, op)
            if au is None or bu is None:
                return r
            if op == 'udiv':
                st.cons.add_le(r.u, au)
                if bu.is_const() and bu.c > 0:
                    # b*r <= a <= b*r + b - 1
                    st.cons.add_le(r.u * bu.c, au)
                    st.cons.add_le(au, r.u * bu.c + (bu.c - 1))
                    if au.divisible(bu.c) and False:
                        pass
                return r
            # urem
            st.cons.add_le(r.u, au)
            if st.cons.entails_le(1, bu):
                st.cons.add_le(r.u, bu - 1)
                if st.cons.entails_le(au, bu - 1):
                    return IntVal(w, au, None)
                if st.cons.entails_le(bu, au) and st.cons.entails_le(au, bu * 2 - 1):
                    return IntVal(w, au - bu, None)
            return r
        if op in ('sdiv', 'srem') and b.sconst() is not None and b.sconst() > 0:
            as_ = st.as_s(a)
            k = b.sconst()
            if as_ is not None and (st.cons.entails_le(0, as_) or st.cons.entails_le(as_, 0)):
                nonneg = st.cons.entails_le(0, as_)
                mk = ('sdivrem', w, as_.key(), k, nonneg)
                q = st.conv.get(mk)
                if q is None:
                    q = st.fresh_int(w, True, 'squot').s
                    if nonneg:
                        st.cons.add_le(q * k, as_)
                        st.cons.add_le(as_, q * k + (k - 1))
                    else:
                        st.cons.add_le(as_, q * k)
                        st.cons.add_le(q * k - (k - 1), as_)
                    st.conv[mk] = q
                if op == 'sdiv':
                    return IntVal(w, None, q)
                return IntVal(w, None, as_ - q * k)
        if op in ('sdiv', 'srem', 'ashr'):
            as_, bs = st.as_s(a), st.as_s(b)
            if op == 'ashr':
                if cb is None or cb >= w:
                    return st.fresh_int(w, True, op)
                bs = Lin(1 << cb)
                op = 'sdiv'
                exact = False
            if op == 'sdiv' and as_ is not None and bs is not None and bs.is_const() and bs.c > 0:
                k = bs.c
                if as_.divisible(k):
                    # exact integer division when every coefficient divides
                    if inst.d.get('exact') or True:
                        # floor division equals exact division only if as_ is a multiple of k:
                        # coefficients divisible => value divisible
                        return IntVal(w, None, as_.div_exact(k))
                r = st.fresh_int(w, True, 'sdiv')
                if st.cons.entails_le(0, as_):
                    st.cons.add_le(r.s * k, as_)
                    st.cons.add_le(as_, r.s * k + (k - 1))
                return r
            if op == 'srem' and as_ is not None and bs is not None:
                r = st.fresh_int(w, True, 'srem')
                # |r| < |b| ; sign(r) = sign(a)
                if st.cons.entails_le(1, bs):
                    st.cons.add_le(r.s, bs - 1)
                    st.cons.add_le(-(bs - 1), r.s)
                    if st.cons.entails_le(0, as_):
                        st.cons.add_le(0, r.s)
                        st.cons.add_le(r.s, as_)
                        if st.cons.entails_le(as_, bs - 1):
                            return IntVal(w, None, as_)
                        if st.cons.entails_le(bs, as_) and st.cons.entails_le(as_, bs * 2 - 1):
                            return IntVal(w, None, as_ - bs)
                    elif st.cons.entails_le(as_, 0):
                        st.cons.add_le(r.s, 0)
                        st.cons.add_le(as_, r.s)
                        if st.cons.entails_le(-(bs - 1), as_):
                            return IntVal(w, None, as_)
                        if st.cons.entails_le(as_, -bs) and st.cons.entails_le(-(bs * 2 - 1), as_):
                            return IntVal(w, None, as_ + bs)
                return r
            return st.fresh_int(w, True, op)
        if op == 'and':
            k, x = (ca, b) if ca is not None else ((cb, a) if cb is not None else (None, None))
            if k is not None and k > 0 and (k & (k + 1)) == 0:
                xu = st.as_u(x)
                if xu is not None:
                    if st.cons.entails_le(xu, k):
                        return IntVal(w, xu, None)
                    # x & (2^j - 1) == x mod 2^j : exact Euclidean relation shared with udiv/lshr
                    mk = ('udivrem', w, xu.key(), k + 1)
                    q = st.conv.get(mk)
                    if q is None:
                        q = st.fresh_int(w, False, 'quot').u
                        st.cons.add_le(q * (k + 1), xu)
                        st.cons.add_le(xu, q * (k + 1) + k)
                        st.conv[mk] = q
                    return IntVal(w, xu - q * (k + 1), None)
            if k is not None and k > 0:
                m = (~k) & ((1 << w) - 1)
                if m > 0 and (m & (m + 1)) == 0:
                    # x & ~(2^j - 1) == x - (x mod 2^j) == q * 2^j : the same Euclidean relation, rounded-down form
                    xu = st.as_u(x)
                    if xu is not None:
                        mk = ('udivrem', w, xu.key(), m + 1)
                        q = st.conv.get(mk)
                        if q is None:
                            q = st.fresh_int(w, False, 'quot').u
                            st.cons.add_le(q * (m + 1), xu)
                            st.cons.add_le(xu, q * (m + 1) + m)
                            st.conv[mk] = q
                        return IntVal(w, q * (m + 1), None)
            r = st.fresh_int(w, False, 'and')
            if k is not None:
                st.cons.add_le(r.u, k)
                xu = st.as_u(x)
                if xu is not None:
                    st.cons.add_le(r.u, xu)
                    # x & (2^n - 1) == x when x <= mask
                    if (k & (k + 1)) == 0 and st.cons.entails_le(xu, k):
                        return IntVal(w, xu, None)
            else:
                au, bu = st.as_u(a), st.as_u(b)
                if au is not None:
                    st.cons.add_le(r.u, au)
                if bu is not None:
                    st.cons.add_le(r.u, bu)
            return r
        if op in ('or', 'xor'):
            r = st.fresh_int(w, False, op)
            au, bu = st.as_u(a), st.as_u(b)
            if au is not None and bu is not None:
                st.cons.add_le(r.u, au + bu)
                if op == 'or':
                    st.cons.add_le(au, r.u)
                    st.cons.add_le(bu, r.u)
            return r
        return st.fresh_int(w, False, op)

    def const_fold(self, op, a, b, w, av, bv):
        M = 1 << w

        def sg(x):
            return x - M if x >= (M >> 1) else x
        try:
            if op == 'add':
                return (a + b) % M
            if op == 'sub':
                return (a - b) % M
            if op == 'mul':
                return (a * b) % M
            if op == 'and':
                return a & b
            if op == 'or':
                return a | b
            if op == 'xor':
                return a ^ b
            if op == 'shl':
                return (a << b) % M if b < w else None
            if op == 'lshr':
                return a >> b if b < w else None
            if op == 'ashr':
                return (sg(a) >> b) % M if b < w else None
            if op == 'udiv':
                return a // b if b else None
            if op == 'urem':
                return a % b if b else None
            if op == 'sdiv':
                if not b:
                    return None
                q = abs(sg(a)) // abs(sg(b))
                return (q if (sg(a) < 0) == (sg(b) < 0) else -q) % M
            if op == 'srem':
                if not b:
                    return None
                r = abs(sg(a)) % abs(sg(b))
                return (r if sg(a) >= 0 else -r) % M
        except Exception:
            return None
        return None

    def bool_binop(self, op, a, b):
        ca = self.as_cond(a)
        cb = self.as_cond(b)
        if op == 'and':
            return CondVal('and', ca, cb)
        if op == 'or':
            return CondVal('or', ca, cb)
        if op == 'xor':
            if cb.k == 'const' and cb.args[0]:
                return CondVal('not', ca)
            if ca.k == 'const' and ca.args[0]:
                return CondVal('not', cb)
        return CondVal('unknown')

    def as_cond(self, v):
        if isinstance(v, CondVal):
            return v
        return CondVal('unknown')

    def cast(self, st, inst, a):
        op = inst.op
        ty = inst.ty
        if op in ('bitcast', 'addrspacecast'):
            return a
        if op == 'zext':
            w = ty['bits']
            if isinstance(a, CondVal):
                if a.k == 'const':
                    return mk_const(w, 1 if a.args[0] else 0)
                r = st.fresh_int(w, False, 'b')
                st.cons.add_le(r.u, 1)
                r = IntVal(w, r.u, r.u)
                self.bool_of[r.u.key()] = a
                return r
            if isinstance(a, IntVal):
                u = st.force_u(a, 'zx')
                return IntVal(w, u, u)
            return self.top_of_type(st, ty)
        if op == 'sext':
            w = ty['bits']
            if isinstance(a, CondVal):
                return st.fresh_int(w, True, 'sx')
            if isinstance(a, IntVal):
                s = st.force_s(a, 'sx')
                return IntVal(w, None, s)
            return self.top_of_type(st, ty)
        if op == 'trunc':
            w = ty['bits']
            if w == 1:
                if isinstance(a, IntVal):
                    c = a.const()
                    if c is not None:
                        return CondVal('const', bool(c & 1))
                    # i8 bool -> i1 (values 0/1 by construction)
                    return CondVal('cmp', 'ne', a, mk_const(a.w, 0), None, None)
                return CondVal('unknown')
            if isinstance(a, IntVal):
                c = a.const()
                if c is not None:
                    return mk_const(w, c)
                u = st.as_u(a)
                if u is not None and st.cons.entails_le(u, (1 << w) - 1):
                    return IntVal(w, u, None)
                s = st.as_s(a)
                if s is not None and self.fits_s(st, s, w):
                    return IntVal(w, None, s)
                r = st.fresh_int(w, False, 'tr')
                return r
            return self.top_of_type(st, ty)
        if op == 'ptrtoint':
            w = ty.get('bits', 64)
            r = st.fresh_int(w, False, 'p2i')
            if isinstance(a, PtrVal):
                r.pint = a
            return r
        if op == 'inttoptr':
            if isinstance(a, IntVal) and a.pint is not None:
                return a.pint
            if isinstance(a, IntVal) and a.const() == 0:
                return NULL
            return self.unknown_ptr(st, 'i2p')
        if op in ('sitofp', 'uitofp', 'fpext', 'fptrunc'):
            return FloatVal(None)
        if op in ('fptosi', 'fptoui'):
            return st.fresh_int(ty['bits'], op == 'fptosi', 'f2i')
        return self.top_of_type(st, ty)

    bool_of = {}

    # ------------------------------------------------------------------
    # comparisons / conditions
    # ------------------------------------------------------------------
    def icmp(self, st, inst, a, b):
        ka = inst.ops[0].key() if inst.ops[0].k in ('inst', 'arg') else None
        kb = inst.ops[1].key() if inst.ops[1].k in ('inst', 'arg') else None
        pred = inst.pred
        # comparison of a zext'ed bool with 0/1 -> the bool itself
        for x, y, flip in ((a, b, False), (b, a, True)):
            if isinstance(x, IntVal) and isinstance(y, IntVal) and x.u is not None and \
                    x.u.key() in self.bool_of and y.const() in (0, 1) and pred in ('eq', 'ne'):
                c = self.bool_of[x.u.key()]
                truth = (pred == 'ne') == (y.const() == 0)
                return c if truth else CondVal('not', c)
        c = CondVal('cmp', pred, a, b, ka, kb)
        if self.cmp_log is not None and len(self.cmp_log) < 400:
            f_ = self.cmp_forms(st, pred, a, b)
            if f_ is not None and (f_[0].t or f_[1].t):
                self.cmp_log.append(f_[0] - f_[1])
        d = self.decide(st, c)
        if d is not None:
            return CondVal('const', d)
        return c

    def cmp_forms(self, st, pred, a, b, force=False):
        """linear forms (la, lb) to compare under pred's signedness"""
        if isinstance(a, PtrVal) and isinstance(b, PtrVal):
            if a.obj == b.obj:
                # (both null: nullptr + m against nullptr + n, as in the empty-range loops of a container without storage)
                return a.off, b.off
            return None
        if not (isinstance(a, IntVal) and isinstance(b, IntVal)):
            return None
        if a.pint is not None and b.pint is not None and a.pint.obj is not None \
                and a.pint.obj == b.pint.obj:
            return a.pint.off, b.pint.off
        if pred in ('eq', 'ne'):
            au, bu = st.as_u(a), st.as_u(b)
            if au is not None and bu is not None:
                return au, bu
            as_, bs = st.as_s(a), st.as_s(b)
            if as_ is not None and bs is not None:
                return as_, bs
            if force:
                return st.force_u(a), st.force_u(b)
            return None
        if pred[0] == 'u':
            au, bu = st.as_u(a), st.as_u(b)
            if au is None and force:
                au = st.force_u(a)
            if bu is None and force:
                bu = st.force_u(b)
            if au is None or bu is None:
                return None
            return au, bu
        as_, bs = st.as_s(a), st.as_s(b)
        if as_ is None and force:
            as_ = st.force_s(a)
        if bs is None and force:
            bs = st.force_s(b)
        if as_ is None or bs is None:
            return None
        return as_, bs

    def decide(self, st, c):
        """True/False when the condition is decided by the state, else None"""
        if c.k == 'const':
            return c.args[0]
        if c.k == 'not':
            d = self.decide(st, c.args[0])
            return None if d is None else (not d)
        if c.k == 'and':
            d1, d2 = self.decide(st, c.args[0]), self.decide(st, c.args[1])
            if d1 is False or d2 is False:
                return False
            if d1 and d2:
                return True
            return None
        if c.k == 'or':
            d1, d2 = self.decide(st, c.args[0]), self.decide(st, c.args[1])
            if d1 or d2:
                return True
            if d1 is False and d2 is False:
                return False
            return None
        if c.k != 'cmp':
            return None
        pred, a, b = c.args[0], c.args[1], c.args[2]
        if isinstance(a, PtrVal) and isinstance(b, PtrVal):
            if a.is_null and b.is_null:
                return pred in ('eq', 'ule', 'uge', 'sle', 'sge')
            if a.is_null != b.is_null:
                other = b if a.is_null else a
                if other.nonnull and pred in ('eq', 'ne'):
                    return pred == 'ne'
                return None
            if a.obj != b.obj:
                oa, ob = st.objs.get(a.obj), st.objs.get(b.obj)
                if pred in ('eq', 'ne') and oa is not None and ob is not None and \
                        oa.kind != 'unknown' and ob.kind != 'unknown' and \
                        oa.kind != 'deref' and ob.kind != 'deref' and a.nonnull and b.nonnull:
                    # distinct named objects never compare equal
                    return pred == 'ne'
                return None
        f = self.cmp_forms(st, pred, a, b)
        if f is None:
            return None
        la, lb = f
        p = pred[1:] if pred[0] in 'us' and pred not in ('eq', 'ne') else pred
        cons = st.cons
        dq = st.known_diseq(la, lb)
        if p == 'eq':
            if dq or cons.entails_lt(la, lb) or cons.entails_lt(lb, la):
                return False
            if cons.entails_eq(la, lb):
                return True
            return None
        if p == 'ne':
            if dq or cons.entails_lt(la, lb) or cons.entails_lt(lb, la):
                return True
            if cons.entails_eq(la, lb):
                return False
            return None
        if p == 'lt':
            if cons.entails_lt(la, lb) or (dq and cons.entails_le(la, lb)):
                return True
            if cons.entails_le(lb, la):
                return False
        elif p == 'le':
            if cons.entails_le(la, lb):
                return True
            if cons.entails_lt(lb, la) or (dq and cons.entails_le(lb, la)):
                return False
        elif p == 'gt':
            if cons.entails_lt(lb, la) or (dq and cons.entails_le(lb, la)):
                return True
            if cons.entails_le(la, lb):
                return False
        elif p == 'ge':
            if cons.entails_le(lb, la):
                return True
            if cons.entails_lt(la, lb) or (dq and cons.entails_le(la, lb)):
                return False
        return None

    def assume(self, st, c, truth):
        """returns list of states refined with c == truth (may fork); st is
        consumed"""
        if c.k == 'const':
            return [st] if c.args[0] == truth else []
        if c.k == 'unknown':
            return [st]
        if c.k == 'not':
            return self.assume(st, c.args[0], not truth)
        if (c.k == 'and' and truth) or (c.k == 'or' and not truth):
            out = []
            for s1 in self.assume(st, c.args[0], truth):
                out.extend(self.assume(s1, c.args[1], truth))
            return out
        if c.k in ('and', 'or'):
            # and-false / or-true: disjunction
            s2 = st.fork()
            out = self.assume(st, c.args[0], truth)
            for s in self.assume(s2, c.args[0], not truth):
                out.extend(self.assume(s, c.args[1], truth))
            return out
        pred, a, b, ka, kb = c.args
        if isinstance(a, PtrVal) and isinstance(b, PtrVal) and (a.is_null != b.is_null) \
                and pred in ('eq', 'ne'):
            other, ko = (b, kb) if a.is_null else (a, ka)
            is_null = (pred == 'eq') == truth
            if other.nonnull and is_null:
                return []
            if ko is not None:
                new = NULL if is_null else PtrVal(other.obj, other.off, other.lo, other.hi, True)
                self.refine_ptr(st, ko, other, new)
            return [st]
        f = self.cmp_forms(st, pred, a, b, force=True)
        if f is None:
            return [st]
        la, lb = f
        p = pred[1:] if pred not in ('eq', 'ne') else pred
        if not truth:
            p = {'eq': 'ne', 'ne': 'eq', 'lt': 'ge', 'le': 'gt', 'gt': 'le', 'ge': 'lt'}[p]
        dq = st.known_diseq(la, lb)
        if p == 'eq':
            if dq:
                return []
            st.cons.add_eq(la, lb)
        elif dq and p in ('le', 'ge'):
            if p == 'le':
                st.cons.add_lt(la, lb)
            else:
                st.cons.add_lt(lb, la)
        elif p == 'lt':
            st.cons.add_lt(la, lb)
        elif p == 'le':
            st.cons.add_le(la, lb)
        elif p == 'gt':
            st.cons.add_lt(lb, la)
        elif p == 'ge':
            st.cons.add_le(lb, la)
        elif p == 'ne':
            if st.cons.entails_le(la, lb):
                st.cons.add_lt(la, lb)
            elif st.cons.entails_le(lb, la):
                st.cons.add_lt(lb, la)
            else:
                # no order known: keep the disequality as a fact instead of
                # forking into (<) and (>)
                if st.cons.entails_eq(la, lb):
                    return []
                st.add_diseq(la, lb)
                return [st]
        if self.infeasible(st, la, lb):
            return []
        return [st]

    def refine_ptr(self, st, key, old, new):
        if st.env.get(key) is old:
            st.env[key] = new
        for k, v in list(st.mem.items()):
            if v is old:
                st.mem[k] = new

    def infeasible(self, st, la, lb):
        from lin import cone, _fm_unsat, TooHard
        syms = set(la.t.keys()) | set(lb.t.keys())
        if not syms:
            return st.cons.unsat()
        c = cone(st.cons.items, syms)
        try:
            if _fm_unsat(c):
                return True
        except TooHard:
            return False
        for d in st.diseq.values():
            if any(sy in syms for sy in d.t) and st.cons.entails(d) and st.cons.entails(-d):
                return True
        return False

    # ------------------------------------------------------------------
    # function / region / loop execution
    # ------------------------------------------------------------------
    def run_function(self, fn, st, args):
        """returns list of (state, retval)"""
        if fn.decl:
            raise AnalysisBroken('run_function on declaration %s' % fn.name)
        self.functions_seen.add(fn.name)
        st.frames.append({})
        for i, a in enumerate(args):
            st.env[('a', i)] = a
        rets = []
        self.run_region(fn, None, [(st, None)], rets)
        out = []
        for s, r in rets:
            s.frames.pop()
            out.append((s, r))
        return out

    def loop_of_header(self, fn):
        m = getattr(fn, '_loop_by_header', None)
        if m is None:
            m = {L['header']: L for L in fn.loops}
            fn._loop_by_header = m
        return m

    def run_region(self, fn, loop, entries, rets):
        """loop None: whole function, entries = [(state, None)].
        loop L: entries are states positioned *after* phi evaluation at the
        header. Returns (latch_states [(state, from_block)], exit_states
        [(state, from_block, to_block)])"""
        lb = self.loop_of_header(fn)
        region = set(fn.blocks) if loop is None else loop['blocks']
        header = None if loop is None else loop['header']
        pending = {}
        latches = []
        exits = []
        start = fn.entry if loop is None else header
        pending[start] = list(entries)
        skip = set()

        def deliver(s, frm, to):
            if to is header:
                latches.append((s, frm))
            elif to not in region:
                exits.append((s, frm, to))
            else:
                pending.setdefault(to, []).append((s, frm))
        for b in fn.rpo:
            if b not in region or b in skip:
                continue
            ins = pending.pop(b, None)
            if not ins:
                continue
            if b in lb and b is not header:
                L = lb[b]
                for (s, frm) in ins:
                    for (s2, f2, t2) in self.run_loop(fn, L, s, frm, rets):
                        deliver(s2, f2, t2)
                skip |= L['blocks']
                continue
            if len(ins) > MAX_STATES:
                self.explosions += 1
                raise AnalysisBroken('path explosion (%d states) at block %s of %s'
                                     % (len(ins), b.name, fn.name))
            for (s, frm) in ins:
                if b is header and loop is not None:
                    first = 0  # phis already evaluated by run_loop
                    outs = self.exec_block(fn, b, s, frm, rets, skip_phis=True)
                else:
                    outs = self.exec_block(fn, b, s, frm, rets)
                for (s2, to) in outs:
                    deliver(s2, b, to)
        return latches, exits

    def eval_phis(self, fn, b, st, frm):
        vals = []
        for i in b.insts:
            if i.op == 'dbg':
                continue
            if i.op != 'phi':
                break
            for (bb, v) in i.incoming:
                if bb == frm.name:
                    vals.append((i, self.val(st, v, fn)))
                    break
            else:
                raise AnalysisBroken('phi without incoming for %s in %s' % (frm.name, fn.name))
        for i, v in vals:
            st.env[('i', i.id)] = v

    def exec_block(self, fn, b, st, frm, rets, skip_phis=False):
        """returns list of (state, successor block)"""
        if not skip_phis and frm is not None:
            self.eval_phis(fn, b, st, frm)
        states = [st]
        for i in b.insts:
            if i.op in ('dbg', 'phi'):
                continue
            if i is b.term:
                break
            nxt = []
            for s in states:
                nxt.extend(self.exec_inst(fn, i, s))
            states = [s for s in nxt if not s.bottom]
            if len(states) > MAX_STATES:
                raise AnalysisBroken('path explosion inside block %s of %s' % (b.name, fn.name))
            if not states:
                return []
        t = b.term
        out = []
        for s in states:
            out.extend(self.exec_term(fn, t, s, rets))
        return out

    def exec_term(self, fn, t, st, rets):
        if t.op == 'ret':
            rv = self.val(st, t.ops[0], fn) if t.ops else None
            rets.append((st, rv))
            return []
        if t.op == 'unreachable':
            return []
        if t.op == 'br':
            if 'f' not in t.d:
                return [(st, fn.bmap[t.d['t']])]
            c = self.val(st, t.ops[0], fn)
            c = self.as_cond(c)
            d = self.decide(st, c)
            if d is True:
                return [(st, fn.bmap[t.d['t']])]
            if d is False:
                return [(st, fn.bmap[t.d['f']])]
            s2 = st.fork()
            out = [(s, fn.bmap[t.d['t']]) for s in self.assume(st, c, True)]
            out += [(s, fn.bmap[t.d['f']]) for s in self.assume(s2, c, False)]
            return out
        if t.op == 'switch':
            v = self.val(st, t.ops[0], fn)
            out = []
            if isinstance(v, IntVal):
                c = v.const()
                if c is not None:
                    sc = v.sconst()
                    for case in t.d['cases']:
                        if case['v'] == sc or case['v'] % (1 << v.w) == c:
                            return [(st, fn.bmap[case['bb']])]
                    return [(st, fn.bmap[t.d['default']])]
                form = st.as_s(v)
                signed = True
                if form is None:
                    form = st.force_u(v)
                    signed = False
                dflt = st.fork()
                for case in t.d['cases']:
                    cv = case['v'] if signed else case['v'] % (1 << v.w)
                    if st.known_diseq(form, cv):
                        continue
                    s = st.fork()
                    s.cons.add_eq(form, cv)
                    if not self.infeasible(s, form, Lin(cv)):
                        out.append((s, fn.bmap[case['bb']]))
                # default: refine only at range borders
                vals = sorted(set(case['v'] if signed else case['v'] % (1 << v.w) for case in t.d['cases']))
                dstates = [dflt]
                for cv in vals:
                    nd = []
                    for s in dstates:
                        if s.cons.entails_le(form, cv) and s.cons.entails_le(cv, form):
                            continue
                        if s.cons.entails_le(form, cv):
                            s.cons.add_lt(form, cv)
                        elif s.cons.entails_le(cv, form):
                            s.cons.add_lt(cv, form)
                        nd.append(s)
                    dstates = nd
                for s in dstates:
                    for cv in vals:
                        if not (s.cons.entails_lt(form, cv) or s.cons.entails_lt(cv, form)):
                            s.add_diseq(form, cv)
                out += [(s, fn.bmap[t.d['default']]) for s in dstates
                        if not self.infeasible(s, form, Lin(0))]
                return out
            for name in [t.d['default']] + [c['bb'] for c in t.d['cases']]:
                out.append((st.fork(), fn.bmap[name]))
            return out
        if t.op == 'invoke':
            outs = self.exec_inst(fn, t, st)
            return [(s, fn.bmap[t.d['normal']]) for s in outs if not s.bottom]
        raise AnalysisBroken('unsupported terminator %s in %s' % (t.op, fn.name))

    # ------------------------------------------------------------------
    def exec_inst(self, fn, i, st):
        op = i.op
        env = st.env
        key = ('i', i.id)
        if op in ('sdiv', 'srem') and i.bits > 1:
            a = self.val(st, i.ops[0], fn)
            b = self.val(st, i.ops[1], fn)
            if isinstance(a, IntVal) and isinstance(b, IntVal) and b.sconst() is not None and b.sconst() > 0 \
                    and a.const() is None:
                as_ = st.as_s(a)
                if as_ is not None and not st.cons.entails_le(0, as_) and not st.cons.entails_le(as_, -1):
                    # C division truncates toward zero: case split on the sign of the dividend
                    s2 = st.fork()
                    st.cons.add_le(0, as_)
                    s2.cons.add_le(as_, -1)
                    out = []
                    for s in (st, s2):
                        if not self.infeasible(s, as_, Lin(0)):
                            s.env[key] = self.binop(s, op, a, b, i)
                            out.append(s)
                    return out
        if op in ('add', 'sub', 'mul', 'udiv', 'sdiv', 'urem', 'srem', 'shl',
                  'lshr', 'ashr', 'and', 'or', 'xor'):
            a = self.val(st, i.ops[0], fn)
            b = self.val(st, i.ops[1], fn)
            if i.bits == 1:
                env[key] = self.bool_binop(op, a, b)
            else:
                env[key] = self.binop(st, op, a, b, i)
            return [st]
        if op == 'icmp':
            env[key] = self.icmp(st, i, self.val(st, i.ops[0], fn), self.val(st, i.ops[1], fn))
            return [st]
        if op == 'fcmp':
            env[key] = CondVal('unknown')
            return [st]
        if op in ('fadd', 'fsub', 'fmul', 'fdiv', 'frem', 'fneg'):
            env[key] = FloatVal(None)
            return [st]
        if op == 'getelementptr':
            env[key] = self.do_gep(st, self.val(st, i.ops[0], fn), i.d['gep'], fn)
            return [st]
        if op == 'load':
            p = self.val(st, i.ops[0], fn)
            if isinstance(p, PtrVal) and p.obj is not None and i.ty.get('bits') == 8:
                o = st.objs.get(p.obj)
                if o is not None and o.info.get('cstr_len') is not None:
                    return self.load_cstr(st, p, o, i, key)
            if getattr(self, 'split_tables', False) and isinstance(p, PtrVal) and p.obj is not None and \
                    not p.off.is_const() and i.ty.get('k') == 'int':
                # (opt-in: a CRC routine indexing its table in a loop would fork 16 ways per step)
                r = self.load_table(st, p, i, key)
                if r is not None:
                    return r
            env[key] = self.load(st, p, i.ty, i)
            return [st]
        if op == 'store':
            v = self.val(st, i.ops[0], fn)
            p = self.val(st, i.ops[1], fn)
            if self.store_hook is not None:
                self.store_hook(self, st, i, p, v)
            self.store(st, p, v, i.d['store_size'], i)
            return [st]
        if op == 'alloca':
            aty = i.d['alloc_ty']
            n = self.val(st, i.ops[0], fn) if i.ops else None
            size = None
            if 'size' in aty:
                cnt = n.const() if isinstance(n, IntVal) else None
                if cnt is not None:
                    size = Lin(aty['size'] * cnt)
            oid = 'alloca:%s:%d:%d' % (fn.name, i.id, len(st.frames))
            o = Obj(oid, 'alloca', size, {'desc': 'local %s of %s' % (i.name or i.id, fn.name)})
            st.objs[oid] = o
            # a fresh activation: forget stale cells of a previous activation
            for k in [k for k in st.mem if k[0] == oid]:
                del st.mem[k]
            env[key] = PtrVal(oid)
            return [st]
        if op == 'zext' and isinstance(self.val(st, i.ops[0], fn), CondVal):
            c = self.val(st, i.ops[0], fn)
            w = i.ty['bits']
            d = self.decide(st, c)
            if d is not None:
                env[key] = mk_const(w, 1 if d else 0)
                return [st]
            s2 = st.fork()
            out = []
            for s in self.assume(st, c, True):
                s.env[key] = mk_const(w, 1)
                out.append(s)
            for s in self.assume(s2, c, False):
                s.env[key] = mk_const(w, 0)
                out.append(s)
            return out
        if op in ('bitcast', 'zext', 'sext', 'trunc', 'ptrtoint', 'inttoptr',
                  'sitofp', 'uitofp', 'fptosi', 'fptoui', 'fpext', 'fptrunc',
                  'addrspacecast'):
            env[key] = self.cast(st, i, self.val(st, i.ops[0], fn))
            return [st]
        if op == 'select':
            c = self.as_cond(self.val(st, i.ops[0], fn))
            a = self.val(st, i.ops[1], fn)
            b = self.val(st, i.ops[2], fn)
            d = self.decide(st, c)
            if d is True:
                env[key] = a
                return [st]
            if d is False:
                env[key] = b
                return [st]
            s2 = st.fork()
            out = []
            for s in self.assume(st, c, True):
                s.env[key] = a
                out.append(s)
            for s in self.assume(s2, c, False):
                s.env[key] = b
                out.append(s)
            return out
        if op in ('call', 'invoke'):
            return self.exec_call(fn, i, st)
        if op == 'extractvalue':
            a = self.val(st, i.ops[0], fn)
            if isinstance(a, AggVal) and len(i.d['indices']) == 1 and i.d['indices'][0] < len(a.elems):
                env[key] = a.elems[i.d['indices'][0]]
            else:
                env[key] = self.top_of_type(st, i.ty, 'ev')
            return [st]
        if op == 'insertvalue':
            a = self.val(st, i.ops[0], fn)
            v = self.val(st, i.ops[1], fn)
            idx = i.d['indices']
            elems = list(a.elems) if isinstance(a, AggVal) else []
            if len(idx) == 1:
                while len(elems) <= idx[0]:
                    elems.append(TOP)
                elems[idx[0]] = v
                env[key] = AggVal(elems)
            else:
                env[key] = TOP
            return [st]
        if op == 'freeze':
            env[key] = self.val(st, i.ops[0], fn)
            return [st]
        if op in ('fence',):
            return [st]
        if op in ('atomicrmw', 'cmpxchg'):
            self.havoc_escaped(st)
            env[key] = self.top_of_type(st, i.ty, 'atomic')
            return [st]
        if op == 'va_arg':
            env[key] = self.top_of_type(st, i.ty, 'va')
            return [st]
        raise AnalysisBroken('unsupported instruction %s at %s in %s' % (op, i.where(), fn.name))

    # ------------------------------------------------------------------
    def exec_call(self, fn, i, st):
        key = ('i', i.id)
        callee = i.callee
        args = [self.val(st, a, fn) for a in i.ops]
        if self.call_hook is not None:
            r = self.call_hook(self, st, i, callee, args)
            if r is not None:
                out = []
                for s, rv in r:
                    if i.ty.get('k') != 'void':
                        s.env[key] = rv if rv is not None else self.top_of_type(s, i.ty, 'ret')
                    out.append(s)
                return out
        if callee is None:
            # indirect call: unknown effects
            self.havoc_escaped(st)
            for a in args:
                self.escape(st, a)
            if i.ty.get('k') != 'void':
                st.env[key] = self.top_of_type(st, i.ty, 'icall')
            return [st]
        target = self.mod.functions.get(callee)
        ext = self.lookup_external(callee)
        if ext is not None and (target is None or target.decl or callee in self.opaque):
            r = ext(self, st, i, args)
            if r is None:
                r = [(st, None)]
            out = []
            for s, rv in r:
                if i.ty.get('k') != 'void':
                    s.env[key] = rv if rv is not None else self.top_of_type(s, i.ty, 'ret')
                out.append(s)
            return out
        if target is None or target.decl or callee in self.opaque:
            self.default_external(st, i, callee, args)
            return [st]
        if len(self.stack) >= MAX_DEPTH or any(s[0] == callee for s in self.stack[-MAX_DEPTH:]) and \
                sum(1 for s in self.stack if s[0] == callee) >= 2:
            self.notes.append('recursion/depth cut at %s' % callee)
            self.default_external(st, i, callee, args)
            return [st]
        self.stack.append((fn.name, i.where()))
        try:
            # stack holds callers: (caller fn, call site)
            self.stack[-1] = (callee, i.where())
            rets = self.run_function(target, st, args)
        finally:
            self.stack.pop()
        out = []
        for s, rv in rets:
            if i.ty.get('k') != 'void':
                s.env[key] = rv if rv is not None else self.top_of_type(s, i.ty, 'ret')
            out.append(s)
        return out

    def lookup_external(self, name):
        e = self.externals.get(name)
        if e is not None:
            return e
        if name.startswith('_ZSt') and '__throw_' in name:
            return ext_noreturn
        for pref, f in PREFIX_EXTERNALS:
            if name.startswith(pref):
                return f
        return None

    def escape(self, st, a):
        if isinstance(a, PtrVal) and a.obj is not None:
            o = st.objs.get(a.obj)
            if o is not None and o.kind == 'alloca':
                o.info['escaped'] = True

    def default_external(self, st, i, callee, args):
        self.unknown_calls.setdefault(callee, i.where())
        for a in args:
            self.escape(st, a)
        self.havoc_escaped(st)
        if i.ty.get('k') != 'void':
            st.env[('i', i.id)] = self.top_of_type(st, i.ty, 'ext')

    # ------------------------------------------------------------------
    # loops
    # ------------------------------------------------------------------
    def run_loop(self, fn, L, st, frm, rets):
        """analyse natural loop L entered from block frm in state st.
        Returns exit states [(state, from, to)]"""
        self.loops_seen += 1
        header = L['header']
        phis = [i for i in header.insts if i.op == 'phi']
        inits = {}
        for ph in phis:
            for (bb, v) in ph.incoming:
                if bb == frm.name:
                    inits[ph.id] = self.val(st, v, fn)
        # bounded peeling: when the trip count is decided by constants the
        # loop is executed without abstraction (at most MAX_PEEL iterations)
        peeled = self.try_peel(fn, L, st, frm, rets)
        if peeled is not None:
            return peeled
        modified = set()      # memory cell keys written in the loop
        smashed = set()
        templ = None          # candidate invariants over placeholders ('$', i)
        outer_written = st.written
        signs = {}            # what-key -> signedness override of the loop-head symbol
        flipped = set()
        partners = []         # constraints met in the body that relate head symbols to outer symbols
        harvested = False
        stsyms = st.cons.syms()
        entry_objs = set(st.objs.keys())
        for it in range(MAX_HOUDINI + 4):
            H, newsyms = self.build_head(st, fn, L, phis, inits, modified, smashed, signs)
            if templ is None:
                templ = self.gen_candidates(st, newsyms, partners)
            ren = {('$', n): ns[0] for n, ns in enumerate(newsyms)}
            cands = [c.subst(ren) for c in templ]
            for c in cands:
                H.cons.add(c)
            self.recording += 1
            saved_log = self.cmp_log
            self.cmp_log = [] if not harvested else None
            try:
                body_rets = []
                latches, exits = self.run_region(fn, L, [(H, frm)], body_rets)
            finally:
                self.recording -= 1
                pass_log = self.cmp_log
                self.cmp_log = saved_log
            w = H.written
            # ('smashvar', obj): a variable-offset store; the cells it could
            # overlap were dropped (and recorded individually) at the store
            # cells of objects created inside the loop (fresh allocations, callee frames) are not part of the
            # loop-head state
            new_mod = set(k for k in w if k[0] not in ('smash', 'smashvar') and k[0] in entry_objs) - modified
            new_smash = set(k[1] for k in w if k[0] == 'smash' and (k[1] == '*' or k[1] in entry_objs)) - smashed
            if new_mod or new_smash:
                modified |= new_mod
                smashed |= new_smash
                templ = None
                continue
            if not harvested:
                # predicates from the program: constraints of the latch/exit
                # states that mention a loop-head symbol become candidate
                # shapes (generalised by small constants) for the next pass
                harvested = True
                hs = {next(iter(ns[0].t)): ('$', n) for n, ns in enumerate(newsyms)}
                base = H.cons.keys
                found = {}
                for T in [x[0] for x in latches] + [x[0] for x in exits]:
                    for c in T.cons.items:
                        if c.key() in st.cons.keys or len(c.t) > 4:
                            continue
                        if not any(sy in hs for sy in c.t):
                            continue
                        if any((isinstance(sy, str) and sy not in hs and sy not in stsyms) for sy in c.t):
                            continue
                        found[c.subst({k: Lin.sym(v) for k, v in hs.items()}).key()] = \
                            c.subst({k: Lin.sym(v) for k, v in hs.items()})
                    # disequalities met in the body (cursor != end) suggest both orderings
                    for d_ in T.diseq.values():
                        if len(d_.t) > 4 or not any(sy in hs for sy in d_.t):
                            continue
                        if any((isinstance(sy, str) and sy not in hs and sy not in stsyms) for sy in d_.t):
                            continue
                        for dd in (d_, -d_):
                            c2 = dd.subst({k: Lin.sym(v) for k, v in hs.items()})
                            found[c2.key()] = c2
                # comparisons evaluated in the body (also those that were decided and left no constraint)
                for d_ in (pass_log or []):
                    if len(d_.t) > 4 or not any(sy in hs for sy in d_.t):
                        continue
                    if any((isinstance(sy, str) and sy not in hs and sy not in stsyms) for sy in d_.t):
                        continue
                    for dd in (d_, -d_):
                        c2 = normalize(dd.subst({k: Lin.sym(v) for k, v in hs.items()}))
                        found[c2.key()] = c2
                if os.environ.get('VERIF_DEBUG_LOOPS'):
                    print('HARVEST %s/%s: %s' % (fn.name, header.name, [repr(x) for x in found.values()][:30]))
                if found:
                    partners = sorted(found.values(), key=lambda c_: (len(c_.t), str(c_.key())))[:150]
                    templ = None
                    continue
            keep = []
            lsub = []
            reflip = False
            for (T, lf) in latches:
                m, bad = self.latch_subst(fn, T, lf, newsyms)
                for wk in bad:
                    if wk not in flipped:
                        flipped.add(wk)
                        if wk[0] in ('pstride', 'objcell', 'istride', 'pnull'):
                            signs[wk] = True
                        else:
                            cur = [n for n in newsyms if self.what_key(n[2]) == wk][0][4]
                            signs[wk] = not cur
                        reflip = True
                lsub.append((T, m))
            if reflip:
                # the meaning of a loop-head symbol changed (stride, signedness): what was harvested from the body in the
                # old units is void - harvest again
                templ = None
                harvested = False
                partners = []
                continue
            dbg = os.environ.get('VERIF_DEBUG_LOOPS')
            if dbg:
                print('LOOP %s/%s iter %d: syms=%s cands=%d latches=%d exits=%d' % (
                    fn.name, header.name, it, [(str(n[0]), str(n[1]), n[2][0], n[4]) for n in newsyms],
                    len(cands), len(latches), len(exits)))
            for c, t in zip(cands, templ):
                ok = True
                for (T, m) in lsub:
                    if any(sy in c.t for sy in m.get('__missing__', ())) or \
                            not T.cons.entails(c.subst(m)):
                        ok = False
                        if dbg:
                            print('   drop %r  (latch value %r)' % (c, c.subst(m)))
                        break
                if ok:
                    keep.append(t)
            if len(keep) != len(templ):
                templ = keep
                continue
            if dbg:
                print('KEPT %s/%s: %s' % (fn.name, header.name, [repr(c) for c in cands]))
            break
        else:
            raise AnalysisBroken('loop invariant inference did not converge in %s (header %s)'
                                 % (fn.name, header.name))
        # final pass, obligations recorded
        H, newsyms = self.build_head(st, fn, L, phis, inits, modified, smashed, signs)
        ren = {('$', n): ns[0] for n, ns in enumerate(newsyms)}
        for c in templ:
            H.cons.add(c.subst(ren))
        body_rets = []
        head_ghost = {k: H.ghost.get(k) for k in self.ghost_keys}
        latches, exits = self.run_region(fn, L, [(H, frm)], body_rets)
        for (T, lf) in latches:
            for k in self.ghost_keys:
                if T.ghost.get(k) != head_ghost[k]:
                    self.oblige('ghost-loop-invariant', header.term, False,
                                'analysis state %s changes across an iteration of the loop at %s (%r -> %r)'
                                % (k, header.term.where(), head_ghost[k], T.ghost.get(k)), k)
        rets.extend(body_rets)
        if outer_written is not None:
            outer_written |= H.written
        for (s, f, t) in exits:
            s.written = outer_written
        for (s, r) in body_rets:
            s.written = outer_written
        return exits

    def try_peel(self, fn, L, st, frm, rets):
        header = L['header']
        self.last_peel_error = None
        cur = [(st.fork(), frm)]
        saved_written = st.written
        all_exits = []
        all_rets = []
        self.recording += 1
        ok = False
        try:
            for k in range(self.max_peel + 1):
                nxt = []
                for (s, f) in cur:
                    self.eval_phis(fn, header, s, f)
                    latches, exits = self.run_region(fn, L, [(s, f)], all_rets)
                    nxt.extend(latches)
                    all_exits.extend(exits)
                if not nxt:
                    ok = True
                    break
                if len(nxt) > self.max_peel_states:
                    break
                cur = nxt
        except AnalysisBroken as e:
            ok = False
            self.last_peel_error = str(e)
        finally:
            self.recording -= 1
        if not ok:
            return None
        # the loop terminates within MAX_PEEL iterations on every path: redo with recording on
        cur = [(st, frm)]
        out = []
        for k in range(self.max_peel + 1):
            nxt = []
            for (s, f) in cur:
                self.eval_phis(fn, header, s, f)
                latches, exits = self.run_region(fn, L, [(s, f)], rets)
                nxt.extend(latches)
                out.extend(exits)
            if not nxt:
                break
            cur = nxt
        return out

    @staticmethod
    def what_key(what):
        return (what[0], what[1].id) if what[0] in ('phi', 'pphi', 'sphi') else (what[0], what[1])

    def build_head(self, st, fn, L, phis, inits, modified, smashed, signs=None):
        signs = signs or {}
        """loop-head abstraction: fresh symbols for header phis and for the
        memory cells written in the loop; cells of smashed objects dropped"""
        H = st.fork()
        H.written = set()
        newsyms = []   # (sym Lin, init Lin|None, what, width, signed)
        for ph in phis:
            iv = inits[ph.id]
            hint = str(ph.name or ph.id)
            if isinstance(iv, IntVal):
                signed = signs.get(('phi', ph.id))
                if signed is None:
                    signed = self.phi_signed(fn, L, ph, iv, st)
                init = st.as_s(iv) if signed else st.as_u(iv)
                # an unsigned counter advanced by one constant c >= 2 on every back edge (`off += 24`): value = entry value +
                # c * k with k a fresh non-negative integer, so that `off < n * 24` gives `off + 24 <= n * 24` (the integer
                # counterpart of the strided pointer cursor below).  Given up (plain symbol) when a back-edge value is not of
                # that form, e.g. because the addition may wrap.
                stride = None
                if not signed and init is not None and iv.w >= 32 and not signs.get(('istride', ph.id)):
                    steps = set()
                    for (bb, v) in ph.incoming:
                        if fn.bmap[bb] in L['blocks']:
                            g = fn.insts[v.id] if v.k == 'inst' else None
                            if g is not None and g.op == 'add' and g.ops[0].k == 'inst' and g.ops[0].id == ph.id and \
                                    g.ops[1].k == 'ci' and g.ops[1].ival >= 2:
                                steps.add(g.ops[1].ival)
                            else:
                                steps.add(None)
                    if len(steps) == 1 and None not in steps:
                        stride = steps.pop()
                if stride is not None:
                    k_ = H.fresh_int(64, True, 'sidx_' + hint)
                    H.cons.add_le(0, k_.s)
                    val = init + k_.s * stride
                    H.cons.add_le(val, (1 << iv.w) - 1)
                    H.env[('i', ph.id)] = IntVal(iv.w, val, None)
                    newsyms.append((k_.s, Lin(0), ('sphi', ph, stride, init), 64, True))
                    continue
                x = H.fresh_int(iv.w, signed, 'phi_' + hint)
                H.env[('i', ph.id)] = x
                newsyms.append(((x.s if signed else x.u), init, ('phi', ph), iv.w, signed))
            elif isinstance(iv, PtrVal) and (iv.obj is not None or not signs.get(('pnull', ph.id))):
                # (a cursor that starts at nullptr + k - the begin()/end() loops of a container without storage - is kept as
                # null + offset as long as every back edge stays null-based; otherwise ('pnull') it is an unknown pointer)
                # pointer phi: offset = entry offset + stride * x, x a fresh
                # integer (stride = pointee size, so that p != end over
                # elements is exact integer reasoning)
                stride = ph.ty.get('elemsize') or 1
                # a cursor advanced by a constant number of elements per iteration (it += 2)
                for (bb, v) in ph.incoming:
                    if fn.bmap[bb] in L['blocks'] and v.k == 'inst':
                        g = fn.insts[v.id]
                        if g.op == 'getelementptr' and g.ops[0].k == 'inst' and g.ops[0].id == ph.id:
                            st_ = g.d['gep']['steps']
                            if len(st_) == 1 and st_[0]['k'] == 'index' and st_[0]['v']['k'] == 'ci' and \
                                    st_[0]['v']['v'] not in (0,):
                                stride = abs(st_[0]['stride'] * st_[0]['v']['v'])
                if signs.get(('pstride', ph.id)):
                    stride = 1
                x = H.fresh_int(64, True, 'pidx_' + hint)
                if not hasattr(self, '_pphi_obj'):
                    self._pphi_obj = {}
                self._pphi_obj[ph.id] = iv.obj
                H.env[('i', ph.id)] = PtrVal(iv.obj, iv.off + x.s * stride, iv.lo, iv.hi, iv.nonnull)
                newsyms.append((x.s, Lin(0), ('pphi', ph, stride, iv.off), 64, True))
            elif isinstance(iv, CondVal):
                H.env[('i', ph.id)] = CondVal('unknown')
            elif isinstance(iv, PtrVal):
                H.env[('i', ph.id)] = self.unknown_ptr(H, 'phi')
            else:
                H.env[('i', ph.id)] = self.top_of_type(H, ph.ty, 'phi')
        for k in sorted(modified, key=str):
            old = st.mem.get(k)
            H.mem.pop(k, None)
            if isinstance(old, IntVal):
                signed = signs.get(('cell', k))
                if signed is None:
                    signed = self.cell_signed(st, k, old)
                init = st.as_s(old) if signed else st.as_u(old)
                x = H.fresh_int(old.w, signed, 'cell')
                H.mem[k] = x
                newsyms.append(((x.s if signed else x.u), init, ('cell', k), old.w, signed))
            elif isinstance(old, PtrVal) and (old.obj is None or signs.get(('objcell', k))):
                # a pointer cell that is re-pointed to another block inside the loop (e.g. a container that
                # reallocates): summary object whose size is a loop-head symbol; may be null when it was null
                sz = H.fresh_int(64, False, 'blocksize')
                eo = st.objs.get(old.obj) if old.obj is not None else None
                init = Lin(0) if old.obj is None else (eo.size if eo is not None else None)
                no = H.new_obj('heap', sz.u, 'loopblock', {'desc': 'block held in a pointer cell across loop iterations'})
                H.mem[k] = PtrVal(no.id, Lin(0), None, None, bool(old.obj is not None and old.nonnull))
                newsyms.append((sz.u, init, ('osize', k), 64, False))
            elif isinstance(old, PtrVal) and old.obj is not None:
                x = H.fresh_int(64, True, 'cellp')
                H.mem[k] = PtrVal(old.obj, x.s, old.lo, old.hi, old.nonnull)
                newsyms.append((x.s, old.off, ('pcell', k, old.obj), 64, True))
        for oid in smashed:
            for k in list(H.mem):
                if oid == '*':
                    o = H.objs.get(k[0])
                    if o is not None and o.kind == 'alloca' and not o.info.get('escaped'):
                        continue
                    H.mem.pop(k, None)
                elif k[0] == oid:
                    H.mem.pop(k, None)
        # symbols of cells that were dropped by smashing have no latch value
        newsyms = [n for n in newsyms if n[2][0] in ('phi', 'pphi', 'sphi') or n[2][1] in H.mem]
        return H, newsyms

    def cell_signed(self, st, k, old):
        o = st.objs.get(k[0])
        if o is not None and o.info.get('struct'):
            for f in self.mod.flat_fields(o.info['struct']):
                if f['off'] == k[1] and f.get('signed') in (0, 1):
                    want = f['signed'] == 1
                    if want and st.as_s(old) is not None:
                        return True
                    if not want and st.as_u(old) is not None:
                        return False
        return old.u is None

    def phi_signed(self, fn, L, ph, iv, st):
        # source-level signedness of the variable bound to this phi
        m = getattr(fn, '_dbg_signed', None)
        if m is None:
            m = {}
            for b in fn.blocks:
                for i in b.insts:
                    if i.op == 'dbg' and i.ops and i.ops[0].k == 'inst' and i.d.get('signed', -1) in (0, 1):
                        m.setdefault(i.ops[0].id, i.d['signed'] == 1)
            fn._dbg_signed = m
        if ph.id in m:
            want = m[ph.id]
            if want and st.as_s(iv) is not None:
                return True
            if not want and st.as_u(iv) is not None:
                return False
        if iv.u is None:
            return True
        if iv.s is None:
            return False
        # constant-like init: look at the latch update
        for (bb, v) in ph.incoming:
            blk = fn.bmap[bb]
            if blk in L['blocks'] and v.k == 'inst':
                ins = fn.insts[v.id]
                if ins.op in ('add', 'sub') and ins.d.get('nsw'):
                    return True
                if ins.op in ('add', 'sub'):
                    return False
        return False

    def latch_subst(self, fn, T, lf, newsyms):
        """(mapping fresh loop-head symbol -> its value at the latch state T,
        list of what-keys whose value has no form in the symbol's signedness)"""
        m = {}
        bad = []
        missing = []
        for (xl, init, what, w, signed) in newsyms:
            sym = next(iter(xl.t))
            l = None
            if what[0] in ('phi', 'pphi', 'sphi'):
                ph = what[1]
                nv = None
                for (bb, v) in ph.incoming:
                    if bb == lf.name:
                        nv = self.val(T, v, fn)
                if what[0] == 'sphi':
                    lu = T.as_u(nv) if isinstance(nv, IntVal) else None
                    if lu is not None:
                        d = lu - what[3]
                        # wrap-around terms that the state excludes
                        for sy in list(d.t):
                            if T.cons.entails_eq(Lin.sym(sy), 0):
                                d = d.subst({sy: Lin(0)})
                        if d.divisible(what[2]):
                            l = d.div_exact(what[2])
                    if l is None:
                        bad.append(('istride', ph.id))
                elif what[0] == 'phi':
                    if isinstance(nv, IntVal):
                        l = T.as_s(nv) if signed else T.as_u(nv)
                        if l is None:
                            bad.append(self.what_key(what))
                elif isinstance(nv, PtrVal) and nv.obj is None and self._pphi_obj.get(ph.id) is None:
                    d = nv.off - what[3]
                    if what[2] == 1:
                        l = d
                    elif d.divisible(what[2]):
                        l = d.div_exact(what[2])
                    else:
                        bad.append(('pstride', ph.id))
                elif self._pphi_obj.get(ph.id) is None:
                    bad.append(('pnull', ph.id))
                elif isinstance(nv, PtrVal) and nv.obj is not None:
                    d = nv.off - what[3]
                    if what[2] == 1:
                        l = d
                    elif d.divisible(what[2]):
                        l = d.div_exact(what[2])
                    else:
                        bad.append(('pstride', ph.id))
            elif what[0] == 'cell':
                nv = T.mem.get(what[1])
                if isinstance(nv, IntVal):
                    l = T.as_s(nv) if signed else T.as_u(nv)
                    if l is None:
                        bad.append(self.what_key(what))
            elif what[0] == 'osize':
                nv = T.mem.get(what[1])
                if isinstance(nv, PtrVal):
                    if nv.is_null:
                        l = Lin(0)
                    elif nv.off.is_const() and nv.off.c == 0:
                        o_ = T.objs.get(nv.obj)
                        if o_ is not None and o_.size is not None:
                            l = o_.size
            else:
                nv = T.mem.get(what[1])
                if isinstance(nv, PtrVal) and nv.obj is not None:
                    if nv.obj != what[2]:
                        bad.append(('objcell', what[1]))
                    else:
                        l = nv.off
            if l is None:
                missing.append(sym)
            else:
                m[sym] = l
        m['__missing__'] = missing
        return m, bad

    def gen_candidates(self, st, newsyms, partners=()):
        """template candidates (over placeholders ('$', i) standing for the
        i-th loop-head symbol) that hold on loop entry"""
        from lin import normalize, cone
        out = []
        seen = set()
        init_map = {}
        usable = []
        for n, (xl, init, what, w, signed) in enumerate(newsyms):
            if init is None:
                continue
            ph = ('$', n)
            init_map[ph] = init
            usable.append((Lin.sym(ph), init))

        def add(c):
            c = normalize(c)
            k = c.key()
            if k in seen or not c.t:
                return
            seen.add(k)
            if st.cons.entails(c.subst(init_map)):
                out.append(c)
        rel = set()
        for (xl, init) in usable:
            rel.update(init.t.keys())
        # one hop: symbols directly related to the initial values
        hop = set()
        for l in st.cons.items:
            if len(l.t) <= 3 and any(s in rel for s in l.t):
                hop.update(l.t.keys())
        for s_ in sorted(hop, key=str):
            if len(rel) < 8:
                rel.add(s_)
        rel = sorted(rel, key=str)
        ptrish = set()
        for n, (xl, init, what, w, signed) in enumerate(newsyms):
            if what[0] in ('pphi', 'pcell'):
                ptrish.add(('$', n))
        for (xl, init) in usable:
            add(xl - init)        # x <= init
            add(init - xl)        # x >= init
            for k in (0, 1, -1):
                add(xl - k)
                add(Lin(k) - xl)
            for y in rel:
                yl = Lin.sym(y)
                for k in (0, -1):
                    add(xl - yl - k)      # x <= y + k
                    add(yl - xl - k)      # x >= y - k
        for n, (xl, init, what, w, signed) in enumerate(newsyms):
            if what[0] == 'pphi' and init is not None:
                ph, stride, base_off = what[1], what[2], what[3]
                cur = st.env.get(('i', ph.id))
                pv = None
                for (bb, v) in ph.incoming:
                    pass
                obj = self._pphi_obj.get(ph.id) if hasattr(self, '_pphi_obj') else None
                if obj is not None:
                    o = st.objs.get(obj)
                    off = base_off + Lin.sym(('$', n)) * stride
                    if o is not None:
                        add(-off)                       # offset >= 0
                        if o.size is not None:
                            add(off - o.size)           # offset <= object size (one past the end allowed)
                        if o.info.get('cstr_len') is not None:
                            add(off - o.info['cstr_len'])       # cursor <= terminator position
                            add(off - o.info['cstr_len'] - 1)
        for c in partners:
            for k in (0, 1, 2, -1):
                add(c - k)
        for a in range(len(usable)):
            for b in range(a + 1, len(usable)):
                xa, ia = usable[a]
                xb, ib = usable[b]
                pairs = [(1, 1), (1, -1)]
                pa = next(iter(xa.t)) in ptrish
                pb = next(iter(xb.t)) in ptrish
                if pa != pb:
                    pairs += [(1, -2), (1, -4), (1, -8), (1, 2), (1, 4), (1, 8),
                              (-2, 1), (-4, 1), (-8, 1), (2, 1), (4, 1), (8, 1)]
                if pa == pb:
                    # two cursors (pointers or indices) of which one advances up to twice as fast (escaping encoders)
                    pairs += [(1, -2), (2, -1)]
                for ka, kb in pairs:
                    e = xa * ka + xb * kb - (ia * ka + ib * kb)
                    add(e)
                    add(-e)
        return out


# ----------------------------------------------------------------------
# external function summaries
# ----------------------------------------------------------------------
def _len_arg(interp, st, v):
    if isinstance(v, IntVal):
        return st.force_u(v, 'n')
    f = st.fresh_int(64, False, 'n')
    return f.u


def ext_memcpy(interp, st, i, args):
    d, s, n = args[0], args[1], args[2]
    nl = _len_arg(interp, st, n)
    if not (nl.is_const() and nl.c == 0):
        interp.check_access(st, d, nl, i, 'memcpy-dst')
        interp.check_access(st, s, nl, i, 'memcpy-src')
    copy = []
    if nl.is_const() and nl.c <= 256 and isinstance(d, PtrVal) and isinstance(s, PtrVal) and \
            d.obj is not None and s.obj is not None and d.off.is_const() and s.off.is_const():
        # small constant-size copy between known locations: cells move along
        for (o, off, sz), v in list(st.mem.items()):
            if o == s.obj and off >= s.off.c and off + sz <= s.off.c + nl.c:
                copy.append((off - s.off.c + d.off.c, sz, v))
    interp.mem_range_write(st, d, nl, i)
    for (off, sz, v) in copy:
        st.mem[(d.obj, off, sz)] = v
        if st.written is not None:
            st.written.add((d.obj, off, sz))
    return [(st, d)]


def ext_memset(interp, st, i, args):
    d, n = args[0], args[2]
    nl = _len_arg(interp, st, n)
    if not (nl.is_const() and nl.c == 0):
        interp.check_access(st, d, nl, i, 'memset-dst')
    interp.mem_range_write(st, d, nl, i)
    return [(st, d)]


def ext_strlen(interp, st, i, args):
    r = st.fresh_int(i.ty.get('bits', 64), False, 'strlen')
    p = args[0]
    if isinstance(p, PtrVal) and p.obj is not None:
        o = st.objs.get(p.obj)
        if o is not None and o.info.get('cstr_len') is not None:
            # object known to hold a terminated string of given length
            return [(st, IntVal(r.w, o.info['cstr_len'] - p.off, None))]
    return [(st, r)]


def ext_strmcrc8(interp, st, i, args):
    """igris_strmcrc8(uint8_t *crc, char c): updates the byte *crc; the
    numerical value is irrelevant to the bounds/shape clauses, so it is
    summarised as 'reads and writes exactly one byte at crc' (the routine
    itself is analysed under property C17)"""
    p = args[0]
    interp.check_access(st, p, 1, i, 'load')
    v = st.fresh_int(8, False, 'crc')
    interp.store(st, p, v, 1, i)
    return [(st, None)]


def ext_is_constant(interp, st, i, args):
    """llvm.is.constant (__builtin_constant_p): either answer is allowed, both are explored"""
    return [(st, CondVal('unknown'))]


def ext_noreturn(interp, st, i, args):
    st.bottom = True
    return []


def ext_pure(interp, st, i, args):
    return [(st, None)]


def ext_malloc(interp, st, i, args):
    n = args[0]
    size = st.force_u(n) if isinstance(n, IntVal) else None
    o = st.new_obj('heap', size, 'heap', {'desc': 'heap block allocated by %s' % (i.fn.srcname or i.fn.name)})
    return [(st, PtrVal(o.id, Lin(0), None, None, False))]


def ext_new(interp, st, i, args):
    """operator new never returns null"""
    n = args[0]
    size = st.force_u(n) if isinstance(n, IntVal) else None
    o = st.new_obj('heap', size, 'heap', {'desc': 'heap block allocated by %s' % (i.fn.srcname or i.fn.name)})
    return [(st, PtrVal(o.id, Lin(0), None, None, True))]


def ext_free(interp, st, i, args):
    return [(st, None)]


def ext_llvm_intrinsic_pure(interp, st, i, args):
    return [(st, None)]


DEFAULT_EXTERNALS = {
    'memcpy': ext_memcpy, 'memmove': ext_memcpy, 'memset': ext_memset,
    'strlen': ext_strlen,
    'abort': ext_noreturn, 'exit': ext_noreturn, '__assert_fail': ext_noreturn,
    '_exit': ext_noreturn, '__cxa_pure_virtual': ext_noreturn,
    '_ZSt9terminatev': ext_noreturn,
    'malloc': ext_malloc, 'free': ext_free,
    '_Znwm': ext_new, '_Znam': ext_new, '_ZdlPv': ext_free, '_ZdaPv': ext_free,
    'isdigit': ext_pure, 'isspace': ext_pure, 'isalpha': ext_pure, 'isupper': ext_pure,
    'islower': ext_pure, 'isxdigit': ext_pure, 'isalnum': ext_pure, 'toupper': ext_pure,
    'tolower': ext_pure, 'isprint': ext_pure,
}

PREFIX_EXTERNALS = [
    ('llvm.memcpy.', ext_memcpy), ('llvm.memmove.', ext_memcpy),
    ('llvm.memset.', ext_memset),
    ('llvm.trap', ext_noreturn),
    ('llvm.stacksave', ext_pure), ('llvm.stackrestore', ext_pure),
    ('llvm.assume', ext_pure), ('llvm.expect', None),
    ('llvm.va_', ext_pure), ('llvm.dbg.', ext_pure), ('llvm.lifetime.', ext_pure), ('llvm.donothing', ext_pure),
    ('llvm.prefetch', ext_pure), ('llvm.is.constant', ext_is_constant),
]
PREFIX_EXTERNALS = [(p, f) for p, f in PREFIX_EXTERNALS if f is not None]
