"""Symbolic-heap (shape) analysis of intrusive-list primitives on top of the IR
abstract interpreter.

A configuration is a set of rings; a ring is a cyclic sequence of tokens:
explicit cells (named abstract objects) and opaque gaps ('G', k) standing for
one or more further nodes that the primitive must not touch.  Pointers are
abstract addresses (object, offset) - no concrete numbers.  The primitive's IR
is interpreted on the configuration (callees inlined); the resulting cells are
compared with the heap induced by the expected ring sequences (the
specification, written independently on sequences).  Because a primitive may
only touch explicit cells (any access to a gap object is reported), the
verdict for a configuration extends to every concrete heap it abstracts
(frame rule)."""
import itertools
from lin import Lin
from absval import State, PtrVal, IntVal, Obj, NULL, TOP
from absint import Interp
from irlib import AnalysisBroken

NEXT, PREV = 0, 8


def is_gap(t):
    return isinstance(t, tuple) and t[0] == 'G'


def gen_rings(anchor, args, others, max_len=6, require_args=True):
    """all cyclic rings starting at 'anchor' that contain exactly the arg cells
    'args' (anchor included in args), up to len(others) further explicit
    cells (used in order) and gaps, such that no arg cell is adjacent to a gap
    and no two gaps are adjacent; up to rotation (anchor first)."""
    out = []
    rest_args = [a for a in args if a != anchor]
    for n_oth in range(len(others) + 1):
        oth = list(others[:n_oth])
        base = rest_args + oth
        for n_gap in range(0, 3):
            toks = base + [('G', g) for g in range(n_gap)]
            if len(toks) + 1 > max_len:
                continue
            seen = set()
            for perm in itertools.permutations(toks):
                # others and gaps must appear in index order (symmetry breaking)
                oi = [p for p in perm if p in oth]
                if oi != oth:
                    continue
                gi = [p[1] for p in perm if is_gap(p)]
                if gi != sorted(gi):
                    continue
                ring = [anchor] + list(perm)
                if ring_ok(ring, args):
                    k = tuple(ring)
                    if k not in seen:
                        seen.add(k)
                        out.append(ring)
    return out


def ring_ok(ring, args):
    n = len(ring)
    for i, t in enumerate(ring):
        nx = ring[(i + 1) % n]
        pv = ring[(i - 1) % n]
        if is_gap(t):
            if n < 3:
                return False
            if is_gap(nx) or is_gap(pv):
                return False
        elif t in args:
            if is_gap(nx) or is_gap(pv):
                return False
    return True


class Heap:
    """doubly linked rings: cell -> (next token-address, prev token-address)"""

    def __init__(self, rings, loose=(), fields=(NEXT, PREV)):
        self.rings = [list(r) for r in rings]
        self.loose = list(loose)      # cells whose link fields are unspecified (garbage)
        self.fields = fields

    def cells(self):
        out = []
        for r in self.rings:
            for t in r:
                if not is_gap(t) and t not in out:
                    out.append(t)
        for c in self.loose:
            if c not in out:
                out.append(c)
        return out

    def links(self, ringtag=''):
        """cell -> {NEXT: target, PREV: target}; target = ('cell', name) | ('gap', ring#, k, side)"""
        m = {}
        for ri, r in enumerate(self.rings):
            n = len(r)
            for i, t in enumerate(r):
                if is_gap(t):
                    continue
                nx = r[(i + 1) % n]
                pv = r[(i - 1) % n]
                m[t] = {NEXT: self.addr(nx, 'L'), PREV: self.addr(pv, 'R')}
        return m

    @staticmethod
    def addr(t, side):
        if is_gap(t):
            return ('gap', t[1], side) if len(t) == 2 else ('gap', t[1], t[2], side)
        return ('cell', t)


def tag_gaps(rings):
    """make gap tokens unique across rings: ('G', ring#, k)"""
    out = []
    for ri, r in enumerate(rings):
        out.append([('G', ri, t[1]) if is_gap(t) and len(t) == 2 else t for t in r])
    return out


class ShapeRunner:
    def __init__(self, mod, cell_size=16, fields=(NEXT, PREV), field_off=0):
        self.mod = mod
        self.cell_size = cell_size
        self.fields = fields
        self.results = []       # dict(function, config, ok, detail)
        self.footprint = []     # footprint-exceeded events
        self.configs = 0

    def build(self, rings, loose=(), extra_cells=(), cell_sizes=None, link_off=None):
        """State with one abstract object per explicit cell and per gap side"""
        st = State()
        objs = {}
        rings = tag_gaps(rings)
        h = Heap(rings, loose, self.fields)
        cell_sizes = cell_sizes or {}
        link_off = link_off or {}
        for c in list(h.cells()) + list(extra_cells):
            if c in objs:
                continue
            o = st.new_obj('param', Lin(cell_sizes.get(c, self.cell_size)), 'cell_' + str(c),
                           {'desc': 'list cell ' + str(c)})
            objs[c] = o
        gaps = {}

        def target(a):
            if a[0] == 'cell':
                return PtrVal(objs[a[1]].id, Lin(link_off.get(a[1], 0)))
            key = a[1:]
            if key not in gaps:
                g = st.new_obj('param', Lin(0), 'opaque_%s' % '_'.join(str(x) for x in key),
                               {'desc': 'opaque node(s) outside the footprint', 'opaque': True})
                gaps[key] = g
            return PtrVal(gaps[key].id, Lin(0))
        for c, lk in h.links().items():
            base = link_off.get(c, 0)
            for f in self.fields:
                st.mem[(objs[c].id, base + f, 8)] = target(lk[f])
        return st, objs, gaps, rings

    def run(self, fname, fn, args_builder, rings, expect, loose=(), extra_cells=(), label=None,
            cell_sizes=None, link_off=None, ret_check=None, call_hook=None):
        """expect(rings) -> dict(rings=[...], self=[cells self-linked], poison=[cells], keep=[cells untouched])"""
        self.configs += 1
        st, objs, gaps, rings = self.build(rings, loose, extra_cells, cell_sizes, link_off)
        link_off = link_off or {}
        it = Interp(self.mod)
        it.call_hook = call_hook
        args = args_builder(st, objs)
        try:
            rets = it.run_function(fn, st, args)
        except AnalysisBroken as e:
            raise
        cfg = label or self.describe(rings, loose)
        # footprint: any access to an opaque object
        fp = [ob for ob in it.obligs.values() if not ob.ok and ob.objdesc and 'opaque' in ob.objdesc]
        other_bad = [ob for ob in it.obligs.values() if not ob.ok and not (ob.objdesc and 'opaque' in ob.objdesc)]
        if fp:
            self.footprint.append((fname, cfg, fp[0].where))
        exp = expect(rings)
        if exp is None:
            return
        exp_rings = tag_gaps(exp.get('rings', []))
        want = Heap(exp_rings, (), self.fields).links()
        for c in exp.get('self', []):
            want[c] = {f: ('cell', c) for f in self.fields}
        ok = True
        detail = None
        if not rets:
            ok = False
            detail = 'no feasible return'
        for (T, rv) in rets:
            for c, lk in want.items():
                base = link_off.get(c, 0)
                for f in self.fields:
                    v = T.mem.get((objs[c].id, base + f, 8))
                    w = lk[f]
                    good = False
                    if isinstance(v, PtrVal) and v.obj is not None and v.off.is_const():
                        if w[0] == 'cell':
                            good = v.obj == objs[w[1]].id and v.off.c == link_off.get(w[1], 0)
                        else:
                            g = gaps.get(w[1:])
                            good = g is not None and v.obj == g.id and v.off.c == 0
                    if not good:
                        ok = False
                        fname_ = {NEXT: 'next', PREV: 'prev'}.get(f, 'field@%d' % f)
                        detail = ('configuration %s: after the call, %s.%s = %s but the list model requires %s'
                                  % (cfg, c, fname_, self.show(T, v, objs, gaps), self.showw(w)))
                        break
                if not ok:
                    break
            for c in exp.get('poison', []):
                for f in self.fields:
                    v = T.mem.get((objs[c].id, link_off.get(c, 0) + f, 8))
                    if isinstance(v, PtrVal) and v.obj is not None:
                        o = T.objs.get(v.obj)
                        if o is not None and o.kind == 'param':
                            ok = False
                            detail = ('configuration %s: removed node %s still points into a list (%s)'
                                      % (cfg, c, self.show(T, v, objs, gaps)))
            if ret_check is not None and ok:
                r = ret_check(T, rv, objs, it)
                if r is not None:
                    ok = False
                    detail = 'configuration %s: %s' % (cfg, r)
            if not ok:
                break
        if other_bad and ok:
            ok = False
            detail = 'configuration %s: %s' % (cfg, other_bad[0].detail)
        self.results.append({'function': fname, 'config': cfg, 'ok': ok, 'detail': detail,
                             'where': '%s:%d' % (fn.file, fn.line)})

    def show(self, T, v, objs, gaps):
        if not isinstance(v, PtrVal):
            return 'a non-pointer value (%r)' % (v,)
        if v.obj is None:
            return 'NULL'
        for c, o in objs.items():
            if o.id == v.obj:
                return '&%s%s' % (c, '' if v.off == Lin(0) else '+%r' % v.off)
        for k, g in gaps.items():
            if g.id == v.obj:
                return 'opaque%r' % (k,)
        return 'an address outside the lists (%s)' % v.obj

    @staticmethod
    def showw(w):
        return '&%s' % w[1] if w[0] == 'cell' else 'opaque%r' % (w[1:],)

    @staticmethod
    def describe(rings, loose):
        def tok(t):
            return '..' if is_gap(t) else str(t)
        s = ' | '.join('(' + ' '.join(tok(t) for t in r) + ')' for r in rings)
        if loose:
            s += ' fresh:' + ','.join(loose)
        return s


# ---- sequence-model rewrites (the specification) ----
def seq_remove(rings, x):
    out = []
    for r in rings:
        if x in r:
            r2 = [t for t in r if t != x]
            if r2:
                out.append(r2)
        else:
            out.append(list(r))
    return out


def seq_insert_after(rings, x, a):
    out = []
    for r in rings:
        if a in r:
            i = r.index(a)
            out.append(r[:i + 1] + [x] + r[i + 1:])
        else:
            out.append(list(r))
    return out


def seq_insert_before(rings, x, a):
    out = []
    for r in rings:
        if a in r:
            i = r.index(a)
            out.append(r[:i] + [x] + r[i:])
        else:
            out.append(list(r))
    return out
