"""C08, CONTENT clauses of compat/libc/string: which byte ends up where, and the result values that depend on contents.

Byte-identity analysis on top of the abstract interpreter.  Every byte position of every buffer handed to a function
is one 8-bit symbol (0..255, or 1..255 for the characters of a string, the constant 0 for its terminator); sizes,
string lengths, overlap offsets are small CONCRETE numbers, one scenario per combination, so every offset is a constant,
every loop runs on decided bounds (it is unrolled, never abstracted) and each byte stored can be compared, at the
return, with the byte the ISO C / POSIX definition prescribes.  Byte VALUES stay symbolic: a path through a function is
a conjunction of (in)equalities between byte symbols, so one scenario covers every content of that shape, and a
content-dependent result (strchr, strspn, strstr, memcmp ...) is compared with a reference evaluated on the same
symbols; atoms the path left undecided are case-split (finite case analysis inside the linear domain, no solver).
Wide accesses (memcpy's word path) are modelled exactly: memory is byte-granular, a k-byte load yields a composite
value that remembers its bytes, a k-byte store writes them back one by one.  Calls between the units (memmove ->
memcpy, strchr -> strchrnul, strtok_r -> strchr/strcspn, strdup -> strlen/strcpy ...) are followed into the callee's
own unit; malloc is summarised (fresh block of the requested size, or NULL).  Nothing is executed.

Rules
  R-COPY     memcpy memmove strcpy strncpy strlcpy strcat strncat strdup strndup : destination bytes == prescribed
             source bytes / padding / terminator, nothing else written, source unchanged
  R-FILL     memset : exactly n bytes, each == (unsigned char)c
  R-INPLACE  strlwr strupr (every position of longer strings), strtok_r strtok (delimiter behind the token zeroed,
             nothing else written, *saveptr, returned token start)
  R-FIND     memchr memrchr strchr strrchr strchrnul strspn strcspn strpbrk strstr strcasestr : first / last matching
             position, stated with per-position facts
  R-ORDER    memcmp strcmp strncmp : sign of the result follows the first differing byte (as unsigned char);
             strcasecmp strncasecmp : ... the first position whose lower-case folds differ
An instance is (rule:clause, function, clause-name); `:analysed` instances carry the floors: a scenario that cannot be
analysed exactly (opaque value, undecided loop) removes the function's `:analysed` instance -> exit 2, never a verdict.
"""
import os

from common import *
from irlib import compile_many, keep_all_but_new_helpers
from absval import PtrVal, IntVal, CondVal, NULL, TOP, State, mk_const
from lin import Lin

DIR = 'compat/libc/string'
UNITS = ['memchr', 'memcmp', 'memcpy', 'memmove', 'memrchr', 'memset', 'strcasecmp', 'strcasestr', 'strcat', 'strchr', 'strchrnul',
         'strcmp', 'strcpy', 'strcspn', 'strdup', 'strlcpy', 'strlen', 'strlwr', 'strncasecmp', 'strncat', 'strncmp', 'strncpy',
         'strndup', 'strnlen', 'strpbrk', 'strrchr', 'strspn', 'strstr', 'strtok', 'strupr']
G = 4                      # guard bytes on both sides of every buffer (writes there are frame violations)
EXACT_HINTS = ('carry', 'quot', 'squot', 'b', 'zx')


def X(tier):
    """the thorough tier widens every size range"""
    return 1 if tier == 'thorough' else 0


class Unresolved(Exception):
    """the scenario cannot be analysed exactly (engine imprecision): no verdict"""


def sym_exact(name):
    """symbols whose meaning the analysis controls: byte symbols (B.*), parameters (P.*), exact auxiliary symbols
    (carries of signed/unsigned conversions, quotients)"""
    if not isinstance(name, str):
        return False
    h = name.split('#')[0]
    return h.startswith('B.') or h.startswith('P.') or h in EXACT_HINTS or (h.startswith('k') and len(h) > 1)


# ----------------------------------------------------------------------------------------------------------------
# interpreter with byte-granular memory
# ----------------------------------------------------------------------------------------------------------------
class ByteInterp(Interp):
    def __init__(self, mods, unit):
        Interp.__init__(self, mods[unit], externals=None)
        self.mods = mods
        self.events = []              # accesses outside a buffer (the path ends there)
        self.fold_mode = 'sym'
        self.max_iter = 400
        self.max_loop_states = 600
        for n in UNITS:
            self.externals[n] = self.cross(n)
        self.externals['strtok_r'] = self.cross('strtok_r', 'strtok')
        self.externals['malloc'] = ext_malloc_block
        self.externals['free'] = lambda interp, st, i, args: [(st, None)]
        self.externals['tolower'] = ext_fold('lower')
        self.externals['toupper'] = ext_fold('upper')

    # ---- calls into other units --------------------------------------------------------------------------------
    def cross(self, name, unit=None):
        def ext(interp, st, i, args):
            m = interp.mods.get(unit or name)
            f = m.fn(name) if m is not None else None
            if f is None or f.decl:
                raise AnalysisBroken('%s: definition not found in %s/%s.c (anchor vanished)' % (name, DIR, unit or name))
            saved = interp.mod
            interp.mod = m
            interp.stack.append((name, i.where()))
            try:
                return interp.run_function(f, st, list(args))
            finally:
                interp.stack.pop()
                interp.mod = saved
        return ext

    def lookup_external(self, name):
        if name.startswith('llvm.memcpy.') or name.startswith('llvm.memmove.'):
            return ext_bytes_move
        if name.startswith('llvm.memset.'):
            return ext_bytes_set
        return Interp.lookup_external(self, name)

    def default_external(self, st, i, callee, args):
        raise Unresolved('call to %s, which has no summary in the content analysis' % callee)

    # ---- loops: executed, never abstracted -------------------------------------------------------------------------
    def run_loop(self, fn, L, st, frm, rets):
        header = L['header']
        cur = [(st, frm)]
        out = []
        phis = [i for i in header.insts if i.op == 'phi']
        seen = set()
        for k in range(self.max_iter):
            nxt = []
            for (s, f) in cur:
                self.eval_phis(fn, header, s, f)
                # the same loop-head state twice (same cursor values, same memory, same path condition): the loop never ends
                w = s.ghost.get('W', frozenset())
                sig = (tuple(repr(s.env.get(('i', ph.id))) for ph in phis), len(s.cons.items), len(s.diseq),
                       tuple(sorted((p_, self.vkey(s.mem.get(p_ + (1,)))) for p_ in w)))
                if sig in seen:
                    self.events.append(dict(fn=fn.name, kind='endless', where=header.term.where()))
                    continue
                if len(cur) == 1:
                    seen.add(sig)
                latches, exits = self.run_region(fn, L, [(s, f)], rets)
                nxt.extend(latches)
                out.extend(exits)
            if not nxt:
                return out
            if len(nxt) > self.max_loop_states:
                raise Unresolved('more than %d paths around the loop at %s' % (self.max_loop_states, header.term.where()))
            cur = nxt
        raise Unresolved('the loop at %s of %s is not finished after %d iterations on a concrete small input'
                         % (header.term.where(), fn.name, self.max_iter))

    # ---- memory ----------------------------------------------------------------------------------------------------
    @staticmethod
    def tracked(st, p):
        if isinstance(p, PtrVal) and p.obj is not None:
            o = st.objs.get(p.obj)
            if o is not None and o.info.get('bytes'):
                return o
        return None

    def check_access(self, st, p, size, inst, kind):
        o = self.tracked(st, p)
        if o is None:
            return Interp.check_access(self, st, p, size, inst, kind)
        if not p.off.is_const() or not isinstance(size, int) and not (isinstance(size, Lin) and size.is_const()):
            raise Unresolved('access to %s at a non-constant offset %r' % (o.info['label'], p.off))
        size = size if isinstance(size, int) else size.c
        self.checked += 1
        if p.off.c < 0 or p.off.c + size > o.size.c:
            self.events.append(dict(fn=inst.fn.name, kind=kind, label=o.info['label'], off=p.off.c - o.info.get('base', 0),
                                    size=size, where=inst.where()))
            st.bottom = True

    def byte(self, st, oid, off):
        v = st.mem.get((oid, off, 1))
        if v is None:
            v = st.fresh_int(8, False, 'B.uninit')
            st.mem[(oid, off, 1)] = v
        return v

    def load(self, st, p, ty, inst):
        o = self.tracked(st, p)
        if o is None:
            return Interp.load(self, st, p, ty, inst)
        size = ty.get('size')
        if ty.get('k') == 'int':
            size = (ty['bits'] + 7) // 8
        if size is None:
            raise Unresolved('load of an unsized type from %s' % o.info['label'])
        self.check_access(st, p, size, inst, 'load')
        if st.bottom:
            return TOP
        bs = [self.byte(st, p.obj, p.off.c + j) for j in range(size)]
        if ty.get('k') != 'int':
            raise Unresolved('load of a non-integer from %s' % o.info['label'])
        return self.assemble(st, bs, ty['bits'])

    @staticmethod
    def vkey(v):
        if isinstance(v, IntVal):
            return ('u', v.u.key()) if v.u is not None else ('s', v.s.key() if v.s is not None else id(v))
        return ('x', id(v))

    def assemble(self, st, bs, bits):
        """value of a wide load: the linear form sum 256^j * byte_j when every byte is a constant or one symbol (the
        byte lanes stay visible to shifts, masks and wide stores); otherwise a composite symbol that remembers its bytes"""
        if len(bs) == 1:
            return bs[0]
        if all(isinstance(b, IntVal) and b.const() is not None for b in bs):
            return mk_const(bits, sum(b.const() << (8 * j) for j, b in enumerate(bs)))
        form = Lin(0)
        for j, b in enumerate(bs):
            u = b.u if isinstance(b, IntVal) else None
            if u is None or not (u.is_const() or (u.c == 0 and list(u.t.values()) == [1])):
                form = None
                break
            form = form + u * (1 << (8 * j))
        if form is not None and self.lanes(st, IntVal(bits, form, None), len(bs)) is not None:
            return IntVal(bits, form, None)
        k = ('word', bits, tuple(self.vkey(b) for b in bs))
        w = st.conv.get(k)
        if w is None:
            w = st.fresh_int(bits, False, 'B.word')
            st.conv[k] = w
            st.conv[('parts', w.u.key())] = list(bs)
        return w

    def lanes(self, st, v, nbytes):
        """byte lanes (little endian, each a constant or one byte symbol) of an integer value, or None"""
        if not isinstance(v, IntVal):
            return None
        c = v.const()
        if c is not None:
            return [Lin((c >> (8 * j)) & 0xff) for j in range(nbytes)]
        u = v.u if v.u is not None else st.as_u(v)
        if u is None or u.c < 0:
            return None
        out = [None] * nbytes
        for sym, k in u.t.items():
            if k <= 0 or not sym_exact(sym):
                return None
            x = Lin.sym(sym)
            if not (st.cons.entails_le(x, 255) and st.cons.entails_le(0, x)):
                return None
            j = 0
            while k:
                d = k & 0xff
                if d not in (0, 1) or (d and (j >= nbytes or out[j] is not None)):
                    return None
                if d:
                    out[j] = x
                k >>= 8
                j += 1
        c, j = u.c, 0
        while c:
            d = c & 0xff
            if d and (j >= nbytes or out[j] is not None):
                return None
            if d:
                out[j] = Lin(d)
            c >>= 8
            j += 1
        return [x if x is not None else Lin(0) for x in out]

    @staticmethod
    def from_lanes(w, ls):
        form = Lin(0)
        for j, x in enumerate(ls):
            form = form + x * (1 << (8 * j))
        return mk_const(w, form.c) if form.is_const() else IntVal(w, form, None)

    def binop(self, st, op, a, b, inst):
        w = inst.bits
        if w and w > 8 and w % 8 == 0 and isinstance(a, IntVal) and isinstance(b, IntVal) and \
                not (a.const() is not None and b.const() is not None):
            nb = w // 8
            zero = Lin(0)
            if op in ('or', 'xor', 'add'):
                la, lb = self.lanes(st, a, nb), self.lanes(st, b, nb)
                if la is not None and lb is not None and all(x == zero or y == zero for x, y in zip(la, lb)):
                    return self.from_lanes(w, [x if y == zero else y for x, y in zip(la, lb)])
            elif op == 'and':
                for (x, m) in ((a, b), (b, a)):
                    mc = m.const()
                    if mc == 0xff:
                        l8 = self.low8(st, x)
                        if l8 is not None:
                            return IntVal(w, l8, l8)
                    if mc is not None and all(((mc >> (8 * j)) & 0xff) in (0, 0xff) for j in range(nb)):
                        lx = self.lanes(st, x, nb)
                        if lx is not None:
                            return self.from_lanes(w, [lx[j] if (mc >> (8 * j)) & 0xff else zero for j in range(nb)])
            elif op in ('shl', 'lshr') and b.const() is not None and b.const() % 8 == 0 and b.const() < w:
                la = self.lanes(st, a, nb)
                k = b.const() // 8
                if la is not None:
                    return self.from_lanes(w, ([zero] * k + la)[:nb] if op == 'shl' else la[k:] + [zero] * k)
        return Interp.binop(self, st, op, a, b, inst)

    @staticmethod
    def low8(st, v):
        """(unsigned char)v as a linear form, when the value is a character in one of its int disguises"""
        form = v.u if v.u is not None else v.s
        if form is None:
            return None
        t8 = st.conv.get(('tr8', form.key()))
        if t8 is not None:
            return st.force_u(t8)
        if v.u is not None and st.cons.entails_le(v.u, 255):
            return v.u
        if v.s is not None:
            if st.cons.entails_le(0, v.s) and st.cons.entails_le(v.s, 255):
                return v.s
            if st.cons.entails_le(-128, v.s) and st.cons.entails_le(v.s, -1):
                return v.s + 256
        return None

    def split(self, st, v, size):
        if isinstance(v, IntVal):
            if v.u is not None:
                ps = st.conv.get(('parts', v.u.key()))
                if ps is not None and len(ps) == size:
                    return list(ps)
            ls = self.lanes(st, v, size)
            if ls is not None:
                return [mk_const(8, x.c) if x.is_const() else IntVal(8, x, None) for x in ls]
        return [st.fresh_int(8, False, 'opaque') for _ in range(size)]

    def store(self, st, p, v, size, inst):
        o = self.tracked(st, p)
        if o is None:
            if isinstance(p, PtrVal) and p.obj is not None and st.objs.get(p.obj) is not None and \
                    st.objs[p.obj].kind == 'unknown':
                raise Unresolved('store through a pointer of unknown origin')
            return Interp.store(self, st, p, v, size, inst)
        self.check_access(st, p, size, inst, 'store')
        if st.bottom:
            return
        if size == 1:
            parts = [v if isinstance(v, IntVal) and v.w == 8 else st.fresh_int(8, False, 'opaque')]
        else:
            parts = self.split(st, v, size)
        w = st.ghost.get('W', frozenset())
        for j, b in enumerate(parts):
            st.mem[(p.obj, p.off.c + j, 1)] = b
        st.ghost['W'] = w | frozenset((p.obj, p.off.c + j) for j in range(size))

    # ---- characters: sign extension without losing the byte ---------------------------------------------------------
    @staticmethod
    def only_eq_users(fn, i, fold_sym=True):
        us = fn.users(i)
        return bool(us) and all((u.op == 'icmp' and u.pred in ('eq', 'ne')) or
                                (fold_sym and u.op == 'call' and u.callee in ('tolower', 'toupper')) for u in us)

    def sign_split(self, st, a):
        """states in which the sign bit of the 8-bit value a is decided and its signed form is linear"""
        u = st.force_u(a)
        if st.cons.entails_le(u, 127):
            return [st]
        if st.cons.entails_le(128, u):
            self.pin_high(st, u)
            return [st]
        hi = st.fork()
        st.cons.add_le(u, 127)
        hi.cons.add_le(128, u)
        self.pin_high(hi, u)
        return [s for s in (st, hi) if not self.infeasible(s, u, Lin(0))]

    @staticmethod
    def pin_high(st, u):
        st.conv[('s', 8, u.key())] = u - 256
        st.conv[('u', 8, (u - 256).key())] = u

    def exec_inst(self, fn, i, st):
        if i.op == 'trunc' and i.ty.get('bits') == 8:
            a = self.val(st, i.ops[0], fn)
            if isinstance(a, IntVal):
                form = a.u if a.u is not None else a.s
                t8 = st.conv.get(('tr8', form.key())) if form is not None else None
                if t8 is not None:
                    st.env[('i', i.id)] = t8
                    return [st]
        if i.op == 'sext' and i.ops[0].k in ('inst', 'arg'):
            a = self.val(st, i.ops[0], fn)
            if isinstance(a, IntVal) and a.w == 8 and a.const() is None:
                if self.only_eq_users(fn, i, self.fold_mode != 'ascii'):
                    # compared for (in)equality only: keep the byte, the comparison is made on the 8-bit values
                    st.env[('i', i.id)] = IntVal(i.ty['bits'], None, Lin.sym(State.fresh_name('sx8')))
                    st.conv[('sx8', st.env[('i', i.id)].s.key())] = a
                    return [st]
                out = []
                for s in self.sign_split(st, a):
                    out.extend(Interp.exec_inst(self, fn, i, s))
                return out
        if i.op == 'icmp' and i.pred in ('eq', 'ne'):
            a = self.val(st, i.ops[0], fn)
            b = self.val(st, i.ops[1], fn)
            oa, ob = self.orig8(st, a), self.orig8(st, b)
            if oa is not None or ob is not None:
                if oa is None:
                    oa = self.const8(a)
                if ob is None:
                    ob = self.const8(b)
                if oa == 'never' or ob == 'never':
                    st.env[('i', i.id)] = CondVal('const', i.pred == 'ne')
                    return [st]
                if oa is None or ob is None:
                    # compared with something that is not a character: decide the signs, then compare as integers
                    out = []
                    states = [st]
                    for (o8, opnd) in ((self.orig8(st, a), i.ops[0]), (self.orig8(st, b), i.ops[1])):
                        if o8 is None:
                            continue
                        nxt = []
                        for s in states:
                            for s2 in self.sign_split(s, o8):
                                s2.env[opnd.key()] = IntVal(fn.inst_of(opnd).ty['bits'] if opnd.k == 'inst' else 32, None,
                                                            s2.force_s(o8))
                                nxt.append(s2)
                        states = nxt
                    for s in states:
                        out.extend(Interp.exec_inst(self, fn, i, s))
                    return out
                ua = IntVal(8, st.force_u(oa), None)
                ub = IntVal(8, st.force_u(ob), None)
                c = CondVal('cmp', i.pred, ua, ub, None, None)
                d = self.decide(st, c)
                st.env[('i', i.id)] = CondVal('const', d) if d is not None else c
                return [st]
        return Interp.exec_inst(self, fn, i, st)

    @staticmethod
    def orig8(st, v):
        if isinstance(v, IntVal) and v.s is not None and v.u is None:
            return st.conv.get(('sx8', v.s.key()))
        return None

    @staticmethod
    def const8(v):
        if isinstance(v, IntVal):
            c = v.sconst()
            if c is not None:
                return mk_const(8, c & 0xff) if -128 <= c <= 127 else 'never'
        return None


# ----------------------------------------------------------------------------------------------------------------
# summaries
# ----------------------------------------------------------------------------------------------------------------
def ext_malloc_block(interp, st, i, args):
    n = args[0].const() if isinstance(args[0], IntVal) else None
    if n is None:
        raise Unresolved('malloc of a non-constant size')
    o = st.new_obj('heap', Lin(n), 'heap', {'desc': 'block returned by malloc(%d)' % n, 'bytes': True,
                                            'label': 'malloc(%d)' % n, 'base': 0})
    st.ghost['heap'] = st.ghost.get('heap', ()) + (o.id,)
    return [(st, PtrVal(o.id, Lin(0), None, None, False))]


def ext_fold(which):
    """tolower/toupper.  Default: an uninterpreted function of the character (the same argument gives the same result,
    0 maps to 0 and non-zero to non-zero) - all the searching functions need.  fold_mode 'ascii' (functions that store
    the folded character): the ASCII map, by case split on the class of the argument."""
    def ext(interp, st, i, args):
        x = args[0]
        if not isinstance(x, IntVal):
            raise Unresolved('%s of a non-integer' % which)
        if interp.fold_mode == 'ascii':
            xs = st.force_s(x)
            lo, hi, delta = (65, 90, 32) if which == 'lower' else (97, 122, -32)
            out = []
            for (a, b, d) in ((None, lo - 1, 0), (lo, hi, delta), (hi + 1, None, 0)):
                s2 = st.fork()
                if a is not None:
                    s2.cons.add_le(a, xs)
                if b is not None:
                    s2.cons.add_le(xs, b)
                if not interp.infeasible(s2, xs, Lin(0)):
                    out.append((s2, IntVal(32, None, xs + d)))
            return out
        o8 = interp.orig8(st, x)
        if o8 is not None:
            ub = st.force_u(o8)
        else:
            xs = st.force_s(x)
            if st.cons.entails_le(0, xs) and st.cons.entails_le(xs, 255):
                ub = xs
            elif st.cons.entails_le(-128, xs) and st.cons.entails_le(xs, -1):
                ub = xs + 256
            else:
                raise Unresolved('%s of a value that is not a character' % which)
        if ub.is_const() and ub.c == 0:
            return [(st, mk_const(32, 0))]
        out = []
        if not (st.cons.entails_le(1, ub) or st.known_diseq(ub, 0)):
            # a byte that may be NUL: NUL folds to NUL, anything else to a non-zero value
            z = st.fork()
            z.cons.add_eq(ub, 0)
            if not interp.infeasible(z, ub, Lin(0)):
                out.append((z, mk_const(32, 0)))
            st.cons.add_le(1, ub)
            if interp.infeasible(st, ub, Lin(0)):
                return out
        k = ('fold', which, ub.key())
        r = st.conv.get(k)
        if r is None:
            r = st.fresh_int(32, True, 'F.%s' % which)
            st.cons.add_le(-128, r.s)
            st.cons.add_le(r.s, 255)
            st.add_diseq(r.s, 0)
            st.conv[k] = r
        return out + [(st, r)]
    return ext


def ext_bytes_move(interp, st, i, args):
    d, s_, n = args[0], args[1], args[2]
    c = n.const() if isinstance(n, IntVal) else None
    if c is None or interp.tracked(st, d) is None or interp.tracked(st, s_) is None:
        raise Unresolved('compiler-generated block copy of unknown size')
    if c:
        interp.check_access(st, s_, c, i, 'load')
        interp.check_access(st, d, c, i, 'store')
    if st.bottom:
        return []
    bs = [interp.byte(st, s_.obj, s_.off.c + j) for j in range(c)]
    for j, b in enumerate(bs):
        st.mem[(d.obj, d.off.c + j, 1)] = b
    st.ghost['W'] = st.ghost.get('W', frozenset()) | frozenset((d.obj, d.off.c + j) for j in range(c))
    return [(st, d)]


def ext_bytes_set(interp, st, i, args):
    d, v, n = args[0], args[1], args[2]
    c = n.const() if isinstance(n, IntVal) else None
    if c is None or interp.tracked(st, d) is None or not isinstance(v, IntVal):
        raise Unresolved('compiler-generated block fill of unknown size')
    if c:
        interp.check_access(st, d, c, i, 'store')
    if st.bottom:
        return []
    for j in range(c):
        st.mem[(d.obj, d.off.c + j, 1)] = v
    st.ghost['W'] = st.ghost.get('W', frozenset()) | frozenset((d.obj, d.off.c + j) for j in range(c))
    return [(st, d)]


# ----------------------------------------------------------------------------------------------------------------
# scenarios
# ----------------------------------------------------------------------------------------------------------------
class Buf:
    def __init__(self, oid, label, base, n, size):
        self.obj = oid
        self.label = label
        self.base = base          # offset of the payload inside the object (guard bytes in front)
        self.n = n                # payload bytes
        self.size = size
        self.init = {}            # object offset -> IntVal on entry

    def ptr(self, k=0):
        return PtrVal(self.obj, Lin(self.base + k))

    def at(self, k):
        """entry value of payload byte k"""
        return self.init[self.base + k]

    def pos(self, k):
        return (self.obj, self.base + k)

    def span(self, a, b):
        return set((self.obj, self.base + k) for k in range(a, b))


class Scn:
    """one scenario: a fresh state, buffers with one symbol per byte, concrete sizes"""

    def __init__(self, mods, unit, desc):
        self.it = ByteInterp(mods, unit)
        self.mods = mods
        self.unit = unit
        self.st = State()
        self.desc = desc
        self.bufs = []

    def buf(self, label, n, pre=G, post=G, content=None):
        """content: list (length n) of 'nz' (1..255), 'any' (0..255), int constants"""
        st = self.st
        size = pre + n + post
        o = st.new_obj('param', Lin(size), label, {'desc': 'buffer %s' % label, 'bytes': True, 'label': label,
                                                    'base': pre})
        b = Buf(o.id, label, pre, n, size)
        for off in range(size):
            k = off - pre
            kind = content[k] if content is not None and 0 <= k < n else 'any'
            if isinstance(kind, int):
                v = mk_const(8, kind)
            else:
                v = st.fresh_int(8, False, 'B.%s[%d]' % (label, k))
                if kind == 'nz':
                    st.cons.add_le(1, v.u)
            st.mem[(o.id, off, 1)] = v
            b.init[off] = v
        self.bufs.append(b)
        return b

    def cstr(self, label, length, spare=0, pre=G, post=G):
        """terminated string of `length` non-zero characters, `spare` arbitrary bytes behind the terminator"""
        return self.buf(label, length + 1 + spare, pre, post, ['nz'] * length + [0] + ['any'] * spare)

    def chr_arg(self, cls):
        """int parameter holding a character: (argument value, (unsigned char)value as a linear form)
        cls: 'ascii' 0..127 | 'high' 128..255 passed as a non-negative int | 'neg' -128..-1 (a plain char with the
        high bit set, sign-extended by the caller) | 'wide' 256..511 (bits above the character: the definitions convert
        the argument to (unsigned) char first)"""
        st = self.st
        c8 = st.fresh_int(8, False, 'P.c')
        if cls == 'wide':
            st.conv[('tr8', (c8.u + 256).key())] = IntVal(8, c8.u, None)
            return IntVal(32, c8.u + 256, c8.u + 256), c8.u
        if cls == 'ascii':
            st.cons.add_le(c8.u, 127)
            return IntVal(32, c8.u, c8.u), c8.u
        st.cons.add_le(128, c8.u)
        ByteInterp.pin_high(st, c8.u)
        if cls == 'high':
            return IntVal(32, c8.u, c8.u), c8.u
        st.conv[('u', 32, (c8.u - 256).key())] = c8.u - 256 + (1 << 32)
        return IntVal(32, None, c8.u - 256), c8.u

    def run(self, fname, args, unit=None):
        it = self.it
        m = self.mods.get(unit or self.unit)
        f = m.fn(fname) if m is not None else None
        if f is None or f.decl:
            raise AnalysisBroken('%s: definition not found in %s/%s.c (anchor vanished)' % (fname, DIR, unit or self.unit))
        it.mod = m
        it.stack = [(fname, 'entry')]
        rets = it.run_function(f, self.st, list(args))
        it.stack = []
        return rets


def u8(T, v):
    if isinstance(v, Lin):
        return v
    if isinstance(v, int):
        return Lin(v)
    if isinstance(v, IntVal):
        return T.force_u(v)
    raise Unresolved('a byte holds a non-integer value')


def exact_form(l, folds=False):
    return all(sym_exact(s) or (folds and isinstance(s, str) and s.startswith('F.')) for s in l.t)


def same(T, a, e):
    ua, ue = u8(T, a), u8(T, e)
    if ua.key() == ue.key() or T.cons.entails_eq(ua, ue):
        return True
    if not (exact_form(ua) and exact_form(ue)):
        raise Unresolved('a stored byte has a value the analysis cannot name (%r)' % (ua,))
    return False


def show(l):
    """readable name of a byte value"""
    if isinstance(l, IntVal):
        l = l.u if l.u is not None else l.s
    if l is None:
        return '?'
    if l.is_const():
        return '0x%02x' % (l.c & 0xff) if 0 <= l.c <= 255 else str(l.c)
    if len(l.t) == 1 and l.c == 0 and list(l.t.values()) == [1]:
        n = str(next(iter(l.t))).split('#')[0]
        if n.startswith('B.'):
            return n[2:] + ' (entry value)'
        if n.startswith('P.'):
            return n[2:]
        return n
    parts = []
    for s, v in l.t.items():
        n = str(s).split('#')[0]
        n = n[2:] if n[:2] in ('B.', 'P.') else n
        parts.append(('%+d*' % v if v not in (1, -1) else ('+' if v == 1 else '-')) + n)
    return ''.join(parts).lstrip('+') + ('%+d' % l.c if l.c else '')


class Book:
    """collects clause results per (rule, function, clause) over all scenarios and paths"""

    def __init__(self):
        self.cl = {}
        self.unres = {}
        self.scen = {}
        self.paths = {}
        self.rule_of = {}

    def note(self, rule, fname, key, ok, detail=None):
        c = self.cl.setdefault((rule, fname, key), {'ok': True, 'detail': None, 'n': 0})
        c['n'] += 1
        if not ok and c['ok']:
            c['ok'] = False
            c['detail'] = detail

    def unresolved(self, fname, why):
        self.unres.setdefault(fname, []).append(why)

    def flush(self, rep, mods, unit_of):
        for (rule, fname, key), c in self.cl.items():
            rep.inst(rule, fname, key, c['ok'], where_of(mods, unit_of.get(fname, fname), fname), c['detail'],
                     fact={'states_checked': c['n']})
        for fname, rule in self.rule_of.items():
            if fname in self.unres:
                continue
            rep.inst(rule.split(':')[0] + ':analysed', fname, 'every-scenario-analysed-exactly', True,
                     where_of(mods, unit_of.get(fname, fname), fname), None,
                     fact={'scenarios': self.scen.get(fname, 0), 'paths': self.paths.get(fname, 0)})
        if self.unres:
            rep.extra.setdefault('c08_content_unresolved', {}).update({k: v[:3] for k, v in self.unres.items()})


def where_of(mods, unit, fname):
    m = mods.get(unit)
    f = m.fn(fname) if m is not None else None
    return '%s:%d' % (f.file, f.line) if f is not None else ''


def scenario(bk, rule, fname, scn_fn):
    """run one scenario function; engine imprecision -> unresolved, never a verdict"""
    bk.rule_of.setdefault(fname, rule)
    bk.scen[fname] = bk.scen.get(fname, 0) + 1
    try:
        scn_fn()
    except Unresolved as e:
        bk.unresolved(fname, str(e))
    except AnalysisBroken as e:
        if 'path explosion' in str(e):
            bk.unresolved(fname, str(e))
        else:
            raise


def returns_of(bk, rule, fname, scn, rets):
    """common to every scenario: the function stays inside the buffers it was given and returns"""
    ev = scn.it.events
    ok = not ev
    d = None
    if ev:
        e = ev[0]
        if e['kind'] == 'endless':
            d = '%s: the loop at %s of %s never ends (its state repeats)' % (scn.desc, e['where'], e['fn'])
        else:
            d = ('%s: %s of %d byte(s) at %s[%d], outside the buffer (and its guard zone) in %s (%s)'
                 % (scn.desc, e['kind'], e['size'], e['label'], e['off'], e['fn'], e['where']))
    bk.note(rule + ':range', fname, 'accesses-stay-inside-the-buffers-and-every-loop-ends', ok, d)
    if ok:
        bk.note(rule + ':range', fname, 'returns', bool(rets), None if rets else '%s: no return is reachable' % scn.desc)
    bk.paths[fname] = bk.paths.get(fname, 0) + len(rets)


def check_mem(bk, rule, fname, scn, T, expect, allowed, what):
    """every byte of every buffer: the prescribed value where the definition prescribes one, its entry value
    everywhere else; stores only inside `allowed`"""
    bufs = list(scn.bufs)
    for oid in T.ghost.get('heap', ()):
        if not any(b.obj == oid for b in bufs):
            o = T.objs[oid]
            hb = Buf(oid, o.info['label'], 0, o.size.c, o.size.c)
            bufs.append(hb)
    for b in bufs:
        for off in range(b.size):
            pos = (b.obj, off)
            cur = T.mem.get((b.obj, off, 1))
            if pos in expect:
                e = expect[pos]
                if cur is None:
                    ok = False
                    got = 'an indeterminate byte (never written)'
                else:
                    ok = same(T, cur, e)
                    got = show(u8(T, cur))
                bk.note(rule + ':dest', fname, what, ok, None if ok else
                        '%s: %s[%d] holds %s at the return, the definition prescribes %s'
                        % (scn.desc, b.label, off - b.base, got, show(u8(T, e))))
            elif off in b.init:
                ok = cur is not None and same(T, cur, b.init[off])
                bk.note(rule + ':frame', fname, 'every-byte-the-definition-leaves-alone-keeps-its-value', ok, None if ok else
                        '%s: %s[%d] is changed to %s although the definition leaves it alone'
                        % (scn.desc, b.label, off - b.base, show(u8(T, cur)) if cur is not None else '?'))
    w = T.ghost.get('W', frozenset())
    extra = sorted(p for p in w if p not in allowed and any(p[0] == b.obj for b in bufs))
    ok = not extra
    d = None
    if extra:
        b = [b for b in bufs if b.obj == extra[0][0]][0]
        d = '%s: a store to %s[%d], which the definition does not write' % (scn.desc, b.label, extra[0][1] - b.base)
    bk.note(rule + ':frame', fname, 'no-store-outside-the-range-the-definition-writes', ok, d)


# ----------------------------------------------------------------------------------------------------------------
# reference evaluation over symbolic bytes (finite case analysis on the atoms a path left undecided)
# ----------------------------------------------------------------------------------------------------------------
class _Fork(Exception):
    def __init__(self, kind, a, b):
        self.kind, self.a, self.b = kind, a, b


def refutes_eq(T, d):
    s = T.fork()
    s.cons.add(d)
    s.cons.add(-d)
    if s.cons.unsat():
        return True
    for q in s.diseq.values():
        if s.cons.entails(q) and s.cons.entails(-q):
            return True
    return False


def decide_eq(T, a, b):
    d = a - b
    if not d.t:
        return d.c == 0
    if T.cons.entails_eq(a, b):
        return True
    if T.known_diseq(a, b) or T.cons.entails_lt(a, b) or T.cons.entails_lt(b, a) or refutes_eq(T, d):
        return False
    return None


def explore(T, ref):
    """ref(eq, lt) -> expected result, where eq(a, b) / lt(a, b) answer questions about byte values (linear forms) in the
    current refinement of T.  Returns [(refined state, expected)] covering T."""
    out = []
    work = [T]
    guard = 0
    while work:
        guard += 1
        if guard > 4000:
            raise Unresolved('case analysis of the reference does not finish')
        s = work.pop()

        def eq(a, b, s=s):
            for x in (a, b):
                if not exact_form(x, folds=True):
                    raise Unresolved('reference asked about a value the analysis cannot name')
            d = decide_eq(s, a, b)
            if d is None:
                raise _Fork('eq', a, b)
            return d

        def lt(a, b, s=s):
            if s.cons.entails_lt(a, b):
                return True
            if s.cons.entails_le(b, a):
                return False
            raise _Fork('lt', a, b)
        try:
            out.append((s, ref(eq, lt)))
        except _Fork as f:
            s1, s2 = s.fork(), s
            if f.kind == 'eq':
                s1.cons.add_eq(f.a, f.b)
                if s2.cons.entails_le(f.a, f.b):
                    s2.cons.add_lt(f.a, f.b)
                elif s2.cons.entails_le(f.b, f.a):
                    s2.cons.add_lt(f.b, f.a)
                else:
                    s2.add_diseq(f.a, f.b)
            else:
                s1.cons.add_lt(f.a, f.b)
                if decide_eq(s2, f.a, f.b) is False:
                    s2.cons.add_lt(f.b, f.a)
                else:
                    s2.cons.add_le(f.b, f.a)
            work += [s1, s2]
    return out


# ----------------------------------------------------------------------------------------------------------------
# R-COPY / R-FILL
# ----------------------------------------------------------------------------------------------------------------
WORD_N = (31, 32, 33, 40, 47, 63, 64, 73)        # around the thresholds of memcpy's 4-word / 1-word / byte loops


def chk_memcpy(bk, mods, tier):
    rule, fn = 'R-COPY', 'memcpy'
    sizes = list(range(0, 10 + 6 * X(tier))) + list(WORD_N) + ([95, 96, 104, 129] if X(tier) else [])
    for n in sizes:
        for (pd, ps) in ((G, G), (G + 3, G + 5)) if n in (5, 33) else ((G, G),):
            def one(n=n, pd=pd, ps=ps):
                sc = Scn(mods, 'memcpy', 'memcpy(dst, src, %d)' % n)
                d = sc.buf('dst', n, pre=pd)
                s = sc.buf('src', n, pre=ps)
                rets = sc.run('memcpy', [d.ptr(), s.ptr(), mk_const(64, n)])
                returns_of(bk, rule, fn, sc, rets)
                for (T, rv) in rets:
                    check_mem(bk, rule, fn, sc, T, {d.pos(i): s.at(i) for i in range(n)}, d.span(0, n),
                              'dst[i]==src[i]-for-i<n')
            scenario(bk, rule, fn, one)


def chk_memmove(bk, mods, tier):
    rule, fn = 'R-COPY', 'memmove'
    cases = [(n, d) for n in range(0, 10 + 3 * X(tier)) for d in range(-4 - 2 * X(tier), 5 + 2 * X(tier))]
    cases += [(n, d) for n in (32, 41) for d in (-8, -3, -1, 1, 3, 8, 16)]
    for (n, d) in cases:
        def one(n=n, d=d):
            so, do = max(0, -d), max(0, d)
            sc = Scn(mods, 'memmove', 'memmove(buf+%d, buf+%d, %d)' % (do, so, n))
            r = sc.buf('buf', n + abs(d))
            rets = sc.run('memmove', [r.ptr(do), r.ptr(so), mk_const(64, n)])
            returns_of(bk, rule, fn, sc, rets)
            for (T, rv) in rets:
                check_mem(bk, rule, fn, sc, T, {r.pos(do + i): r.at(so + i) for i in range(n)}, r.span(do, do + n),
                          'dst[i]==old-src[i]-also-when-the-ranges-overlap')
        scenario(bk, rule, fn, one)
    for n in (0, 1, 5, 33):
        def two(n=n):
            sc = Scn(mods, 'memmove', 'memmove(dst, src, %d) with separate objects' % n)
            d = sc.buf('dst', n)
            s = sc.buf('src', n)
            rets = sc.run('memmove', [d.ptr(), s.ptr(), mk_const(64, n)])
            returns_of(bk, rule, fn, sc, rets)
            for (T, rv) in rets:
                check_mem(bk, rule, fn, sc, T, {d.pos(i): s.at(i) for i in range(n)}, d.span(0, n),
                          'dst[i]==old-src[i]-also-when-the-ranges-overlap')
        scenario(bk, rule, fn, two)


def chk_memset(bk, mods, tier):
    rule, fn = 'R-FILL', 'memset'
    for n in list(range(0, 10 + 6 * X(tier))) + [17, 33, 40]:
        for cls in ('ascii', 'high', 'neg', 'wide'):
            if n > 9 and cls != 'high':
                continue

            def one(n=n, cls=cls):
                sc = Scn(mods, 'memset', 'memset(dst, c, %d) with c %s' % (n, CLS_TXT[cls]))
                d = sc.buf('dst', n)
                c, c8 = sc.chr_arg(cls)
                rets = sc.run('memset', [d.ptr(), c, mk_const(64, n)])
                returns_of(bk, rule, fn, sc, rets)
                for (T, rv) in rets:
                    check_mem(bk, rule, fn, sc, T, {d.pos(i): c8 for i in range(n)}, d.span(0, n),
                              'dst[i]==(unsigned-char)c-for-i<n')
            scenario(bk, rule, fn, one)


CLS_TXT = {'ascii': 'in 0..127', 'high': 'in 128..255', 'neg': 'a negative char (-128..-1)',
           'wide': 'in 256..511 (same character as c - 256)'}


def chk_strcpy(bk, mods, tier):
    rule, fn = 'R-COPY', 'strcpy'
    for ln in range(0, 7 + 6 * X(tier)):
        def one(ln=ln):
            sc = Scn(mods, 'strcpy', 'strcpy(dst, src) with strlen(src) == %d' % ln)
            d = sc.buf('dst', ln + 1)
            s = sc.cstr('src', ln, spare=2)
            rets = sc.run('strcpy', [d.ptr(), s.ptr()])
            returns_of(bk, rule, fn, sc, rets)
            for (T, rv) in rets:
                check_mem(bk, rule, fn, sc, T, {d.pos(i): s.at(i) for i in range(ln + 1)}, d.span(0, ln + 1),
                          'dst-holds-the-characters-and-the-terminator')
        scenario(bk, rule, fn, one)


def chk_strncpy(bk, mods, tier):
    rule, fn = 'R-COPY', 'strncpy'
    for ln in range(0, 5 + 2 * X(tier)):
        for n in range(0, 8 + 3 * X(tier)):
            def one(ln=ln, n=n):
                sc = Scn(mods, 'strncpy', 'strncpy(dst, src, %d) with strlen(src) == %d' % (n, ln))
                d = sc.buf('dst', n)
                s = sc.cstr('src', ln, spare=2)
                rets = sc.run('strncpy', [d.ptr(), s.ptr(), mk_const(64, n)])
                returns_of(bk, rule, fn, sc, rets)
                exp = {d.pos(i): (s.at(i) if i < ln else Lin(0)) for i in range(n)}
                for (T, rv) in rets:
                    check_mem(bk, rule, fn, sc, T, exp, d.span(0, n),
                              'dst[0..n)-holds-the-characters-then-zero-padding-no-terminator-when-src-is-longer')
            scenario(bk, rule, fn, one)


def chk_strlcpy(bk, mods, tier):
    rule, fn = 'R-COPY', 'strlcpy'
    for ln in range(0, 5 + 2 * X(tier)):
        for size in range(0, 8 + 3 * X(tier)):
            def one(ln=ln, size=size):
                sc = Scn(mods, 'strlcpy', 'strlcpy(dst, src, %d) with strlen(src) == %d' % (size, ln))
                d = sc.buf('dst', size)
                s = sc.cstr('src', ln, spare=2)
                rets = sc.run('strlcpy', [d.ptr(), s.ptr(), mk_const(64, size)])
                returns_of(bk, rule, fn, sc, rets)
                exp = {}
                if size > 0:
                    k = min(ln, size - 1)
                    exp = {d.pos(i): s.at(i) for i in range(k)}
                    exp[d.pos(k)] = Lin(0)
                for (T, rv) in rets:
                    check_mem(bk, rule, fn, sc, T, exp, d.span(0, size),
                              'dst-holds-min(len,size-1)-characters-and-a-terminator-when-size>0')
            scenario(bk, rule, fn, one)


def chk_strcat(bk, mods, tier):
    rule, fn = 'R-COPY', 'strcat'
    for ld in range(0, 4 + X(tier)):
        for ln in range(0, 5 + 2 * X(tier)):
            def one(ld=ld, ln=ln):
                sc = Scn(mods, 'strcat', 'strcat(dst, src) with strlen(dst) == %d, strlen(src) == %d' % (ld, ln))
                d = sc.cstr('dst', ld, spare=ln)
                s = sc.cstr('src', ln, spare=2)
                rets = sc.run('strcat', [d.ptr(), s.ptr()])
                returns_of(bk, rule, fn, sc, rets)
                exp = {d.pos(ld + j): s.at(j) for j in range(ln + 1)}
                for (T, rv) in rets:
                    check_mem(bk, rule, fn, sc, T, exp, d.span(ld, ld + ln + 1),
                              'src-is-appended-at-the-old-terminator-and-terminated')
            scenario(bk, rule, fn, one)


def chk_strncat(bk, mods, tier):
    rule, fn = 'R-COPY', 'strncat'
    for ld in range(0, 3):
        for ln in range(0, 7 + 3 * X(tier)):
            for n in range(0, 10 + 4 * X(tier)):
                if ld == 1 and (ln + n) % 2:
                    continue            # thinned: the position of the old terminator does not interact with n

                def one(ld=ld, ln=ln, n=n):
                    sc = Scn(mods, 'strncat', 'strncat(dst, src, %d) with strlen(dst) == %d, strlen(src) == %d'
                             % (n, ld, ln))
                    k = min(ln, n)
                    d = sc.cstr('dst', ld, spare=k)
                    s = sc.cstr('src', ln, spare=2)
                    rets = sc.run('strncat', [d.ptr(), s.ptr(), mk_const(64, n)])
                    returns_of(bk, rule, fn, sc, rets)
                    exp = {d.pos(ld + j): s.at(j) for j in range(k)}
                    exp[d.pos(ld + k)] = Lin(0)
                    for (T, rv) in rets:
                        check_mem(bk, rule, fn, sc, T, exp, d.span(ld, ld + k + 1),
                                  'min(len,n)-characters-are-appended-at-the-old-terminator-and-terminated')
                scenario(bk, rule, fn, one)


def chk_strdup(bk, mods, tier):
    rule, fn = 'R-COPY', 'strdup'
    for ln in range(0, 6 + 6 * X(tier)):
        def one(ln=ln):
            sc = Scn(mods, 'strdup', 'strdup(s) with strlen(s) == %d' % ln)
            s = sc.cstr('s', ln, spare=2)
            rets = sc.run('strdup', [s.ptr()])
            returns_of(bk, rule, fn, sc, rets)
            fresh = 0
            for (T, rv) in rets:
                heap = T.ghost.get('heap', ())
                if isinstance(rv, PtrVal) and rv.is_null:
                    check_mem(bk, rule, fn, sc, T, {}, set(), 'block-holds-the-characters-and-the-terminator')
                    continue
                ok = isinstance(rv, PtrVal) and len(heap) == 1 and rv.obj == heap[0] and rv.off.is_const() and \
                    rv.off.c == 0
                bk.note(rule + ':result', fn, 'returns-the-start-of-the-block-malloc-gave', ok, None if ok else
                        '%s: the value returned is not the start of the block obtained from malloc' % sc.desc)
                if not ok:
                    continue
                fresh += 1
                exp = {(heap[0], i): s.at(i) for i in range(ln + 1)}
                allowed = set((heap[0], i) for i in range(T.objs[heap[0]].size.c))
                check_mem(bk, rule, fn, sc, T, exp, allowed, 'block-holds-the-characters-and-the-terminator')
            bk.note(rule + ':result', fn, 'returns-a-block-when-malloc-succeeds', fresh > 0, None if fresh else
                    '%s: no path returns the allocated block' % sc.desc)
        scenario(bk, rule, fn, one)


def chk_strndup(bk, mods, tier):
    rule, fn = 'R-COPY', 'strndup'
    cases = [(ln, size, True) for ln in range(0, 5 + 2 * X(tier)) for size in range(0, 7 + 2 * X(tier))]
    cases += [(size, size, False) for size in range(0, 5)]       # source not terminated inside its `size` bytes
    for (ln, size, term) in cases:
        def one(ln=ln, size=size, term=term):
            if term:
                sc = Scn(mods, 'strndup', 'strndup(s, %d) with strlen(s) == %d' % (size, ln))
                s = sc.cstr('s', ln, spare=2)
            else:
                sc = Scn(mods, 'strndup', 'strndup(s, %d) with %d characters and no terminator in s' % (size, size))
                s = sc.buf('s', size, post=0, content=['nz'] * size)
            k = min(ln, size)
            rets = sc.run('strndup', [s.ptr(), mk_const(64, size)])
            returns_of(bk, rule, fn, sc, rets)
            fresh = 0
            for (T, rv) in rets:
                heap = T.ghost.get('heap', ())
                if isinstance(rv, PtrVal) and rv.is_null:
                    check_mem(bk, rule, fn, sc, T, {}, set(), 'block-holds-min(len,n)-characters-and-a-terminator')
                    continue
                ok = isinstance(rv, PtrVal) and len(heap) == 1 and rv.obj == heap[0] and rv.off.is_const() and \
                    rv.off.c == 0
                bk.note(rule + ':result', fn, 'returns-the-start-of-the-block-malloc-gave', ok, None if ok else
                        '%s: the value returned is not the start of the block obtained from malloc' % sc.desc)
                if not ok:
                    continue
                fresh += 1
                exp = {(heap[0], i): s.at(i) for i in range(k)}
                exp[(heap[0], k)] = Lin(0)
                allowed = set((heap[0], i) for i in range(T.objs[heap[0]].size.c))
                check_mem(bk, rule, fn, sc, T, exp, allowed, 'block-holds-min(len,n)-characters-and-a-terminator')
            bk.note(rule + ':result', fn, 'returns-a-block-when-malloc-succeeds', fresh > 0, None if fresh else
                    '%s: no path returns the allocated block' % sc.desc)
        scenario(bk, rule, fn, one)


# ----------------------------------------------------------------------------------------------------------------
# R-INPLACE
# ----------------------------------------------------------------------------------------------------------------
def chk_case(bk, mods, tier):
    rule = 'R-INPLACE'
    for fn, lo, hi, delta in (('strlwr', 65, 90, 32), ('strupr', 97, 122, -32)):
        for ln in range(0, 4 + X(tier)):
            def one(fn=fn, lo=lo, hi=hi, delta=delta, ln=ln):
                sc = Scn(mods, fn, '%s(s) with strlen(s) == %d' % (fn, ln))
                sc.it.fold_mode = 'ascii'
                s = sc.cstr('s', ln, spare=1)
                rets = sc.run(fn, [s.ptr()])
                returns_of(bk, rule, fn, sc, rets)
                for (T, rv) in rets:
                    def ref(eq, lt):
                        out = {}
                        for i in range(ln):
                            b = u8(T, s.at(i))
                            out[s.pos(i)] = b + delta if (not lt(b, Lin(lo)) and not lt(Lin(hi), b)) else b
                        return out
                    for (T2, exp) in explore(T, ref):
                        check_mem(bk, rule, fn, sc, T2, exp, s.span(0, ln + 1),
                                  'every-character-is-mapped-by-the-ASCII-case-function-the-terminator-stays')
            scenario(bk, rule, fn, one)


def tok_reference(T, s, ln, dl, dn, start):
    """strtok_r on the string s (length ln) from position `start` with delimiter string dl (length dn):
    (token start | None, position zeroed | None, new *saveptr position | None)"""
    def ref(eq, lt):
        def isdelim(i):
            return any(eq(u8(T, s.at(i)), u8(T, dl.at(j))) for j in range(dn))
        t0 = start
        while t0 < ln and isdelim(t0):
            t0 += 1
        if t0 >= ln:
            return (None, None, None)
        e = t0
        while e < ln and not isdelim(e):
            e += 1
        if e < ln:
            return (t0, e, e + 1)
        return (t0, None, ln)
    return ref


def chk_strtok(bk, mods, tier):
    rule = 'R-INPLACE'
    cases = []
    for ln in range(0, 5 + X(tier)):
        for dn in range(0, 3):
            if ln >= 4 and dn == 2:
                continue
            cases.append(('strtok_r', ln, dn, 'str', 0))
    for ln in range(0, 4):
        for p in range(0, ln + 1):
            cases.append(('strtok_r', ln, 1, 'saved', p))
    cases.append(('strtok_r', 2, 1, 'saved-null', 0))
    for ln in range(0, 4):
        cases.append(('strtok', ln, 1, 'str', 0))
    for (fn, ln, dn, mode, p) in cases:
        def one(fn=fn, ln=ln, dn=dn, mode=mode, p=p):
            how = {'str': '%s(s, delim%s)' % (fn, ', &save' if fn == 'strtok_r' else ''),
                   'saved': 'strtok_r(NULL, delim, &save) with save == s+%d' % p,
                   'saved-null': 'strtok_r(NULL, delim, &save) with save == NULL'}[mode]
            sc = Scn(mods, 'strtok', '%s, strlen(s) == %d, %d delimiter character(s)' % (how, ln, dn))
            s = sc.cstr('s', ln, spare=1)
            dl = sc.cstr('delim', dn, spare=1)
            st = sc.st
            if fn == 'strtok_r':
                so = st.new_obj('param', Lin(8), 'save', {'desc': 'the char * that saveptr points to'})
                if mode == 'saved':
                    st.mem[(so.id, 0, 8)] = s.ptr(p)
                elif mode == 'saved-null':
                    st.mem[(so.id, 0, 8)] = NULL
                args = [s.ptr() if mode == 'str' else NULL, dl.ptr(), PtrVal(so.id, Lin(0))]
                cell = (so.id, 0, 8)
            else:
                args = [s.ptr(), dl.ptr()]
                gl = [g for g in mods['strtok'].globals.values() if g['ty'].get('k') == 'ptr' or g['ty'].get('size') == 8]
                if len(gl) != 1:
                    raise AnalysisBroken('strtok: the static save pointer was not found (anchor changed)')
                cell = ('global:' + gl[0]['name'], 0, 8)
            rets = sc.run(fn, args, unit='strtok')
            returns_of(bk, rule, fn, sc, rets)
            for (T, rv) in rets:
                if mode == 'saved-null':
                    ok = isinstance(rv, PtrVal) and rv.is_null
                    bk.note(rule + ':result', fn, 'returns-the-first-character-that-is-no-delimiter-or-NULL', ok,
                            None if ok else '%s: must return NULL' % sc.desc)
                    check_mem(bk, rule, fn, sc, T, {}, set(), 'the-delimiter-behind-the-token-becomes-zero')
                    continue
                for (T2, (t0, z, sv)) in explore(T, tok_reference(T, s, ln, dl, dn, p)):
                    if t0 is None:
                        ok = isinstance(rv, PtrVal) and rv.is_null
                        got = 'a token'
                    else:
                        ok = isinstance(rv, PtrVal) and rv.obj == s.obj and rv.off.is_const() and rv.off.c == s.base + t0
                        got = 'NULL' if isinstance(rv, PtrVal) and rv.is_null else \
                            ('s+%d' % (rv.off.c - s.base) if isinstance(rv, PtrVal) and rv.obj == s.obj and rv.off.is_const()
                             else 'something else')
                    bk.note(rule + ':result', fn, 'returns-the-first-character-that-is-no-delimiter-or-NULL', ok,
                            None if ok else '%s: returns %s, the definition gives %s (%s)'
                            % (sc.desc, got, 'NULL' if t0 is None else 's+%d' % t0, facts(T2, s, ln, dl, dn)))
                    exp = {s.pos(z): Lin(0)} if z is not None else {}
                    check_mem(bk, rule, fn, sc, T2, exp, set(exp), 'the-delimiter-behind-the-token-becomes-zero')
                    if sv is None and t0 is None:
                        # no token: whatever is saved for the next call must still be a position of the string (at most the
                        # terminator) - a position behind it makes the next strtok_r(NULL, ..) scan foreign memory
                        v = T2.mem.get(cell)
                        if isinstance(v, PtrVal) and not v.is_null and v.obj == s.obj and v.off.is_const():
                            ok = 0 <= v.off.c - s.base <= ln
                            bk.note(rule + ':state', fn, 'a-call-that-finds-no-token-leaves-a-saved-position-inside-the-string', ok,
                                    None if ok else '%s: the call returns NULL and saves s+%d, which is behind the terminator at '
                                    's+%d: the next call continues in memory that is not part of the string'
                                    % (sc.desc, v.off.c - s.base, ln))
                    if sv is not None:
                        v = T2.mem.get(cell)
                        ok = isinstance(v, PtrVal) and v.obj == s.obj and v.off.is_const() and v.off.c == s.base + sv
                        bk.note(rule + ':state', fn, 'the-saved-position-is-behind-the-zeroed-delimiter-or-at-the-terminator',
                                ok, None if ok else '%s: the saved pointer is %s at the return, the next call must continue at '
                                's+%d (%s)' % (sc.desc, 's+%d' % (v.off.c - s.base) if isinstance(v, PtrVal) and v.obj == s.obj
                                               and v.off.is_const() else 'not a position of s', sv, facts(T2, s, ln, dl, dn)))
        scenario(bk, rule, fn, one)


def facts(T, s, ln, dl, dn):
    """the per-position facts of a refined state, for the witness text"""
    out = []
    for i in range(ln):
        for j in range(dn):
            d = decide_eq(T, u8(T, s.at(i)), u8(T, dl.at(j)))
            if d is not None:
                out.append('%s[%d]%s%s[%d]' % (s.label, i, '==' if d else '!=', dl.label, j))
    return ', '.join(out) or 'any contents'


# ----------------------------------------------------------------------------------------------------------------
# R-FIND
# ----------------------------------------------------------------------------------------------------------------
def ptr_pos(rv, b):
    """payload index a returned pointer designates in buffer b: int | 'null' | None"""
    if isinstance(rv, PtrVal):
        if rv.is_null:
            return 'null'
        if rv.obj == b.obj and rv.off.is_const():
            return rv.off.c - b.base
    return None


def cfacts(T, b, n, c8):
    out = []
    for i in range(n):
        d = decide_eq(T, u8(T, b.at(i)), c8)
        if d is not None:
            out.append('%s[%d]%s(unsigned char)c' % (b.label, i, '==' if d else '!='))
    return ', '.join(out) or 'any contents'


def chk_chr(bk, mods, tier):
    rule = 'R-FIND'
    table = [('memchr', 'mem', 'first'), ('memrchr', 'mem', 'last'), ('strchrnul', 'str', 'first-or-end'),
             ('strchr', 'str', 'first'), ('strrchr', 'str', 'last')]
    for (fn, kind, which) in table:
        key = {'first': 'returns-the-FIRST-position-whose-byte-equals-(unsigned-char)c-or-NULL',
               'last': 'returns-the-LAST-position-whose-byte-equals-(unsigned-char)c-or-NULL',
               'first-or-end': 'returns-the-FIRST-position-whose-byte-equals-(char)c-or-the-terminator'}[which]
        for n in range(0, (7 if kind == 'mem' else 6) + X(tier)):
            for cls in ('ascii', 'high', 'neg', 'wide'):
                def one(fn=fn, kind=kind, which=which, n=n, cls=cls, key=key):
                    if kind == 'mem':
                        sc = Scn(mods, fn, '%s(s, c, %d) with c %s' % (fn, n, CLS_TXT[cls]))
                        s = sc.buf('s', n)
                        cnt = n
                    else:
                        sc = Scn(mods, fn, '%s(s, c) with strlen(s) == %d, c %s' % (fn, n, CLS_TXT[cls]))
                        s = sc.cstr('s', n, spare=1)
                        cnt = n + 1                 # the terminator is part of the string
                    c, c8 = sc.chr_arg(cls)
                    args = [s.ptr(), c] + ([mk_const(64, n)] if kind == 'mem' else [])
                    rets = sc.run(fn, args)
                    returns_of(bk, rule, fn, sc, rets)
                    for (T, rv) in rets:
                        def ref(eq, lt):
                            order = range(cnt) if which != 'last' else range(cnt - 1, -1, -1)
                            for i in order:
                                if eq(u8(T, s.at(i)), c8):
                                    return i
                            return n if which == 'first-or-end' else 'null'
                        got = ptr_pos(rv, s)
                        for (T2, want) in explore(T, ref):
                            ok = got == want
                            bk.note(rule + ':result', fn, key, ok, None if ok else
                                    '%s: returns %s, the definition gives %s when %s'
                                    % (sc.desc, 'NULL' if got == 'null' else ('s+%d' % got if got is not None else
                                                                               'a pointer outside s'),
                                       'NULL' if want == 'null' else 's+%d' % want, cfacts(T2, s, cnt, c8)))
                        check_mem(bk, rule, fn, sc, T, {}, set(), 'nothing-is-written')
                scenario(bk, rule, fn, one)


def sfacts(T, a, la, b, lb):
    out = []
    for i in range(la):
        for j in range(lb):
            d = decide_eq(T, u8(T, a.at(i)), u8(T, b.at(j)))
            if d is not None:
                out.append('%s[%d]%s%s[%d]' % (a.label, i, '==' if d else '!=', b.label, j))
    return ', '.join(out) or 'any contents'


def chk_span(bk, mods, tier):
    rule = 'R-FIND'
    for fn in ('strspn', 'strcspn', 'strpbrk'):
        key = {'strspn': 'returns-the-length-of-the-longest-prefix-made-of-characters-of-the-set',
               'strcspn': 'returns-the-length-of-the-longest-prefix-free-of-characters-of-the-set',
               'strpbrk': 'returns-the-FIRST-character-that-belongs-to-the-set-or-NULL'}[fn]
        for ln in range(0, 5 + X(tier)):
            for m in range(0, 3):
                def one(fn=fn, ln=ln, m=m, key=key):
                    sc = Scn(mods, fn, '%s(s, set) with strlen(s) == %d, strlen(set) == %d' % (fn, ln, m))
                    s = sc.cstr('s', ln, spare=1)
                    a = sc.cstr('set', m, spare=1)
                    rets = sc.run(fn, [s.ptr(), a.ptr()])
                    returns_of(bk, rule, fn, sc, rets)
                    for (T, rv) in rets:
                        def ref(eq, lt):
                            k = 0
                            while k < ln and (any(eq(u8(T, s.at(k)), u8(T, a.at(j))) for j in range(m)) == (fn == 'strspn')):
                                k += 1
                            if fn == 'strpbrk':
                                return 'null' if k == ln else k
                            return k
                        if fn == 'strpbrk':
                            got = ptr_pos(rv, s)
                        else:
                            got = rv.const() if isinstance(rv, IntVal) else None
                        for (T2, want) in explore(T, ref):
                            ok = got == want
                            bk.note(rule + ':result', fn, key, ok, None if ok else
                                    '%s: returns %s, the definition gives %s when %s'
                                    % (sc.desc, got if got is not None else 'an undetermined value', want,
                                       sfacts(T2, s, ln, a, m)))
                        check_mem(bk, rule, fn, sc, T, {}, set(), 'nothing-is-written')
                scenario(bk, rule, fn, one)


def fold_of(T, which, b):
    """the symbol standing for tolower/toupper of byte b in state T (created when the function never folded it)"""
    u = u8(T, b)
    if u.is_const() and u.c == 0:
        return Lin(0)
    r = T.conv.get(('fold', which, u.key()))
    if r is None:
        r = T.fresh_int(32, True, 'F.%s' % which)
        T.cons.add_le(-128, r.s)
        T.cons.add_le(r.s, 255)
        T.add_diseq(r.s, 0)
        T.conv[('fold', which, u.key())] = r
    return r.s


def chk_strstr(bk, mods, tier):
    rule = 'R-FIND'
    for fn in ('strstr', 'strcasestr'):
        key = 'returns-the-FIRST-position-where-the-needle-matches%s-or-NULL' % \
            ('-case-insensitively' if fn == 'strcasestr' else '')
        for ln in range(0, 6 + X(tier)):
            for m in range(0, 4):
                if ln + m > 7 + X(tier) or (fn == 'strcasestr' and ln + m > 6 + X(tier)):
                    continue

                def one(fn=fn, ln=ln, m=m, key=key):
                    sc = Scn(mods, fn, '%s(hay, needle) with strlen(hay) == %d, strlen(needle) == %d' % (fn, ln, m))
                    h = sc.cstr('hay', ln, spare=1)
                    nd = sc.cstr('needle', m, spare=1)
                    rets = sc.run(fn, [h.ptr(), nd.ptr()])
                    returns_of(bk, rule, fn, sc, rets)
                    for (T, rv) in rets:
                        def ref(eq, lt, T=T):
                            if m == 0:
                                return 0
                            for p in range(0, ln - m + 1):
                                if fn == 'strstr':
                                    hit = all(eq(u8(T, h.at(p + j)), u8(T, nd.at(j))) for j in range(m))
                                else:
                                    hit = all(eq(fold_of(T, 'lower', h.at(p + j)), fold_of(T, 'lower', nd.at(j)))
                                              for j in range(m))
                                if hit:
                                    return p
                            return 'null'
                        got = ptr_pos(rv, h)
                        for (T2, want) in explore(T, ref):
                            ok = got == want
                            bk.note(rule + ':result', fn, key, ok, None if ok else
                                    '%s: returns %s, the definition gives %s when %s'
                                    % (sc.desc, 'NULL' if got == 'null' else ('hay+%d' % got if got is not None else '?'),
                                       'NULL' if want == 'null' else 'hay+%d' % want,
                                       sfacts(T2, h, ln, nd, m) if fn == 'strstr' else 'the folded characters compare that way'))
                        check_mem(bk, rule, fn, sc, T, {}, set(), 'nothing-is-written')
                scenario(bk, rule, fn, one)


# ----------------------------------------------------------------------------------------------------------------
# R-ORDER
# ----------------------------------------------------------------------------------------------------------------
def order_ref(T, seq_a, seq_b):
    def ref(eq, lt):
        for (x, y) in zip(seq_a, seq_b):
            x, y = u8(T, x), u8(T, y)
            if not eq(x, y):
                return ('lt', x, y) if lt(x, y) else ('gt', x, y)
            if x.is_const() and x.c == 0:
                break
        return ('eq', None, None)
    return ref


def check_sign(bk, rule, fn, sc, T, rv, ref,
               key='sign-of-the-result-follows-the-first-differing-byte-compared-as-unsigned-char', folds=False):
    if not isinstance(rv, IntVal):
        raise Unresolved('the result is not an integer')
    for (T2, (want, x, y)) in explore(T, ref):
        r = T2.as_s(rv)
        if r is None:
            r = T2.force_s(rv)
        if not exact_form(r, folds):
            raise Unresolved('the result has a value the analysis cannot name (%r)' % (r,))
        ok = {'lt': T2.cons.entails_le(r, -1), 'gt': T2.cons.entails_le(1, r), 'eq': T2.cons.entails_eq(r, 0)}[want]
        bk.note(rule + ':result', fn, key, ok,
                None if ok else '%s: the result %s is not %s although %s' % (
                    sc.desc, show(r), {'lt': 'negative', 'gt': 'positive', 'eq': 'zero'}[want],
                    'all compared bytes are equal' if want == 'eq' else
                    'the first differing bytes are %s %s %s' % (show(x), '<' if want == 'lt' else '>', show(y))))


def chk_cmp(bk, mods, tier):
    rule = 'R-ORDER'
    for n in range(0, 7 + 2 * X(tier)):
        def one(n=n):
            sc = Scn(mods, 'memcmp', 'memcmp(a, b, %d)' % n)
            a = sc.buf('a', n)
            b = sc.buf('b', n)
            rets = sc.run('memcmp', [a.ptr(), b.ptr(), mk_const(64, n)])
            returns_of(bk, rule, 'memcmp', sc, rets)
            for (T, rv) in rets:
                def ref(eq, lt, T=T):
                    for i in range(n):
                        x, y = u8(T, a.at(i)), u8(T, b.at(i))
                        if not eq(x, y):
                            return ('lt', x, y) if lt(x, y) else ('gt', x, y)
                    return ('eq', None, None)
                check_sign(bk, rule, 'memcmp', sc, T, rv, ref)
                check_mem(bk, rule, 'memcmp', sc, T, {}, set(), 'nothing-is-written')
        scenario(bk, rule, 'memcmp', one)
    for fn in ('strcmp', 'strncmp'):
        for la in range(0, 4):
            for lb in range(0, 4):
                for n in (range(0, 5) if fn == 'strncmp' else (None,)):
                    if fn == 'strncmp' and la + lb > 4 and n not in (2, 4):
                        continue

                    def one(fn=fn, la=la, lb=lb, n=n):
                        sc = Scn(mods, fn, '%s(a, b%s) with strlen(a) == %d, strlen(b) == %d'
                                 % (fn, '' if n is None else ', %d' % n, la, lb))
                        a = sc.cstr('a', la, spare=1)
                        b = sc.cstr('b', lb, spare=1)
                        rets = sc.run(fn, [a.ptr(), b.ptr()] + ([] if n is None else [mk_const(64, n)]))
                        returns_of(bk, rule, fn, sc, rets)
                        k = min(la, lb) + 1
                        if n is not None:
                            k = min(k, n)
                        for (T, rv) in rets:
                            check_sign(bk, rule, fn, sc, T, rv,
                                       order_ref(T, [a.at(i) for i in range(k)], [b.at(i) for i in range(k)]))
                            check_mem(bk, rule, fn, sc, T, {}, set(), 'nothing-is-written')
                    scenario(bk, rule, fn, one)




def chk_casecmp(bk, mods, tier):
    """strcasecmp / strncasecmp: the sign follows the first position whose lower-case folds differ (tolower is an
    uninterpreted function of the character: equal characters fold equally, NUL folds to NUL only)"""
    rule = 'R-ORDER'
    key = 'sign-of-the-result-follows-the-first-position-whose-lower-case-folds-differ'
    for fn in ('strcasecmp', 'strncasecmp'):
        for la in range(0, 3 + X(tier)):
            for lb in range(0, 3 + X(tier)):
                for n in (range(0, 4) if fn == 'strncasecmp' else (None,)):
                    def one(fn=fn, la=la, lb=lb, n=n):
                        sc = Scn(mods, fn, '%s(a, b%s) with strlen(a) == %d, strlen(b) == %d'
                                 % (fn, '' if n is None else ', %d' % n, la, lb))
                        a = sc.cstr('a', la, spare=1)
                        b = sc.cstr('b', lb, spare=1)
                        rets = sc.run(fn, [a.ptr(), b.ptr()] + ([] if n is None else [mk_const(64, n)]))
                        returns_of(bk, rule, fn, sc, rets)
                        k = min(la, lb) + 1
                        if n is not None:
                            k = min(k, n)
                        for (T, rv) in rets:
                            def ref(eq, lt, T=T):
                                for i in range(k):
                                    x, y = fold_of(T, 'lower', a.at(i)), fold_of(T, 'lower', b.at(i))
                                    if not eq(x, y):
                                        return ('lt', x, y) if lt(x, y) else ('gt', x, y)
                                return ('eq', None, None)
                            check_sign(bk, rule, fn, sc, T, rv, ref, key, folds=True)
                            check_mem(bk, rule, fn, sc, T, {}, set(), 'nothing-is-written')
                    scenario(bk, rule, fn, one)


CHECKERS = [chk_memcpy, chk_memmove, chk_memset, chk_strcpy, chk_strncpy, chk_strlcpy, chk_strcat, chk_strncat,
            chk_strdup, chk_strndup, chk_case, chk_strtok, chk_chr, chk_span, chk_strstr, chk_cmp, chk_casecmp]
UNIT_OF = {'strtok_r': 'strtok'}
# (rule, functions that must have been analysed exactly, distinct content / result clauses)
FLOORS = [('R-COPY', 9, 9), ('R-FILL', 1, 1), ('R-INPLACE', 4, 4), ('R-FIND', 10, 10), ('R-ORDER', 5, 5)]


def compile_units(repo):
    jobs = []
    for n in UNITS:
        src = os.path.join(repo, DIR, n + '.c')
        if not os.path.exists(src):
            raise AnalysisBroken('%s/%s.c not found (anchor vanished)' % (DIR, n))
        jobs.append({'src': src, 'flags': LIBC_FLAGS, 'lang': 'c', 'inline': keep_all_but_new_helpers(),
                     'name': 'c08content_' + n})
    mods = dict(zip(UNITS, compile_many(jobs, repo)))
    for n in UNITS:
        f = mods[n].fn(n)
        if f is None or f.decl:
            raise AnalysisBroken('%s is not defined in %s/%s.c (anchor vanished)' % (n, DIR, n))
    return mods


def run_ext(rep, repo, tier, only=None, mods=None):
    """called at the end of c08.run; `mods` may be the dict unit name -> Module that c08.run compiled (same flags and
    inlining), otherwise the units are compiled here"""
    import absint
    if mods is None or any(n not in mods for n in UNITS):
        mods = compile_units(repo)
    bk = Book()
    saved = absint.MAX_STATES
    absint.MAX_STATES = 600        # the paths of a scenario are enumerated, not merged (engine wish: a per-Interp limit)
    try:
        for chk in CHECKERS:
            if only and chk.__name__[4:] not in only:
                continue
            chk(bk, mods, tier)
    finally:
        absint.MAX_STATES = saved
    bk.flush(rep, mods, UNIT_OF)
    rep.explanation += (
        ' CONTENTS (c08_content): byte-identity analysis on small concrete sizes with one symbol per byte position - every '
        'byte of the destination of memcpy/memmove (all overlap offsets -4..4, word and byte paths)/memset/strcpy/strncpy/'
        'strlcpy/strcat/strncat/strdup/strndup/strlwr/strupr/strtok(_r) equals the byte the definition prescribes and no '
        'other byte is stored to; memchr/memrchr/strchr/strrchr/strchrnul/strspn/strcspn/strpbrk/strstr/strcasestr return '
        'the first/last matching position and memcmp/strcmp/strncmp (strcasecmp/strncasecmp: after folding) a result whose '
        'sign follows the first differing byte, '
        'for every content of strings/buffers of length 0..6 (symbolic bytes, finite case analysis of the comparisons). '
        'Not decided: lengths beyond the enumerated ones, locale-dependent tolower/toupper.')
    rep.assumptions += ['content clauses: tolower/toupper are functions of the character (ASCII map where a folded '
                        'character is stored); malloc returns a fresh block of the requested size or NULL',
                        'content clauses are decided for the enumerated small sizes (n <= 9 and around the word-path '
                        'thresholds 32/64, string lengths <= 6, overlap offsets -4..4 and +-8/16)']
    rep.extra['c08_content'] = {'scenarios': sum(bk.scen.values()), 'paths': sum(bk.paths.values())}
    for rule, n_fn, n_cl in FLOORS:
        rep.floor(rule + ':analysed', n_fn)
        rep.floor(rule + (':result' if rule in ('R-FIND', 'R-ORDER') else ':dest'), n_cl)
        rep.floor(rule + ':frame', 2 * n_fn)
        rep.floor(rule + ':range', 2 * n_fn)
    return bk
