"""C12 float <-> text: igris_f32toa/f64toa/ftoa, igris_atof32/atof64/strtod and the libc strtod/atof shims."""
from c07_common import *

MAXP = 10


# ----------------------------------------------------------------------------------------------
# renderer
# ----------------------------------------------------------------------------------------------
def ext_strcpy(interp, st, i, args):
    """strcpy(dst, "literal"): remembers which token was written where (ghost tok: 1 inf, 2 nan, 3 other)"""
    d, s = args[0], args[1]
    txt = None
    if isinstance(s, PtrVal) and s.obj is not None and str(s.obj).startswith('global:') and s.off.is_const():
        g = interp.mod.globals.get(str(s.obj)[7:])
        init = g.get('init') if g else None
        if g and g.get('const') and isinstance(init, list) and all(isinstance(x, int) for x in init):
            b = init[s.off.c:]
            if 0 in b:
                txt = ''.join(chr(x & 0xff) for x in b[:b.index(0)])
    st.ghost['tok'] = {'inf': 1, 'nan': 2}.get(txt, 3)
    if isinstance(d, PtrVal):
        st.ghost['tok_off'] = d.off
        st.ghost['tok_buf'] = 1 if d.obj == st.ghost.get('bufid') else 0
    return [(st, d)]


def rounders_rule(rep, mod, f):
    """R-ROUNDERS: the table indexed by the precision holds 0.5 * 10^-i for i = 0..MAX_PRECISION (each entry the
    correctly rounded double of the decimal literal)"""
    tabs = []
    for i in f.all_insts():
        if i.op == 'getelementptr' and i.ops[0].k == 'global':
            g = mod.globals.get(i.ops[0].name)
            if g and g['ty'].get('elem') == 'double':
                tabs.append((i, g))
    if len(tabs) != 1:
        raise AnalysisBroken('igris_f32toa: rounding table not found (%d candidates)' % len(tabs))
    gi, g = tabs[0]
    init = g.get('init')
    ok = g.get('const') and isinstance(init, list) and len(init) == MAXP + 1
    rep.inst('R-ROUNDERS', 'igris_f32toa', 'table is constant with %d entries' % (MAXP + 1), bool(ok), gi.where(),
             'rounding table has %s entries' % (len(init) if isinstance(init, list) else '?'))
    for k in range(MAXP + 1):
        want = float('5e-%d' % (k + 1))
        got = init[k] if isinstance(init, list) and k < len(init) else None
        rep.inst('R-ROUNDERS', 'igris_f32toa', 'rounders[%d] == 0.5e-%d' % (k, k), got == want, gi.where(),
                 'rounders[%d] is %r, half a unit of the %d-th fraction digit is %r' % (k, got, k, want),
                 fact={'index': k, 'value': got})
    # the rounder is added to the magnitude before the integer part is split off
    casts = [c for c in f.all_insts() if c.op == 'fptosi' and c.bits >= 32]
    ok = False
    if len(casts) == 1:
        st_ = [casts[0].ops[0]]
        seen = set()
        while st_:
            v = st_.pop()
            if v.k != 'inst' or v.id in seen:
                continue
            seen.add(v.id)
            i = f.insts[v.id]
            if i.op in ('phi', 'select'):
                st_.extend(i.ops)
            elif i.op == 'fadd':
                for o in i.ops:
                    x = o
                    while x.k == 'inst' and f.insts[x.id].op in ('fptrunc', 'fpext'):
                        x = f.insts[x.id].ops[0]
                    if x.k == 'inst' and f.insts[x.id].op == 'load' and f.insts[x.id].ops[0].k == 'inst' and \
                            f.insts[x.id].ops[0].id == gi.id:
                        ok = True
    rep.inst('R-ROUNDERS', 'igris_f32toa', 'rounder is added before the integer part is taken', ok, gi.where(),
             'the value converted to the integer part does not include rounders[precision]')


def digit_cursor(f, L, stores):
    """the header phi of the digit loop through which the digits are stored (a pointer advanced once per iteration)"""
    out = []
    for sid in stores:
        p = f.insts[sid].ops[1]
        for _ in range(3):
            if p.k != 'inst':
                break
            i = f.insts[p.id]
            if i.op == 'phi' and i.block is L['header'] and i.ty.get('k') == 'ptr':
                out.append(i)
                break
            if i.op in ('getelementptr', 'bitcast'):
                p = i.ops[0]
            else:
                break
    if len(out) != 1:
        raise AnalysisBroken('%s: the integer digits are not stored through one loop-carried cursor (anchor changed)' % f.name)
    return out[0]


class InterpR(Interp7):
    """Interp7 that knows the emitting loops of the renderer.  tracked = {header block name: (function, loop, cursor
    phi, begin key, end key, peel)}: the cursor position on entry is stored as ghost <begin key>, the cursor position at
    every exit as ghost <end key> (a head-tested loop leaves through its header, where a value noted by a hook in the
    body is not the one of the last iteration).  peel: the first iteration is executed separately (the digit loop is
    entered with a non-zero dividend, so it emits at least one digit: a fact the inferred invariant of a head-tested loop
    cannot express)"""

    def __init__(self, mod, externals=None, opaque=()):
        Interp7.__init__(self, mod, externals, opaque)
        self.tracked = {}
        self.joins = {}
        self.join_seen = set()

    # -- join of path states that differ only in a constant chosen by floating-point comparisons ----------------
    @staticmethod
    def const_tree(f, v, depth=0):
        """constants a value can take when it is a constant or a select tree over constants, else None"""
        if v.k == 'ci':
            return {v.ival}
        if v.k == 'inst' and depth < 4 and f.insts[v.id].op == 'select':
            a = InterpR.const_tree(f, f.insts[v.id].ops[1], depth + 1)
            b = InterpR.const_tree(f, f.insts[v.id].ops[2], depth + 1)
            if a is not None and b is not None:
                return a | b
        return None

    def plan_joins(self, fn):
        """integer phis outside loops that merge at least three constants: the states arriving over those edges are
        replaced by one state in which the phi is any value of the constants' range, provided the states are otherwise
        equal (a sound over-approximation that removes one path per constant)"""
        inloop = set()
        for L in fn.loops:
            inloop |= set(L['blocks'])
        for b in fn.blocks:
            if b in inloop:
                continue
            for ph in [i for i in b.insts if i.op == 'phi' and i.ty.get('k') == 'int' and i.bits > 1]:
                edges = {}
                for (bb, v) in ph.incoming:
                    cs = self.const_tree(fn, v)
                    if cs is not None:
                        w = ph.bits
                        edges[bb] = set(c - (1 << w) if c >= (1 << (w - 1)) else c for c in (x % (1 << w) for x in cs))
                allc = set().union(*edges.values()) if edges else set()
                if len(allc) >= 3 and (fn.name, b.name) not in self.joins:
                    dom = set(i.id for d in fn.blocks if d is not b and fn.dominates_block(d, b) for i in d.insts)
                    self.joins[(fn.name, b.name)] = dict(phi=ph, edges=set(edges), lo=min(allc), hi=max(allc), dom=dom)

    def fingerprint(self, fn, b, st, frm, plan):
        env = st.frames[-1]
        items = sorted((str(k), repr(v)) for k, v in env.items() if k[0] == 'a' or (k[0] == 'i' and k[1] in plan['dom']))
        phis = []
        for i in b.insts:
            if i.op == 'phi' and i.id != plan['phi'].id:
                for (bb, v) in i.incoming:
                    if bb == frm.name:
                        phis.append((i.id, repr(self.val(st, v, fn))))
        return (frozenset(st.cons.keys), frozenset(st.diseq), tuple(sorted((str(k), repr(v)) for k, v in st.mem.items())),
                tuple(sorted((str(k), repr(v)) for k, v in st.ghost.items())), tuple(items), tuple(phis),
                repr(st.frames[:-1]), tuple(sorted(str(k) for k in st.smashed)))

    def run_function(self, fn, st, args):
        if len(st.frames) == 1:
            self.join_seen = set()
        return Interp7.run_function(self, fn, st, args)

    def exec_block(self, fn, b, st, frm, rets, skip_phis=False):
        plan = self.joins.get((fn.name, b.name))
        if plan is None or frm is None or skip_phis or frm.name not in plan['edges']:
            return Interp7.exec_block(self, fn, b, st, frm, rets, skip_phis)
        fp = (fn.name, b.name, self.recording) + self.fingerprint(fn, b, st, frm, plan)
        if fp in self.join_seen:
            return []
        self.join_seen.add(fp)
        self.eval_phis(fn, b, st, frm)
        ph = plan['phi']
        x = st.fresh_int(ph.bits, True, 'join_' + str(ph.name or ph.id))
        st.cons.add_le(plan['lo'], x.s)
        st.cons.add_le(x.s, plan['hi'])
        st.env[('i', ph.id)] = x
        return Interp7.exec_block(self, fn, b, st, frm, rets, skip_phis=True)

    def track(self, fn, L, cur, begin, end, peel):
        self.tracked[(fn.name, L['header'].name)] = (L, cur, begin, end, peel)

    def run_loop(self, fn, L, st, frm, rets):
        t = self.tracked.get((fn.name, L['header'].name))
        if t is None or t[0] is not L:
            return Interp7.run_loop(self, fn, L, st, frm, rets)
        _, cur, begin, end, peel = t
        init = None
        for (bb, v) in cur.incoming:
            if bb == frm.name:
                init = self.val(st, v, fn)
        if not isinstance(init, PtrVal):
            raise AnalysisBroken('%s: cursor of the loop at %s has no pointer value on entry' % (fn.name, L['header'].name))
        st.ghost[begin] = init.off
        st.ghost.pop(end, None)
        if peel:
            self.eval_phis(fn, L['header'], st, frm)
            latches, out = self.run_region(fn, L, [(st, frm)], rets)
            out = list(out)
            for (T, lf) in latches:
                out.extend(Interp7.run_loop(self, fn, L, T, lf, rets))
        else:
            out = Interp7.run_loop(self, fn, L, st, frm, rets)
        for (s, b, to) in out:
            c = self.val(s, iv(cur), fn)
            if isinstance(c, PtrVal) and c.obj == init.obj:
                s.ghost[end] = c.off
            else:
                s.ghost.pop(end, None)
        return out


def ftoa_check(rep, mod):
    fname = 'igris_f32toa'
    f = need(mod, fname)
    D = the_divloop(f)
    IL = D['loop']
    rem = D['rems'][0]
    int_stores = set(i.id for b in IL['blocks'] for i in b.insts if i.op == 'store')
    FL = [L for L in f.loops if any(i.op == 'fptosi' for b in L['blocks'] for i in b.insts)]
    RL = [L for L in f.loops if L is not IL and L not in FL and any(i.op == 'store' for b in L['blocks'] for i in b.insts)]
    if len(FL) != 1 or len(RL) != 1 or not int_stores:
        raise AnalysisBroken('%s: fraction loop / reversal loop not found (anchor changed)' % fname)
    frac_stores = set(i.id for b in FL[0]['blocks'] for i in b.insts if i.op == 'store')
    rstores = {}
    for b in RL[0]['blocks']:
        ss = [i for i in b.insts if i.op == 'store']
        for i in ss:
            rstores[i.id] = ss
    cur = digit_cursor(f, IL, int_stores)
    it = InterpR(mod, externals={'strcpy': ext_strcpy, 'llvm.fabs.f32': ext_nop, 'llvm.fabs.f64': ext_nop})
    it.plan_joins(f)
    it.track(f, IL, cur, 'int_begin', 'int_end', True)
    it.track(f, FL[0], digit_cursor(f, FL[0], frac_stores), 'frac_begin', 'frac_end', False)
    sink = Sink(rep, it)
    box = {}

    def setup(run, st, env, names, args, sps):
        box['buf'] = args[1].obj
        g = st.ghost
        g['bufid'] = args[1].obj
        for k in ('nminus', 'nplus', 'ndot', 'nnul', 'tok', 'nother'):
            g[k] = 0
        g['int_begin'] = None

    def sign_len(st):
        return st.ghost['nminus'] + st.ghost['nplus']

    def store_hook(interp, st, i, p, v):
        if i.fn is not f or not isinstance(p, PtrVal) or p.obj != box.get('buf'):
            return
        g = st.ghost
        w = i.where()
        c = v.const() if isinstance(v, IntVal) else None
        if i.id in int_stores:
            vl = st.force_u(v) if isinstance(v, IntVal) else None
            ok = vl is not None and st.cons.entails_le(48, vl) and st.cons.entails_le(vl, 57)
            sink.inst('R-FTOA', fname, 'integer-digit-is-0..9', ok, w,
                      'the character stored for an integer digit is %r: not provably in \'0\'..\'9\' (the integer part is '
                      'obtained by a float -> int32 conversion without a magnitude guard, so it can be negative: e.g. '
                      '3e9f converts to INT_MIN and prints characters below \'0\')%s'
                      % (vl, interp.explain(st, [vl]) if vl is not None else ''))
            ok = st.cons.entails_le(sign_len(st), p.off) and 'int_begin' in g and \
                st.cons.entails_eq(g['int_begin'], sign_len(st))
            sink.inst('R-FTOA', fname, 'integer-digits-follow-the-sign', ok, w,
                      'digit stored at offset %r, digits begin at %r after %d sign character(s)'
                      % (p.off, g.get('int_begin'), sign_len(st)))
            return
        if i.id in rstores:
            lo, hi = Lin(sign_len(st)), g.get('int_end', Lin(0)) - 1
            ok = st.cons.entails_le(lo, p.off) and st.cons.entails_le(p.off, hi)
            sink.inst('R-FTOA', fname, 'reversal-stays-inside-the-integer-digits', ok, w,
                      'the reversal writes offset %r outside [%r, %r]%s' % (p.off, lo, hi, interp.explain(st, [p.off, hi])))
            src = i.ops[0]
            li = f.insts[src.id] if src.k == 'inst' else None
            ok = False
            det = 'the reversal stores a value that is not read from the buffer'
            if li is not None and li.op == 'load':
                q = interp.val(st, li.ops[0], f)
                if isinstance(q, PtrVal) and q.obj == p.obj:
                    ok = st.cons.entails_eq(p.off + q.off, lo + hi)
                    det = 'the reversal moves the byte at offset %r to offset %r: not mirror images in [%r, %r]' % (
                        q.off, p.off, lo, hi)
                    first = min(s_.idx for s_ in rstores[i.id])
                    if ok and not (li.block is i.block and li.idx < first):
                        ok = False
                        det = 'the swap reads a byte after a store of the same swap may have overwritten it'
            sink.inst('R-FTOA', fname, 'reversal-swaps-mirror-positions', ok, w, det)
            return
        if i.id in frac_stores:
            ok = 'dot_off' in g and st.cons.entails_le(g['dot_off'] + 1, p.off) and 'frac_begin' in g and \
                st.cons.entails_eq(g['dot_off'] + 1, g['frac_begin'])
            sink.inst('R-FTOA', fname, 'fraction-digits-follow-the-point', ok, w,
                      'fraction digit stored at offset %r, fraction begins at %r, decimal point at %r'
                      % (p.off, g.get('frac_begin'), g.get('dot_off')))
            return
        if c == 45 or c == 43:
            ok = st.cons.entails_eq(p.off, 0) and sign_len(st) == 0 and 'int_end' not in g
            sink.inst('R-FTOA', fname, 'sign-is-the-first-character', ok, w, 'sign stored at offset %r' % p.off)
            g['nminus' if c == 45 else 'nplus'] += 1
            return
        if c == 48:
            ok = st.cons.entails_eq(p.off, sign_len(st)) and 'int_end' not in g
            sink.inst('R-FTOA', fname, 'zero-integer-part-is-a-single-0', ok, w, '\'0\' stored at offset %r' % p.off)
            g['int_end'] = p.off + 1
            return
        if c == 46:
            ok = 'int_end' in g and st.cons.entails_eq(p.off, g['int_end'])
            sink.inst('R-FTOA', fname, 'point-follows-the-integer-digits', ok, w,
                      '\'.\' stored at offset %r, integer digits end at %r' % (p.off, g.get('int_end')))
            g['dot_off'] = p.off
            g['ndot'] += 1
            return
        if c == 0:
            end = g.get('frac_end', g['dot_off'] + 1 if 'dot_off' in g else g.get('int_end'))
            ok = end is not None and st.cons.entails_eq(p.off, end)
            sink.inst('R-FTOA', fname, 'terminator-follows-the-last-character', ok, w,
                      'NUL stored at offset %r, text ends at %r' % (p.off, end))
            g['nul_off'] = p.off
            g['nnul'] += 1
            return
        g['nother'] += 1
        sink.inst('R-FTOA', fname, 'no-other-stores-into-the-buffer', False, w, 'unexpected store of %r at offset %r' % (v, p.off))
    it.store_hook = store_hook

    fin = ['ghost_tok_post == 0']
    post = [
        dict(name='every path returns the buffer', then=['ret_arg == 1', 'ret_off == 0']),
        dict(name='inf: sign then token', when=['ghost_tok_post == 1'],
             then=['ghost_tok_buf_post == 1', 'ghost_tok_off_post == 1', 'ghost_nminus_post + ghost_nplus_post == 1',
                   'ghost_nnul_post == 0', 'ghost_ndot_post == 0']),
        dict(name='nan: token only', when=['ghost_tok_post == 2'],
             then=['ghost_tok_buf_post == 1', 'ghost_tok_off_post == 0', 'ghost_nminus_post + ghost_nplus_post == 0',
                   'ghost_nnul_post == 0']),
        dict(name='tokens are inf/nan', then=['ghost_tok_post <= 2']),
        dict(name='finite: terminated, no plus sign', when=fin, then=['ghost_nnul_post == 1', 'ghost_nplus_post == 0',
                                                                      'ghost_nul_off_post >= 1']),
        dict(name='precision 1..10: exactly that many fraction digits', when=fin + ['arg2 >= 1', 'arg2 <= %d' % MAXP],
             then=['ghost_ndot_post == 1', 'ghost_nul_off_post == ghost_dot_off_post + 1 + arg2']),
        dict(name='precision > 10 is clamped to 10', when=fin + ['arg2 >= %d' % (MAXP + 1)],
             then=['ghost_ndot_post == 1', 'ghost_nul_off_post == ghost_dot_off_post + %d' % (MAXP + 1)]),
        dict(name='precision 0: no point, no fraction', when=fin + ['arg2 == 0'],
             then=['ghost_ndot_post == 0', 'ghost_nul_off_post == ghost_int_end_post']),
        dict(name='automatic precision: 0..6 fraction digits', when=fin + ['arg2 <= -1', 'ghost_ndot_post >= 1'],
             then=['ghost_ndot_post == 1', 'ghost_nul_off_post >= ghost_dot_off_post + 2',
                   'ghost_nul_off_post <= ghost_dot_off_post + 7']),
    ]
    run = Run7(it, [])
    run.run(f.name, spec7(setup=setup, post=post))
    import_obligations(rep, 'R-FTOA', it, run)
    rounders_rule(rep, mod, f)


# ----------------------------------------------------------------------------------------------
# parsers
# ----------------------------------------------------------------------------------------------
def reach(mod, f, depth=3):
    out = [f]
    seen = {f.name}
    frontier = [f]
    for _ in range(depth):
        nxt = []
        for g in frontier:
            for c in g.calls():
                t = mod.fn(c.callee) if c.callee else None
                if t is not None and not t.decl and t.name not in seen:
                    seen.add(t.name)
                    out.append(t)
                    nxt.append(t)
        frontier = nxt
    return out


def grammar_rule(rep, mod, f, name):
    """R-GRAMMAR (necessary condition): a parser of [+-]d*[.d*][(e|E)[+-]d+] must test characters against '+', '-',
    '.', 'e' and 'E' (or fold the case) somewhere in itself or its callees"""
    eq = set()
    fold = False
    for g in reach(mod, f):
        for i in g.all_insts():
            if i.op == 'icmp' and i.pred in ('eq', 'ne'):
                for o in i.ops:
                    if o.k == 'ci':
                        eq.add(o.ival)
            elif i.op == 'switch':
                for c in i.d['cases']:
                    eq.add(c['v'])
            elif i.op in ('or', 'and') and any(o.k == 'ci' and o.ival in (32, -33, 223) for o in i.ops):
                fold = True
            elif i.op == 'call' and i.callee in ('tolower', 'toupper', 'igris_tolower', 'igris_toupper'):
                fold = True
    w = where(f)
    for key, ok, miss in (
            ('recognises a leading \'-\'', 45 in eq, '\'-\''),
            ('recognises a leading \'+\'', 43 in eq, '\'+\''),
            ('recognises the decimal point', 46 in eq, '\'.\''),
            ('recognises the exponent marker e/E', (101 in eq and 69 in eq) or ((101 in eq or 69 in eq) and fold), '\'e\'/\'E\'')):
        rep.inst('R-GRAMMAR', name, key, ok, w,
                 'neither %s nor its callees ever compare a character with %s: that part of a decimal literal cannot be '
                 'recognised' % (name, miss), fact={'constants': sorted(c for c in eq if 32 <= c < 127)})


def float_accumulators(f):
    """loops  val = val * 10.0 + digit  in floating point"""
    out = []
    for L in f.loops:
        for ph in [i for i in L['header'].insts if i.op == 'phi' and i.ty.get('k') == 'fp']:
            for (bb, v) in ph.incoming:
                if f.bmap[bb] not in L['blocks'] or v.k != 'inst':
                    continue
                a = f.insts[v.id]
                mul = None
                if a.op == 'call' and (a.callee or '').startswith('llvm.fmuladd'):
                    ops = a.ops[:2]
                    if any(o.k == 'inst' and o.id == ph.id for o in ops) and any(o.k == 'cf' for o in ops):
                        mul = [o for o in ops if o.k == 'cf'][0]
                elif a.op == 'fadd':
                    for o in a.ops:
                        if o.k == 'inst' and f.insts[o.id].op == 'fmul':
                            m = f.insts[o.id]
                            if any(x.k == 'inst' and x.id == ph.id for x in m.ops) and any(x.k == 'cf' for x in m.ops):
                                mul = [x for x in m.ops if x.k == 'cf'][0]
                if mul is not None:
                    try:
                        out.append((L, ph, float(mul.d['v'])))
                    except (ValueError, KeyError):
                        pass
    return out


def fpacc_rule(rep, mod, f, name):
    """R-FPACC: the mantissa digits are accumulated in floating point (val*10+d); a fixed-width integer accumulator
    silently wraps on literals with more digits than it can hold"""
    facc = [a for a in float_accumulators(f) if a[2] == 10.0]
    bad = []
    for c in f.calls():
        t = mod.fn(c.callee) if c.callee else None
        if t is None or t.decl or not find_accumulators(t):
            continue
        for u in f.users(c):
            x = u
            if x.op in ('zext', 'sext', 'trunc'):
                us = f.users(x)
                x = us[0] if us else x
            if x.op in ('uitofp', 'sitofp'):
                bad.append((c.callee, t.ret.get('bits')))
    ok = bool(facc) and not bad
    rep.inst('R-FPACC', name, 'mantissa-accumulated-in-floating-point', ok, where(f),
             None if ok else ('the mantissa is parsed by %s into a fixed-width integer and converted afterwards: digits '
                              'beyond that width wrap silently (e.g. an integer part of 2^32 or 20 fraction digits)'
                              % ', '.join('%s (%s bits)' % b for b in sorted(set(bad))) if bad else
                              'no floating-point digit accumulation loop found'),
             fact={'float_loops': len(facc), 'integer_parsers': sorted(set(b[0] for b in bad))})


def forced(it, st, ch, c):
    return feasible(it, st, [(ch, c - 1)]) is None and feasible(it, st, [(c + 1, ch)]) is None and \
        feasible(it, st, [(c, ch), (ch, c)]) is not None


class InterpF(Interp7):
    """Interp7 that remembers every character read from the C string (ghost chars: offset key -> (offset, value))"""

    def exec_inst(self, fn, i, st):
        out = Interp7.exec_inst(self, fn, i, st)
        if i.op == 'load' and i.ty.get('bits') == 8:
            for s in out:
                off = s.ghost.get('last_off')
                ch = s.ghost.get('last_ch')
                p = self.val(s, i.ops[0], fn) if i.ops[0].key() in s.env or i.ops[0].k != 'inst' else None
                if off is None or ch is None or not isinstance(p, PtrVal) or p.off != off:
                    continue
                d = dict(s.ghost.get('chars') or {})
                d[off.key()] = (off, ch)
                s.ghost['chars'] = d
        return out


def exp_minus(it, st):
    for (off, ch) in (st.ghost.get('chars') or {}).values():
        if off.is_const() and off.c == 0:
            continue
        if forced(it, st, ch, 45):
            return True
    return False


def atof64_check(rep, mod):
    import absint
    old = absint.MAX_STATES
    absint.MAX_STATES = 300        # five scan loops in sequence, each with two exits and a terminator split
    try:
        _atof64_check(rep, mod)
    finally:
        absint.MAX_STATES = old


def _atof64_check(rep, mod):
    fname = 'igris_atof64'
    f = need(mod, fname)
    accs = find_accumulators(f)
    if len(accs) != 1 or strip(f, accs[0]['base']).k != 'ci' or strip(f, accs[0]['base']).ival != 10:
        raise AnalysisBroken('%s: decimal exponent accumulation loop not found' % fname)
    E = accs[0]
    # the addition that merges the exponent into the scale count
    merges = []
    for i in f.all_insts():
        if i.op == 'add' and i.block not in E['loop']['blocks'] and i.id != E['add'].id:
            for k in (0, 1):
                o = i.ops[k]
                if o.k == 'inst' and (o.id == E['phi'].id or (f.insts[o.id].op in ('mul', 'sub', 'select') and
                                                               depends_mul(f, o, E['phi']))):
                    merges.append((i, o))
    if len(merges) != 1:
        raise AnalysisBroken('%s: expected one addition of the exponent to the scale count, found %d' % (fname, len(merges)))
    M, contrib = merges[0]
    rets = f.returns()
    signs = []
    for i in f.all_insts():
        if i.op == 'sitofp':
            for u in f.users(i):
                if u.op == 'fmul' and any(depends_ret(f, r, u) for r in rets):
                    signs.append(i)
    if len(signs) != 1:
        raise AnalysisBroken('%s: expected one integer sign factor in the result, found %d' % (fname, len(signs)))
    S = signs[0]
    it = InterpF(mod)
    it.no_peel = True
    it.havoc_pure_loops(f)
    sink = Sink(rep, it)

    def merge_hook(interp, st, i, fn):
        if interp.recording > 0:
            return
        ev = interp.val(st, iv(E['phi']), fn)
        cv = interp.val(st, contrib, fn)
        el = st.as_s(ev) if isinstance(ev, IntVal) else None
        cl = st.as_s(cv) if isinstance(cv, IntVal) else None
        neg = exp_minus(interp, st)
        ok = el is not None and cl is not None and st.cons.entails_eq(cl, -el if neg else el)
        sink.inst('R-EXPSIGN', fname, 'exponent is subtracted iff it is written with \'-\'' if neg else
                  'exponent is added when it has no \'-\'', ok, i.where(),
                  'the literal has %s exponent sign but the scale count receives %r for an exponent value %r '
                  '(e.g. "1e-2" must scale by 10^-2)' % ('a \'-\'' if neg else 'no \'-\'', cl, el))
    it.pre[(f.name, M.id)] = merge_hook

    def sign_hook(interp, st, i, fn):
        if interp.recording > 0:
            return
        sv = interp.val(st, i.ops[0], fn)
        sl = st.as_s(sv) if isinstance(sv, IntVal) else None
        ch = st.ghost.get('first_ch')
        if ch is None or sl is None:
            sink.inst('R-MANTSIGN', fname, 'sign factor is decided by the first character', False, i.where(),
                      'sign factor %r, first character %r' % (sl, ch))
            return
        minus = forced(interp, st, ch, 45)
        can_minus = feasible(interp, st, [(45, ch), (ch, 45)]) is not None
        if minus:
            ok = st.cons.entails_eq(sl, -1)
            sink.inst('R-MANTSIGN', fname, 'leading \'-\': result is negated', ok, i.where(),
                      'the literal starts with \'-\' but the sign factor is %r' % sl)
        elif not can_minus:
            ok = st.cons.entails_eq(sl, 1)
            sink.inst('R-MANTSIGN', fname, 'no leading \'-\': result keeps its sign', ok, i.where(),
                      'the literal does not start with \'-\' but the sign factor is %r (a \'-\' elsewhere in the literal, '
                      'e.g. in the exponent "1e-2", must not negate the value)' % sl)
        else:
            sink.inst('R-MANTSIGN', fname, 'sign factor is decided by the first character', False, i.where(),
                      'the state reaching the sign factor does not decide whether the first character is \'-\'')
    it.pre[(f.name, S.id)] = sign_hook
    post = [dict(name='end pointer is the scan position',
                 then=['ghost_end_set_post == 1', 'ghost_end_arg_post == 0', 'ghost_end_off_post == ghost_last_off_post'])]
    run = Run7(it, [])
    run.run(f.name, spec7(setup=cstr_params(0), extents={'arg1': '8'}, post=post, outptrs={1: 'end'}))
    import_obligations(rep, 'R-ATOF64', it, run)
    if guarded_outptr_rule(rep, 'R-ATOF64', f, fname, 1) == 0:
        raise AnalysisBroken('%s never stores the end pointer' % fname)
    # digits: every float accumulation multiplies by 10 and adds c - '0'
    fa = float_accumulators(f)
    rep.inst('R-ATOF64', fname, 'integer and fraction digits are accumulated as val*10 + digit',
             len(fa) == 2 and all(a[2] == 10.0 for a in fa), where(f),
             'found %d floating accumulation loops with factors %s' % (len(fa), [a[2] for a in fa]))
    # scale factors
    muls = sorted(float(o.d['v']) for L in f.loops for b in L['blocks'] for i in b.insts if i.op == 'fmul'
                  for o in i.ops if o.k == 'cf' and L not in [a[0] for a in fa])
    rep.inst('R-ATOF64', fname, 'scaling multiplies by 10 and by 0.1', muls == [0.1, 10.0], where(f),
             'scaling loops multiply by %s' % muls, fact=muls)


def depends_mul(f, v, target, depth=4):
    if v.k != 'inst' or depth < 0:
        return False
    if v.id == target.id:
        return True
    i = f.insts[v.id]
    if i.op in ('mul', 'sub', 'select', 'sext', 'zext', 'trunc'):
        return any(depends_mul(f, o, target, depth - 1) for o in i.ops)
    return False


def depends_ret(f, r, inst, depth=4):
    if not r.ops:
        return False
    st = [(r.ops[0], 0)]
    while st:
        v, d = st.pop()
        if v.k != 'inst' or d > depth:
            continue
        if v.id == inst.id:
            return True
        i = f.insts[v.id]
        if i.op in ('phi', 'select', 'fptrunc', 'fpext'):
            for o in i.ops:
                st.append((o, d + 1))
    return False


def atof32_check(rep, mod):
    fname = 'igris_atof32'
    f = need(mod, fname)
    it = InterpF(mod)
    it.havoc_pure_loops(need(mod, 'local_pow'))
    post = [dict(name='end pointer is set on every path', then=['ghost_end_set_post == 1']),
            dict(name='end pointer is the scan position', when=['ghost_end_set_post == 1'],
                 then=['ghost_end_arg_post == 0', 'ghost_end_off_post == ghost_last_off_post'])]
    run = Run7(it, [])
    run.run(f.name, spec7(setup=cstr_params(0), extents={'arg1': '8'}, post=post, outptrs={1: 'end'}))
    import_obligations(rep, 'R-ATOF32', it, run)
    it2 = InterpF(mod)
    run2 = Run7(it2, [])
    run2.run(f.name, spec7(setup=combine(cstr_params(0), null_param(1))))
    import_obligations(rep, 'R-ATOF32-NOEND', it2, run2)
    # sign: every computed result is select(leading '-', -x, x)
    rets = f.returns()
    vals = []
    if len(rets) == 1 and rets[0].ops:
        v = rets[0].ops[0]
        i = f.insts[v.id] if v.k == 'inst' else None
        vals = list(i.ops) if i is not None and i.op == 'phi' else [v]
    n = 0
    for v in vals:
        if v.k == 'cf':
            continue
        n += 1
        i = f.insts[v.id] if v.k == 'inst' else None
        ok = False
        det = 'a result is not a selection between the magnitude and its negation'
        if i is not None and i.op == 'select':
            t, e = i.ops[1], i.ops[2]
            ti = f.insts[t.id] if t.k == 'inst' else None
            if ti is not None and ti.op == 'fneg' and same_float(f, ti.ops[0], e):
                c = bool_root(f, i.ops[0])
                ci = f.insts[c.id] if c.k == 'inst' else None
                while ci is not None and ci.op == 'select' and ci.ops[1].k == 'ci' and ci.ops[2].k == 'ci' and \
                        ci.ops[1].ival == 1 and ci.ops[2].ival == 0:
                    c = bool_root(f, ci.ops[0])
                    ci = f.insts[c.id] if c.k == 'inst' else None
                if ci is not None and ci.op == 'icmp' and ci.pred == 'eq':
                    k = [o for o in ci.ops if o.k == 'ci']
                    x = [strip(f, o) for o in ci.ops if o.k != 'ci']
                    ld = f.insts[x[0].id] if x and x[0].k == 'inst' else None
                    ok = bool(k) and k[0].ival == 45 and ld is not None and ld.op == 'load' and \
                        ld.ops[0].k == 'arg' and ld.ops[0].argno == 0
                    det = 'the negated magnitude is selected by a test that is not "first character == \'-\'"'
            else:
                det = 'the selection does not negate on its true side'
        rep.inst('R-ATOF32', fname, 'result %d is negated iff the literal starts with \'-\'' % n, ok,
                 i.where() if i is not None else where(f), None if ok else det)
    if n == 0:
        raise AnalysisBroken('%s: no computed result found' % fname)


def same_float(f, a, b):
    if a.key() == b.key():
        return True
    ia = f.insts[a.id] if a.k == 'inst' else None
    ib = f.insts[b.id] if b.k == 'inst' else None
    if ia is not None and ib is not None and ia.op == ib.op and ia.op in ('uitofp', 'sitofp', 'fpext', 'fptrunc'):
        return same_float(f, ia.ops[0], ib.ops[0])
    return False


# ----------------------------------------------------------------------------------------------
def run(rep, repo, tier):
    rep.explanation = (
        'igris_f32toa by abstract interpretation (floats are opaque): for every value and precision the text has the shape '
        '[-]digits[.digits] NUL with the sign first, the point directly after the integer digits, exactly `precision` '
        'fraction digits (clamped to 10; none and no point for 0; 0..6 when automatic), the terminator directly after the '
        'last character, the integer digits reversed by mirror swaps inside their range, every path returns the buffer, '
        'inf/nan write the tokens "inf"/"nan" (sign first), the rounding table equals 0.5*10^-i and its index stays inside '
        'it; integer digits must be provably \'0\'..\'9\'. igris_f64toa/ftoa forward to the float renderer. Parsers: with the '
        'C-string model igris_atof32/atof64 never read past the terminator, store the end pointer on every path and it is the '
        'scan position (also with a NULL end pointer); atof64: the sign factor is -1 exactly when the first character is \'-\', '
        'the exponent is subtracted exactly when written with \'-\', digits accumulate as val*10+d in floating point, '
        'scaling uses 10 and 0.1; atof32: result negated iff leading \'-\'; grammar coverage (which of + - . e E a parser can '
        'recognise at all); strtod/atof/igris_strtod forward to igris_atof64. Not decided: any numerical accuracy bound '
        '(rounding, ulps, fraction digit values), behaviour beyond the magnitude the algorithms support.')
    rep.assumptions += ['input strings are NUL terminated', 'floating-point values are opaque to the analysis']
    mod = compile_ir(repo + '/igris/util/numconvert.c', repo)
    rep.units.append('igris/util/numconvert.c')
    ftoa_check(rep, mod)
    forward_rule(rep, 'R-FORWARD', need(mod, 'igris_f64toa'), 'igris_f64toa', 'igris_f32toa',
                 [('arg', 0), ('arg', 1), ('arg', 2)], 'same')
    forward_rule(rep, 'R-FORWARD', need(mod, 'igris_ftoa'), 'igris_ftoa', 'igris_f64toa',
                 [('arg', 0), ('arg', 1), ('arg', 2)], 'same')
    forward_rule(rep, 'R-FORWARD', need(mod, 'igris_strtod'), 'igris_strtod', 'igris_atof64', [('arg', 0), ('arg', 1)], 'float')
    atof64_check(rep, mod)
    atof32_check(rep, mod)
    for nm in ('igris_atof64', 'igris_atof32'):
        grammar_rule(rep, mod, need(mod, nm), nm)
        fpacc_rule(rep, mod, need(mod, nm), nm)
    modl = libc_unit(repo, 'compat/libc/stdlib/strtod.c')
    rep.units.append('compat/libc/stdlib/strtod.c')
    forward_rule(rep, 'R-FORWARD', need(modl, 'strtod'), 'strtod', 'igris_atof64', [('arg', 0), ('arg', 1)], 'float')
    forward_rule(rep, 'R-FORWARD', need(modl, 'atof'), 'atof', 'igris_atof64', [('arg', 0), ('null',)], 'float')
    rep.floor('R-FTOA', 40)
    rep.floor('R-ROUNDERS', 13)
    rep.floor('R-FORWARD', 18)
    rep.floor('R-EXPSIGN', 2)
    rep.floor('R-MANTSIGN', 2)
    rep.floor('R-ATOF64', 5)
    rep.floor('R-ATOF32', 5)
    rep.floor('R-GRAMMAR', 8)
    rep.floor('R-FPACC', 2)
