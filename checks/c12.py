"""C12 float <-> text: igris_f32toa/f64toa/ftoa, igris_atof32/atof64/strtod, the libc strtod/atof shims, the ASCII float
reader of igris::binreader and the float printer of dprint.

Helpers: c12_render.py (renderer), c12_parse.py (parsers), c12_frange.py (floating-point interval analysis);
witness/w_c12_binreader.cpp."""
from c07_common import *
from c12_render import ftoa_check
from c12_parse import atof64_check, atof32_check, grammar_rule, fpacc_rule, loop_guard
from c12_frange import FRange, V_of

INF = float('inf')
DBL_MAX = 1.7976931348623157e308


def const_root(f, v):
    """(root value, constant byte offset) through bitcasts and constant GEPs; offset None when a step is variable"""
    off = 0
    for _ in range(40):
        if v.k != 'inst':
            break
        i = f.insts[v.id]
        if i.op in ('bitcast', 'addrspacecast'):
            v = i.ops[0]
        elif i.op == 'getelementptr':
            for s in i.d['gep']['steps']:
                if s['k'] == 'field':
                    off += s['off']
                elif s['v']['k'] == 'ci':
                    off += s['stride'] * s['v']['v']
                else:
                    return v, None
            v = i.ops[0]
        else:
            break
    return v, off


def same_place(f, p, q):
    a, b = const_root(f, p), const_root(f, q)
    return a[1] is not None and a[1] == b[1] and a[0].key() == b[0].key()


def binreader_rule(rep, repo):
    """R-BINREADER: igris::binreader::read_ascii_decimal_float parses at the stream cursor with igris_atof32, lets the
    parser move the cursor to the end of the literal (the cursor field is passed as the end pointer) and stores the value
    through the result parameter"""
    mod = witness('w_c12_binreader.cpp', repo)
    rep.units.append('igris/binreader.h')
    name = cxx(mod, 'igris::binreader', 'read_ascii_decimal_float')
    f = mod.fn(name)
    fn = 'igris::binreader::read_ascii_decimal_float'
    w = where(f)
    calls = [c for c in f.calls() if c.callee and not c.callee.startswith('llvm.')]
    tgt = [c for c in calls if c.callee == 'igris_atof32']
    ok = len(tgt) == 1 and len(calls) == 1
    rep.inst('R-BINREADER', fn, 'parses with igris_atof32 only', ok, w,
             'calls %s' % sorted(c.callee for c in calls), fact=[c.callee for c in calls])
    if len(tgt) != 1:
        return
    c = tgt[0]
    a0 = c.ops[0]
    ld = f.insts[a0.id] if a0.k == 'inst' else None
    r0 = const_root(f, ld.ops[0]) if ld is not None and ld.op == 'load' else (None, None)
    ok = r0[0] is not None and r0[0].k == 'arg' and r0[0].argno == 0 and r0[1] is not None
    rep.inst('R-BINREADER', fn, 'the text parsed is the stream cursor', ok, c.where(),
             'argument 0 of igris_atof32 is not a field of *this')
    r1 = const_root(f, c.ops[1])
    ok2 = ok and r1[0].k == 'arg' and r1[0].argno == 0 and r1[1] == r0[1]
    rep.inst('R-BINREADER', fn, 'the end of the literal becomes the new stream cursor', ok2, c.where(),
             'the end-pointer argument of igris_atof32 is not the address of the cursor field the text was read from')
    sts = [i for i in f.all_insts() if i.op == 'store' and i.ops[0].k == 'inst' and i.ops[0].id == c.id]
    ok = len(sts) == 1 and sts[0].ops[1].k == 'arg' and sts[0].ops[1].argno == 1
    rep.inst('R-BINREADER', fn, 'the parsed value is stored through the result parameter', ok, c.where(),
             'the result of igris_atof32 is not stored through parameter 1')


def bits_test(f, want_pred):
    """f returns ((bits of its double argument) & 0x7fff...) <pred> 0x7ff0..."""
    rets = f.returns()
    if len(rets) != 1 or not rets[0].ops:
        return False, 'no single return'
    v = bool_root(f, strip(f, rets[0].ops[0]))
    c = f.insts[v.id] if v.k == 'inst' else None
    if c is None or c.op != 'icmp':
        return False, 'the result is not a comparison'
    k = [o for o in c.ops if o.k == 'ci']
    x = [o for o in c.ops if o.k != 'ci']
    if len(k) != 1 or len(x) != 1 or c.ops[1].k != 'ci':
        return False, 'the comparison has no constant right-hand side'
    a = f.insts[x[0].id] if x[0].k == 'inst' else None
    if a is None or a.op != 'and' or not any(o.k == 'ci' and o.ival % (1 << 64) == 0x7fffffffffffffff for o in a.ops):
        return False, 'the sign bit is not masked off with 0x7fffffffffffffff'
    src = [o for o in a.ops if o.k != 'ci']
    bits_ok = False
    if len(src) == 1 and src[0].k == 'inst':
        b = f.insts[src[0].id]
        if b.op == 'bitcast' and b.ops[0].k == 'arg':
            bits_ok = True
        elif b.op == 'call' and b.callee and b.ops and b.ops[0].k == 'arg' and b.bits == 64:
            g = f.mod.fn(b.callee)
            # the helper stores its double argument and reloads the same bytes as a 64-bit integer
            if g is not None and not g.decl:
                sts = [i for i in g.all_insts() if i.op == 'store']
                lds = [i for i in g.all_insts() if i.op == 'load']
                gr = g.returns()
                if len(sts) == 1 and len(lds) == 1 and sts[0].ops[0].k == 'arg' and len(gr) == 1 and gr[0].ops and \
                        gr[0].ops[0].k == 'inst' and gr[0].ops[0].id == lds[0].id and lds[0].bits == 64 and \
                        same_place(g, sts[0].ops[1], lds[0].ops[0]) and \
                        g.params[0]['ty'].get('bits') == 64:
                    bits_ok = True
    if not bits_ok:
        return False, 'the tested integer is not the bit pattern of the argument'
    kv = k[0].ival % (1 << 64)
    if c.pred != want_pred or kv != 0x7ff0000000000000:
        return False, 'compares with %s 0x%x, expected %s 0x7ff0000000000000' % (c.pred, kv, want_pred)
    return True, None


def dprint_rule(rep, repo):
    """R-DPRINT: debug_printdec_double_prec (dprint's own float printer; it does not go through igris_ftoa)"""
    mod = compile_ir(repo + '/igris/dprint/dprint_func_impl.c', repo)
    rep.units.append('igris/dprint/dprint_func_impl.c')
    fname = 'debug_printdec_double_prec'
    f = need(mod, fname)
    w = where(f)
    forward_rule(rep, 'R-FORWARD', need(mod, 'debug_printdec_float_prec'), 'debug_printdec_float_prec', fname,
                 [('arg', 0), ('arg', 1)], None)
    convs = [i for i in f.all_insts() if i.op in ('fptosi', 'fptoui')]
    deleg = [c for c in f.calls() if c.callee in ('igris_ftoa', 'igris_f64toa', 'igris_f32toa')]
    if deleg and not convs:
        # rewritten on top of the verified renderer: nothing of its own left to decide here
        a0 = strip(f, deleg[0].ops[0], ('fpext', 'fptrunc'))
        rep.inst('R-DPRINT', fname, 'the value is rendered by igris_ftoa', a0.k == 'arg' and a0.argno == 0, deleg[0].where(),
                 'the renderer is not called with the value parameter')
        return True
    if not convs:
        raise AnalysisBroken('%s: no float -> integer conversion found (anchor changed)' % fname)
    # NaN / infinity are recognised by bit pattern and diverted before any digit is computed
    first = [c for c in convs if all(c is d or f.dominates(c, d) for d in convs)]
    if len(first) != 1:
        raise AnalysisBroken('%s: no conversion dominates the others (anchor changed)' % fname)
    IC = first[0]
    diverted = {}
    for (pred, what) in (('ugt', 'NaN'), ('eq', 'infinity')):
        ok = False
        det = 'no call to a bit-pattern test for %s on the argument dominates the integer conversion' % what
        for c in f.calls():
            g = mod.fn(c.callee) if c.callee else None
            if g is None or g.decl or not c.ops or c.ops[0].k != 'arg' or c.ops[0].argno != 0:
                continue
            good, why = bits_test(g, pred)
            if not good:
                continue
            for u in f.users(c):
                t = u
                if t.op == 'icmp' and t.pred in ('ne', 'eq') and any(o.k == 'ci' and o.ival == 0 for o in t.ops):
                    for b in f.blocks:
                        br = b.term
                        if br.op == 'br' and 'f' in br.d and br.ops[0].k == 'inst' and br.ops[0].id == t.id:
                            cont = f.bmap[br.d['f'] if t.pred == 'ne' else br.d['t']]
                            away = f.bmap[br.d['t'] if t.pred == 'ne' else br.d['f']]
                            if cont is not away and len(cont.preds) == 1 and f.dominates_block(cont, IC.block) and \
                                    IC.block not in f.reachable_blocks(away):
                                ok = True
        diverted[what] = ok
        rep.inst('R-DPRINT', fname, '%s is diverted before any digit is computed' % what, ok, w, None if ok else det)
    ax = {}
    if diverted['NaN'] and diverted['infinity']:
        ax[('a', 0)] = (-DBL_MAX, DBL_MAX, False)
    fr = FRange(mod, f, axioms=ax)
    # the three conversions
    L = None
    for L_ in f.loops:
        g = loop_guard(f, L_)
        if g is not None and g[2].k == 'arg' and g[2].argno == 1:
            L = L_
    if L is None:
        raise AnalysisBroken('%s: loop bounded by the precision parameter not found (anchor changed)' % fname)
    inl = [c for c in convs if c.block in L['blocks']]
    aft = [c for c in convs if c is not IC and c.block not in L['blocks']]
    if len(inl) != 1 or len(aft) != 1:
        raise AnalysisBroken('%s: expected one conversion inside and one after the fraction loop (anchor changed)' % fname)
    for (role, i) in (('integer part', IC), ('scaled fraction inside the loop', inl[0]), ('scaled fraction after the loop', aft[0])):
        c = fr.conv(i)
        rep.inst('R-DPRINT', fname, '%s: the converted value fits the integer type' % role, c['ok'], i.where(),
                 None if c['ok'] else '%s conversion (%s to i%d): %s' % (role, i.op, i.bits, c['why']),
                 fact={'operand_range': [repr(c['range'][0]), repr(c['range'][1])], 'may_be_nan': c['range'][2]})
    # exactly prec characters after the point
    emit = [c for c in f.calls() if c.callee and c.callee.startswith('debug_p')]
    inloop = [c for c in emit if c.block in L['blocks']]
    after = [c for c in emit if c.block not in L['blocks'] and any(c.block in f.reachable_blocks(t) for (b, t) in L['exits'])]
    every = [c for c in inloop if all(f.dominates_block(c.block, lt) for lt in L['latches'])]
    ok = len(every) == 1 and len(inloop) == 1 and not after
    det = None
    if not ok:
        det = ('inside the loop over the precision %d of %d print call(s) run on every iteration, %d print call(s) follow the '
               'loop (%s): the number of characters after the point is not the requested precision'
               % (len(every), len(inloop), len(after), ', '.join(sorted(set(c.callee for c in after)))))
    rep.inst('R-DPRINT', fname, 'the fraction is printed as exactly prec characters (one per iteration, none after the loop)',
             ok, L['header'].term.where(), det)


# ----------------------------------------------------------------------------------------------
def run(rep, repo, tier):
    rep.explanation = (
        'Renderer igris_f32toa. (1) Layout by abstract interpretation over all values and precisions: the text is '
        '[-]digits[.digits] NUL with the sign first, at least one integer digit, the point directly after the integer '
        'digits, exactly `precision` fraction digits (clamped to 10; no point and no fraction for 0; 0..6 when automatic), '
        'the terminator directly after the last character and no other store into the buffer; the integer digits are '
        'reversed by mirror swaps inside their own range; every path returns the buffer; inf/nan write the tokens '
        '"inf"/"nan" (sign first); the rounding table index is in bounds and is the number of fraction digits printed. '
        '(2) Float -> integer conversions by interval analysis of the floating-point SSA values (IEEE-754, dominating '
        'comparisons, inductive intervals for loop-carried values, x - (T)(int)x in [0,1)): each conversion operand must '
        'fit its integer type (R-FCONV); with the derived integer intervals the interpreter proves every integer and '
        'fraction character to be \'0\'..\'9\'. (3) IR dataflow (R-DIGITS): integer digits are n % 10 / n /= 10 until '
        'zero, stored as \'0\'+remainder at a cursor stepping by one; fraction digits are (int)(10*frac) with the digit '
        'subtracted again, starting from value - integer part; R-ROUNDERS: the table is 0.5*10^-i and is added before the '
        'integer part is taken. igris_f64toa / igris_ftoa forward to it. '
        'Parsers. With the C-string model igris_atof32 / igris_atof64 never read past the terminator; the end pointer is '
        'stored (guarded by a NULL test) on every path and is the scan position. atof64: sign factor -1 exactly for a '
        'leading \'-\', the exponent reaches the decimal scale with its own sign and only the scale, accumulated digits are '
        'c-\'0\' of characters \'0\'..\'9\', fraction digits lower the scale by one each, the x10 / x0.1 loops run in the '
        'right direction on that scale, the result is sign * scaled mantissa. atof32: the early return is taken only for '
        'characters that cannot start a literal, a sign is skipped, the fraction is divided by 10^(digits scanned), the '
        'result is negated iff the literal starts with \'-\'; R-GRAMMAR / R-FPACC: which parts of the grammar a parser can '
        'recognise at all and whether the mantissa is accumulated in floating point. strtod / atof / igris_strtod / '
        'binreader::read_ascii_decimal_float forward text and end pointer. dprint: NaN/inf diverted by bit-pattern tests, '
        'conversions in range, one fraction character per requested digit. '
        'Not decided: numerical accuracy (how many ulps the parsers are off, whether the printed digits are the correctly '
        'rounded ones), the value of the automatic precision, the twin copies in igris/container/std_portable.h.')
    rep.assumptions += ['input strings are NUL terminated',
                        'IEEE-754 binary32/binary64 arithmetic with round-to-nearest (interval analysis of float values)',
                        'a float -> integer conversion whose operand is out of range is undefined; later clauses are '
                        'evaluated for defined conversions and the conversion site itself is reported (R-FCONV)']
    from irlib import keep_all_but_new_helpers
    # file-local helpers introduced by refactoring are folded into their callers (local_pow is anchored by the rules)
    mod = compile_ir(repo + '/igris/util/numconvert.c', repo, inline=keep_all_but_new_helpers(('local_pow',)))
    rep.units.append('igris/util/numconvert.c')
    ftoa_check(rep, mod)
    forward_rule(rep, 'R-FORWARD', need(mod, 'igris_f64toa'), 'igris_f64toa', 'igris_f32toa',
                 [('arg', 0), ('arg', 1), ('arg', 2)], 'same')
    forward_rule(rep, 'R-FORWARD', need(mod, 'igris_ftoa'), 'igris_ftoa', 'igris_f64toa',
                 [('arg', 0), ('arg', 1), ('arg', 2)], 'same')
    forward_rule(rep, 'R-FORWARD', need(mod, 'igris_strtod'), 'igris_strtod', 'igris_atof64', [('arg', 0), ('arg', 1)], 'float')
    atof64_check(rep, mod)
    atof32_check(rep, mod)
    for nm in ('igris_atof64', 'igris_atof32'):
        grammar_rule(rep, mod, need(mod, nm), nm)
        fpacc_rule(rep, mod, need(mod, nm), nm)
    modl = libc_unit(repo, 'compat/libc/stdlib/strtod.c')
    rep.units.append('compat/libc/stdlib/strtod.c')
    forward_rule(rep, 'R-FORWARD', need(modl, 'strtod'), 'strtod', 'igris_atof64', [('arg', 0), ('arg', 1)], 'float')
    forward_rule(rep, 'R-FORWARD', need(modl, 'atof'), 'atof', 'igris_atof64', [('arg', 0), ('null',)], 'float')
    binreader_rule(rep, repo)
    delegated = dprint_rule(rep, repo)
    rep.floor('R-FTOA', 40)
    rep.floor('R-FCONV', 2)
    rep.floor('R-DIGITS', 9)
    rep.floor('R-ROUNDERS', 13)
    rep.floor('R-FORWARD', 21)
    rep.floor('R-EXPSIGN', 2)
    rep.floor('R-MANTSIGN', 2)
    rep.floor('R-ATOF64', 20)
    rep.floor('R-ATOF32', 15)
    rep.floor('R-ATOF32-NOEND', 3)
    rep.floor('R-GRAMMAR', 8)
    rep.floor('R-FPACC', 2)
    rep.floor('R-BINREADER', 4)
    rep.floor('R-DPRINT', 1 if delegated else 6)
