"""C05 extension: the STREAM-LEVEL clauses of the gstuff receivers, decided mechanically on short streams of symbolic bytes.

c05.py proves one clause per (automaton state, byte class) transition and argues resynchronisation over whole streams in
prose; c04_roundtrip.py composes encoder and receiver for clean frames.  Here the receivers are interpreted on whole streams:
garbage, then frames; frames with a fault (truncated, one byte replaced, longer than the buffer), then good frames.

Technique (static only; the machinery of c04_roundtrip.py is reused: RtInterp = abstract interpreter with concrete control and
symbolic bytes, byte classes, the CRC-8 step as an uninterpreted function f with the single axiom f(x, x) == 0 that C17 decides,
witness units):

* a stream byte is a marker / escape code of the alphabet in use or its own symbol with the facts of its class (differs from
  the markers, resp. from markers and codes); a well-formed frame is written down from the alphabet (START, escaped payload,
  escaped CRC term, STOP) for every combination of payload byte classes and every class of the CRC byte;
* newchar is interpreted byte by byte.  After every byte the receiver is reduced to its CONFIGURATION: the receiver object, the
  live part line.buf[0 .. line.len) of the buffer and the facts of the path condition that share symbols with them.  The step
  (configuration, byte) -> {(status, configuration', facts added by the branch conditions)} is memoised, so the interpreter
  builds the reachable part of the symbolic transition system of the receiver once and every stream is a walk through it;
* the streams of a scenario family are a DAG (shared prefixes, shared continuations); a (configuration, reference state,
  DAG node) that was reached before is not walked again;
* a REFERENCE READER that knows only the alphabet, the capacity and the property (idle / in frame / after escape; the unescaped
  bytes since the last start marker; CRC residue by the same uninterpreted f) runs in lockstep and names, for every byte, the
  status the property asks for and - at a stop marker - whether the bytes since the last start marker have a matching CRC on
  this path (a branch of the receiver on `crc != 0` over a symbolic residue splits the path; on the zero side the prefix byte
  acts as the matching CRC - this is how 'a prefix that happens to be a complete frame' is represented: as a path assumption
  residue == 0, never excluded);
* where the reader needs a comparison that the facts of a byte leave open (a payload byte right after a STUB that a corruption
  put in front of it) the case split is completed there and each case is fed to the receiver with the added fact.

Rules (identity (rule, function, key); key = <alphabet>:<clause>; every instance aggregates all streams of its family):
  R-STREAM:prefix      garbage prefix of 0..3 (thorough ..4) bytes, each byte in every class (START, STOP, STUB, each escape
                       code, other), then one well-formed frame of payload length 0..2 (..3), for START == STOP and the legacy
                       receiver two frames; capacities: exact fit of the good frames (2, 3, 4 (5)) and 8
  R-STREAM:truncated   a well-formed frame cut after every byte but the last, then good frame(s); capacities 2, 3, 8
  R-STREAM:corrupted   one byte of a well-formed frame replaced by a byte of every class, then good frame(s); capacities 2, 3, 8
  R-STREAM:overlong    capacities 2..5, a well-formed frame whose content is 1..3 bytes longer than capacity-1, then good
                       frame(s) that fit
                       (the three fault families both on a receiver fresh from init and behind one delivered good frame)
  clauses: the (first, resp. at the latest the second) good frame returns NEWPACKAGE exactly on its last byte with size() and
  content equal to the payload symbol by symbol; a NEWPACKAGE anywhere else is allowed only where the bytes since the last start
  marker carry a matching CRC on that path, and then delivers exactly those bytes; every status is the one the property names;
  no access outside the receive buffer, never more than capacity-1 bytes stored; the byte that does not fit returns OVERFLOW.
  R-STREAM:analysed    one instance per receiver/alphabet when every scenario was analysed exactly (carries the floor)
The legacy receiver's known behaviour (state 0 after OVERFLOW / DATA_ERROR takes the next byte as the start of a frame) fails
exactly one instance per family - '...:nothing-delivered-before-the-frame-...' resp. '...:faulty-frame-not-delivered-...' of the
alphabet 'legacy' - and nothing else (known_findings.json).  A stream that cannot be followed exactly is never a verdict: the
':analysed' instance of its alphabet disappears and the family is listed as analysis-broken.
"""
import itertools
import multiprocessing
import os
import time

from common import *
from absval import IntVal, PtrVal, State
from lin import Lin, Cons
import c04_roundtrip as rt
from c04_roundtrip import (RtInterp, Alphabet, symbolic_alphabets, read_ctx, Unresolved, val8, s8, show, in_vocabulary,
                           byte_cell, Book, AXIOM)

RULE = 'R-STREAM'
NAMES = ['CONTINUE', 'NEWPACKAGE', 'FORCE_RESTART', 'GARBAGE', 'CRC_ERROR', 'OVERFLOW', 'STUFFING_ERROR']
FAMILIES = ['prefix', 'truncated', 'corrupted', 'overlong']
ROOMY = 8          # a capacity that no scenario exhausts
MAX_STEPS = 40000

C_D0 = 'a-good-frame-before-the-fault-is-delivered-intact-exactly-on-its-last-byte'
C_D1 = 'first-good-frame-delivered-intact-exactly-on-its-last-byte'
C_D1MAY = 'first-good-frame-delivered-intact-or-not-at-all'
C_D2 = 'second-good-frame-delivered-intact-exactly-on-its-last-byte'
C_N = 'nothing-delivered-before-the-frame-unless-the-prefix-holds-a-complete-frame'
C_F = 'faulty-frame-not-delivered-unless-bytes-since-the-last-start-marker-have-a-matching-crc'
C_T = 'every-status-is-the-one-the-property-names'
C_B = 'no-access-outside-the-receive-buffer-and-at-most-capacity-1-bytes-stored'
C_O = 'the-byte-that-does-not-fit-returns-OVERFLOW'


# ----------------------------------------------------------------------------------------------------------------------
# facts: what a stream byte brings along, and what a branch of the receiver adds to the path condition
# ----------------------------------------------------------------------------------------------------------------------
def apply_facts(st, facts):
    for f in facts:
        k = f[0]
        if k == 'rng':
            st.cons.add_le(-128, f[1])
            st.cons.add_le(f[1], 127)
        elif k == 'ne':
            st.add_diseq(f[1], f[2])
        elif k == 'eq':
            st.cons.add_eq(f[1], f[2])
        elif k == 'le':
            st.cons.add(f[1])
        elif k == 'dq':
            st.diseq[f[1].key()] = f[1]
    if facts:
        st.conv.pop('rt-eq', None)


def fact_key(f):
    return (f[0],) + tuple(x.key() for x in f[1:])


def fact_syms(f):
    s = set()
    for x in f[1:]:
        s.update(x.t.keys())
    return s


def val_syms(v):
    s = set()
    if isinstance(v, IntVal):
        for l in (v.s, v.u):
            if l is not None:
                s.update(l.t.keys())
    elif isinstance(v, PtrVal) and not v.is_null:
        s.update(v.off.t.keys())
    return s


def stream_sym(s):
    """a symbol that belongs to the stream or to the CRC arithmetic (a byte symbol, a CRC term) - as opposed to the marker values
    of a symbolic alphabet, which every fact about a byte mentions"""
    return not (isinstance(s, str) and s.startswith('M.'))


def slice_facts(items, diseq, seeds):
    """the facts a configuration keeps: every fact about the alphabet alone, and the facts that share stream symbols,
    transitively, with `seeds`"""
    syms = set(s for s in seeds if stream_sym(s))
    pi, pd = [], {}
    ri, rd = [], []
    for l in items:
        ss = [s for s in l.t if stream_sym(s)]
        if ss:
            ri.append((l, ss))
        else:
            pi.append(l)
    for (k, d) in diseq.items():
        ss = [s for s in d.t if stream_sym(s)]
        if ss:
            rd.append((k, d, ss))
        else:
            pd[k] = d
    changed = True
    while changed:
        changed = False
        ni = []
        for (l, ss) in ri:
            if any(s in syms for s in ss):
                pi.append(l)
                for s in ss:
                    if s not in syms:
                        syms.add(s)
                        changed = True
            else:
                ni.append((l, ss))
        ri = ni
        nd = []
        for (k, d, ss) in rd:
            if any(s in syms for s in ss):
                pd[k] = d
                for s in ss:
                    if s not in syms:
                        syms.add(s)
                        changed = True
            else:
                nd.append((k, d, ss))
        rd = nd
    return pi, pd


# ----------------------------------------------------------------------------------------------------------------------
# interpreter: RtInterp that remembers how every CRC term was built (for concrete witnesses only)
# ----------------------------------------------------------------------------------------------------------------------
TERMS = {}


class SInterp(RtInterp):
    def crc_apply(self, st, a, b):
        r = RtInterp.crc_apply(self, st, a, b)
        if r.s is not None and not r.s.is_const():
            (nm, _), = r.s.t.items()
            if nm not in TERMS:
                TERMS[nm] = (self.canon(st, a), self.canon(st, b))
        return r


def consistent(it, J, facts, known=None):
    """False when the facts just added to J contradict what J knew about their symbols (decided on the constraints that share
    symbols with them); known: only facts that mention one of these symbols are looked at"""
    for f in facts:
        if f[0] == 'rng':
            continue
        syms = fact_syms(f)
        if not syms or (known is not None and not (syms & known)):
            continue
        ls = [Lin.sym(s) for s in syms]
        if it.infeasible(J, ls[0], ls[1] if len(ls) > 1 else Lin(0)):
            return False
    return True


def rel3(it, J, a, b):
    """True: equal on this path; False: different; None: the facts leave it open"""
    if a == b:
        return True
    ca, cb = it.canon(J, a), it.canon(J, b)
    if ca == cb:
        return True
    if ca.is_const() and cb.is_const():
        return False
    if J.known_diseq(ca, cb) or J.known_diseq(a, b):
        return False
    if it.eqmap(J)['?']:
        if J.cons.entails_eq(ca, cb):
            return True
        if J.cons.entails_lt(ca, cb) or J.cons.entails_lt(cb, ca):
            return False
    return None


# ----------------------------------------------------------------------------------------------------------------------
# the two receivers
# ----------------------------------------------------------------------------------------------------------------------
def status_table(mod, gname, names):
    g = mod.globals.get(gname)
    init = g.get('init') if g else None
    if not (isinstance(init, list) and len(init) == len(names) and all(isinstance(x, int) for x in init)):
        raise AnalysisBroken('witness: status table %s not found' % gname)
    vals = [x - (1 << 32) if x >= (1 << 31) else x for x in init]
    if len(set(vals)) != len(vals):
        raise AnalysisBroken('status codes %s are not pairwise different: %s' % (names, vals))
    return dict(zip(names, vals))


class SCodec(rt.Codec):
    """the configurable C++ receiver (witness/w_c05_streams.cpp)"""
    legacy = False
    name = 'gstuff'

    def __init__(self, repo):
        self.mod = mod = witness('w_c05_streams.cpp', repo)
        R = 'gstuff_autorecv'
        self.init = mod.fn(cxx(mod, R, 'init'))
        self.newchar = mod.fn(cxx(mod, R, 'newchar'))
        self.make = mod.fn(fn_named(mod, 'igris_verif_c05s_recv'))
        self.size = mod.fn(fn_named(mod, 'igris_verif_c05s_size'))
        self.cstr = mod.fn(fn_named(mod, 'igris_verif_c05s_cstr'))
        if len(self.newchar.params) != 2 or len(self.init.params) != 3:
            raise AnalysisBroken('gstuff_autorecv::newchar / init changed their parameter lists')
        st = mod.structs.get('class.gstuff_autorecv')
        if st is None:
            raise AnalysisBroken('class gstuff_autorecv not found (anchor vanished)')
        self.recv_size = st['size']
        self.fields = {m['name']: m for m in mod.flat_fields('class.gstuff_autorecv')}
        for k in ('line.buf', 'line.len', 'line.cap'):
            if k not in self.fields:
                raise AnalysisBroken('class gstuff_autorecv has no field %s (anchor vanished)' % k)
        self.recv_name = self.newchar.qualname
        self.code = status_table(mod, 'igris_verif_c05s_status', NAMES)
        self.alphabets = []
        offs = None
        ex = {}
        for fname, label in (('igris_verif_c05s_ctx_default', 'v1'), ('igris_verif_c05s_ctx_v0', 'v0')):
            vals, offs, src = read_ctx(mod, fname)
            A = Alphabet(label, vals, source=src)
            self.alphabets.append(A)
            if A.consistent():
                ex.setdefault(A.S != A.P, A)
        self.alphabets += symbolic_alphabets(ex)
        self.ctx_offs = offs

    def interp(self, A):
        return SInterp(self.mod, A.markers())


class SLegacy(rt.LegacyCodec):
    """the legacy C receiver (witness/w_c05_streams_v1.c)"""
    legacy = True
    name = 'gstuff_v1'

    def __init__(self, repo):
        self.mod = mod = witness('w_c05_streams_v1.c', repo)
        self.setbuf = mod.fn(fn_named(mod, 'gstuff_autorecv_setbuf_v1'))
        self.newchar = mod.fn(fn_named(mod, 'gstuff_autorecv_newchar_v1'))
        if len(self.newchar.params) != 2 or len(self.setbuf.params) != 3:
            raise AnalysisBroken('legacy gstuff receiver API changed its parameter lists')
        st = mod.structs.get('struct.gstuff_autorecv_v1')
        if st is None:
            raise AnalysisBroken('struct gstuff_autorecv_v1 not found (anchor vanished)')
        self.recv_size = st['size']
        self.fields = {m['name']: m for m in mod.flat_fields('struct.gstuff_autorecv_v1')}
        for k in ('line.buf', 'line.len', 'line.cap', 'state', 'crc'):
            if k not in self.fields:
                raise AnalysisBroken('struct gstuff_autorecv_v1 has no field %s (anchor vanished)' % k)
        self.recv_name = 'gstuff_autorecv_newchar_v1'
        t = status_table(mod, 'igris_verif_c05s_v1_status', ['CONTINUE', 'NEWPACKAGE', 'CRC_ERROR', 'OVERFLOW', 'STUFFING_ERROR'])
        self.code = t
        g = mod.globals.get('igris_verif_c05s_v1_alphabet')
        init = g.get('init') if g else None
        if not (isinstance(init, list) and len(init) == 4 and all(isinstance(x, int) for x in init)):
            raise AnalysisBroken('witness w_c05_streams_v1.c: alphabet table not found')
        S, B, cS, cB = init
        self.alphabets = [Alphabet('legacy', dict(GSTUFF_START=S, GSTUFF_STOP=S, GSTUFF_STUB=B, GSTUFF_STUB_START=cS,
                                                  GSTUFF_STUB_STOP=cS, GSTUFF_STUB_STUB=cB),
                                   source='macros of igris/protocols/gstuff_v1/gstuff.h')]

    def interp(self, A):
        return SInterp(self.mod, A.markers())


def status_name(codec, code):
    for k, v in codec.code.items():
        if v == code:
            return 'DATA_ERROR' if (codec.legacy and k == 'STUFFING_ERROR') else k
    return {-4: 'ALGORITHM_ERROR'}.get(code, str(code))


def six(A):
    out = []
    for x in (A.S, A.P, A.B, A.cS, A.cP, A.cB):
        if x not in out:
            out.append(x)
    return out


def kind_of(codec, A):
    return 'legacy' if codec.legacy else ('differ' if A.S != A.P else 'same')


# ----------------------------------------------------------------------------------------------------------------------
# the receiver as a transition system over configurations
# ----------------------------------------------------------------------------------------------------------------------
class Cfg:
    __slots__ = ('id', 'state', 'len', 'problem')


class Res:
    __slots__ = ('kind', 'code', 'cfg', 'added', 'obs', 'funcs', 'what', 'where')


class Machine:
    def __init__(self, codec, A, cap):
        self.codec, self.A, self.cap = codec, A, cap
        self.it = codec.interp(A)
        base = State()
        A.assume(base)
        if A.symbolic:
            # the CRC seed 0xFF is the one constant a stream byte can be: alphabets in which a marker or a code IS 0xFF are left out
            # (listed as an assumption)
            for m in six(A):
                base.add_diseq(m, Lin(-1))
        self.base_facts = base.fork()
        states, r, b = codec.recv_start(self.it, base, A, cap)
        if len(states) != 1 or self.it.events:
            raise Unresolved('%d states after the set-up of the receiver (buffer of %d bytes)' % (len(states), cap))
        self.r, self.b = r, b
        self.init_funcs = set(self.it.path_functions())
        f = codec.fields
        self.f_len = (f['line.len']['off'], f['line.len']['size'])
        self.f_buf = (f['line.buf']['off'], f['line.buf']['size'])
        self.f_cap = (f['line.cap']['off'], f['line.cap']['size'])
        self.msyms = set()
        for m in six(A):
            self.msyms.update(m.t.keys())
        self.ids = {}
        self.memo = {}
        self.obs = {}
        self.steps = 0
        self.start = self.normalize(states[0])

    # ---- configuration of the receiver after a call --------------------------------------------------------------------
    def normalize(self, T):
        r, b = self.r.id, self.b.id
        lv = T.mem.get((r,) + self.f_len)
        n = lv.const() if isinstance(lv, IntVal) else None
        if n is None:
            raise Unresolved('line.len is not a constant after a call on a concrete stream')
        problem = None
        cv = T.mem.get((r,) + self.f_cap)
        c = cv.const() if isinstance(cv, IntVal) else None
        pv = T.mem.get((r,) + self.f_buf)
        if not (isinstance(pv, PtrVal) and pv.obj == b and pv.off.is_const() and pv.off.c == 0):
            problem = 'line.buf no longer points to the start of the receive buffer handed to the receiver'
        elif c != self.cap:
            problem = 'line.cap is %s, the buffer handed to the receiver has %d bytes' % (c, self.cap)
        elif n > self.cap - 1:
            problem = 'line.len is %d with a buffer of %d bytes (at most capacity-1 = %d bytes may be stored)' % (n, self.cap, self.cap - 1)
        mem = {}
        seeds = set(self.msyms)
        for (o, off, sz), v in T.mem.items():
            if o == r or (o == b and off + sz <= n):
                mem[(o, off, sz)] = v
                seeds |= val_syms(v)
            elif o == b and off < n:
                raise Unresolved('a store wider than one byte straddles the end of the line')
        for k, v in T.conv.items():
            if isinstance(k, tuple) and k and k[0] == 'parts':
                for x in v:
                    seeds |= val_syms(x)
        items, dq = slice_facts(T.cons.items, T.diseq, seeds)
        key = (tuple(sorted(((o == b, off, sz, repr(v)) for (o, off, sz), v in mem.items()))),
               frozenset(l.key() for l in items), frozenset(dq.keys()), problem)
        i = self.ids.get(key)
        if i is not None:
            return i
        S = State()
        S.cons = Cons(items)
        S.mem = mem
        S.objs = T.objs
        S.diseq = dq
        S.conv = {k: v for k, v in T.conv.items() if isinstance(k, tuple) and k and k[0] == 'parts'}
        cfg = Cfg()
        cfg.id, cfg.state, cfg.len, cfg.problem = len(self.ids), S, n, problem
        self.ids[key] = cfg
        return cfg

    # ---- one byte --------------------------------------------------------------------------------------------------
    def step(self, cfg, v, facts, fkey):
        k = (cfg.id, v.key(), fkey)
        out = self.memo.get(k)
        if out is not None:
            return out
        self.steps += 1
        if self.steps > MAX_STEPS:
            raise Unresolved('more than %d different (configuration, byte) steps of the receiver in one scenario family' % MAX_STEPS)
        it = self.it
        st = cfg.state.fork()
        apply_facts(st, facts)
        bc, bd = frozenset(st.cons.keys), frozenset(st.diseq.keys())
        it.events = []
        it.functions_seen = set()
        rets = self.codec.recv_char(it, st, self.r, val8(v))
        funcs = frozenset(it.path_functions())
        out = []
        for e in it.events:
            r = Res()
            r.kind, r.code, r.cfg, r.obs, r.funcs = 'event', None, None, None, funcs
            r.what = '%s in %s' % (e['what'], e['fn'])
            r.where = e['where']
            T = e['st']
            r.added = [('le', l) for l in T.cons.items if l.key() not in bc] + [('dq', d) for kk, d in T.diseq.items() if kk not in bd]
            out.append(r)
        it.events = []
        if not rets and not out:
            raise Unresolved('%s: no return reached' % self.codec.recv_name)
        for (T, rv) in rets:
            code = rv.sconst() if isinstance(rv, IntVal) else None
            if code is None:
                raise Unresolved('%s returns a value that is not a constant on a concrete stream' % self.codec.recv_name)
            r = Res()
            r.kind, r.code, r.funcs, r.what, r.where = 'ret', code, funcs, None, None
            r.added = [('le', l) for l in T.cons.items if l.key() not in bc] + [('dq', d) for kk, d in T.diseq.items() if kk not in bd]
            r.cfg = self.normalize(T)
            r.obs = self.observe(r.cfg) if code == self.codec.code['NEWPACKAGE'] else None
            out.append(r)
        self.memo[k] = out
        return out

    # ---- what a caller sees after NEWPACKAGE -------------------------------------------------------------------------
    def observe(self, cfg):
        o = self.obs.get(cfg.id)
        if o is not None:
            return o
        c, it = self.codec, self.it
        st = cfg.state.fork()
        o = dict(size=None, cells=[], term=None, problem=None)

        def lin(T, v, what):
            if v is None:
                return None
            if not isinstance(v, IntVal) or v.w != 8:
                raise Unresolved('%s is not an 8-bit integer value (%r)' % (what, v))
            l = T.force_s(v)
            if not in_vocabulary(l):
                raise Unresolved('%s has the value %r, which is neither a constant, a stream byte, a marker nor a CRC term' % (what, l))
            return l
        if c.legacy:
            # no accessor in the legacy API: the caller reads the line; the CRC byte stays in it, the packet is line[0 .. len-1)
            o['size'] = cfg.len - 1
            o['cells'] = [lin(st, byte_cell(st, self.b.id, i, 'line.buf[%d]' % i), 'line.buf[%d]' % i) for i in range(max(cfg.len - 1, 0))]
        else:
            it.events = []
            r1 = it.call(c.size, st, [PtrVal(self.r.id)])
            if len(r1) != 1 or it.events:
                raise Unresolved('size(): %d return states' % len(r1))
            s1, rv = r1[0]
            sz = rv.const() if isinstance(rv, IntVal) else None
            if sz is None or sz > self.cap:
                raise Unresolved('size() is not a small constant after NEWPACKAGE (%r)' % rv)
            r2 = it.call(c.cstr, s1, [PtrVal(self.r.id)])
            if it.events:
                o['problem'] = '; '.join('%s in %s' % (e['what'], e['fn']) for e in it.events)
                it.events = []
            elif len(r2) != 1:
                raise Unresolved('cstr(): %d return states' % len(r2))
            else:
                s2, pv = r2[0]
                if not isinstance(pv, PtrVal) or pv.is_null or not pv.off.is_const():
                    raise Unresolved('cstr() does not return a pointer to a known position')
                if not (pv.obj == self.b.id and pv.off.c == 0):
                    o['problem'] = 'cstr() does not return the receive buffer handed to the receiver'
                else:
                    o['size'] = sz
                    o['cells'] = [lin(s2, byte_cell(s2, pv.obj, i, 'cstr()[%d]' % i), 'cstr()[%d]' % i) for i in range(sz)]
                    o['term'] = lin(s2, byte_cell(s2, pv.obj, sz, 'cstr()[%d]' % sz), 'cstr()[%d]' % sz) if sz < self.cap else None
        self.obs[cfg.id] = o
        return o


# ----------------------------------------------------------------------------------------------------------------------
# reference reader: what the property says about a stream, from the alphabet and the capacity alone
# ----------------------------------------------------------------------------------------------------------------------
class Spec:
    """mode: idle (outside a frame), frame (after a start marker), esc (after STUB inside a frame), skip (legacy reading only:
    after OVERFLOW / DATA_ERROR up to the next marker).  content: the unescaped bytes since the last start marker; reg: their CRC
    residue f(...f(f(0xFF, c0), c1)...)."""
    __slots__ = ('kind', 'mode', 'content', 'reg', 'cap')

    def __init__(self, kind, mode, content, reg, cap):
        self.kind, self.mode, self.content, self.reg, self.cap = kind, mode, content, reg, cap

    @staticmethod
    def initial(kind, cap):
        # the legacy receiver has no idle state: power-on counts as a frame boundary, as a marker does
        return Spec(kind, 'frame' if kind == 'legacy' else 'idle', (), Lin(-1), cap)

    def fresh(self):
        return Spec(self.kind, 'frame', (), Lin(-1), self.cap)

    def out(self):
        return Spec(self.kind, 'idle', (), Lin(-1), self.cap) if self.kind != 'legacy' else self.fresh()

    def skip(self):
        return Spec(self.kind, 'skip' if self.kind == 'legacy' else 'idle', (), Lin(-1), self.cap)

    def key(self, it, J):
        return (self.mode, tuple(it.canon(J, l).key() for l in self.content), it.canon(J, self.reg).key())

    def relevant(self, A):
        """the values the reader compares the next byte with"""
        d = self.kind == 'differ'
        if self.mode in ('idle', 'skip'):
            return [('START', A.S)]
        if self.mode == 'frame':
            return [('START', A.S)] + ([('STOP', A.P)] if d else []) + [('STUB', A.B)]
        return [('cS', A.cS)] + ([('cP', A.cP)] if d else []) + [('cB', A.cB), ('START', A.S)]

    def push(self, it, J, v):
        if len(self.content) >= self.cap - 1:
            return 'OVERFLOW', self.skip(), None
        reg = it.crc_apply(J, self.reg, v).s
        return 'CONTINUE', Spec(self.kind, 'frame', self.content + (v,), reg, self.cap), None

    def stop(self, it, J):
        zero = rel3(it, J, self.reg, Lin(0))
        if zero is None and not self.reg.is_const():
            zero = J.cons.entails_eq(self.reg, Lin(0))      # e.g. residue == STUB and STUB == 0x00 in a symbolic alphabet
        if zero and self.content:
            return 'NEWPACKAGE', self.out(), self.content[:-1]
        return 'CRC_ERROR', self.out(), None

    def step(self, it, J, A, tag, v):
        """-> (status the property names or None when it names none, reader after the byte, bytes delivered or None)"""
        k, m = self.kind, self.mode
        if m == 'idle':
            return ('CONTINUE', self.fresh(), None) if tag == 'START' else ('GARBAGE', self, None)
        if m == 'skip':
            return (None, self.fresh(), None) if tag == 'START' else (None, self, None)
        if m == 'frame':
            if tag == 'START':
                if k == 'differ':
                    return 'FORCE_RESTART', self.fresh(), None
                if not self.content:
                    return 'CONTINUE', self, None
                return self.stop(it, J)
            if tag == 'STOP':
                return self.stop(it, J)
            if tag == 'STUB':
                return 'CONTINUE', Spec(k, 'esc', self.content, self.reg, self.cap), None
            return self.push(it, J, v)
        # after STUB
        back = Spec(k, 'frame', self.content, self.reg, self.cap)
        if tag == 'cS':
            return back.push(it, J, A.S)
        if tag == 'cP':
            return back.push(it, J, A.P)
        if tag == 'cB':
            return back.push(it, J, A.B)
        if tag == 'START':
            if k == 'legacy':
                return 'STUFFING_ERROR', self.fresh(), None       # the marker that is no escape code ends the frame and opens the next
            return 'FORCE_RESTART', self.fresh(), None
        return 'STUFFING_ERROR', self.skip(), None


# ----------------------------------------------------------------------------------------------------------------------
# streams: bytes, frames, DAGs of streams
# ----------------------------------------------------------------------------------------------------------------------
class Byte:
    __slots__ = ('v', 'facts', 'fkey', 'role', 'region', 'expect', 'kid')


class Node:
    __slots__ = ('id', 'edges')
    count = [0]

    def __init__(self):
        Node.count[0] += 1
        self.id = Node.count[0]
        self.edges = []


def limits(tier, A):
    """(longest garbage prefix, longest payload of a good frame, longest payload of a truncated frame, of a frame with a replaced byte);
    the symbolic alphabets get the shorter damaged frames, as in c04_roundtrip"""
    if tier == 'thorough':
        return (4, 3, 3, 3) if not A.symbolic else (4, 2, 3, 2)
    return (3, 2, 2, 2) if not A.symbolic else (3, 2, 2, 1)


class Gen:
    """stream generator of one (alphabet, capacity)"""

    def __init__(self, codec, A, cap, tier, it, J0):
        self.codec, self.A, self.cap, self.tier, self.it, self.J0 = codec, A, cap, tier, it, J0
        self.kind = kind_of(codec, A)
        self.bytes = {}
        self.six = six(A)
        d = self.kind == 'differ'
        self.every = [('START', A.S)] + ([('STOP', A.P)] if d else []) + [('STUB', A.B), ('code(START)', A.cS)] + \
                     ([('code(STOP)', A.cP)] if d else []) + [('code(STUB)', A.cB), ('other', None)]
        self.frames_seen = 0

    def byte(self, v, facts, role, region, expect=None):
        fkey = tuple(fact_key(f) for f in facts)
        ek = None if expect is None else (expect[0],) + tuple(x.key() for x in expect[1])
        k = (v.key(), fkey, role, region, ek)
        b = self.bytes.get(k)
        if b is None:
            b = Byte()
            b.v, b.facts, b.fkey, b.role, b.region, b.expect, b.kid = v, tuple(facts), fkey, role, region, expect, len(self.bytes)
            self.bytes[k] = b
        return b

    def other(self, name, role, region):
        x = Lin.sym('P.' + name)
        return self.byte(x, [('rng', x)] + [('ne', x, m) for m in self.six], role, region)

    def of_class(self, cls, val, name, role, region):
        return self.other(name, role, region) if val is None else self.byte(val, [], '%s=%s' % (role, cls), region)

    # ---- a well-formed frame ----------------------------------------------------------------------------------------
    def frame(self, name, classes, crc_cls, region, lead=None, expect=None):
        """the well-formed frame of a payload with the given byte classes whose CRC byte has the class crc_cls, written down from
        the alphabet -> (bytes, payload values, index of the byte that completes each content byte) or None when no payload
        of that shape exists"""
        A, it = self.A, self.it
        if not A.symbolic and rt.concretise(A, classes, crc_cls) is None:
            return None
        J = self.J0.fork()
        pv, pf = [], []
        for i, c in enumerate(classes):
            if c == 'other':
                x = Lin.sym('P.%s%d' % (name, i))
                f = [('rng', x)] + [('ne', x, m) for m in A.markers()]
                apply_facts(J, f)
                pv.append(x)
                pf.append(f)
            else:
                pv.append(A.marker(c))
                pf.append([])
        t = Lin(-1)
        for v in pv:
            t = it.crc_apply(J, t, v).s
        if t.is_const():
            real = 'other'
            for k in A.classes[:-1]:
                r = rel3(it, J, t, A.marker(k))
                if r:
                    real = k
                elif r is None:
                    raise Unresolved('the class of the constant CRC byte %s is open in the %s alphabet' % (show(t), A.label))
            if real != crc_cls:
                return None
            cf = []
        elif crc_cls == 'other':
            cf = [('rng', t)] + [('ne', t, m) for m in A.markers()]
        else:
            cf = [('eq', t, A.marker(crc_cls))]
        out, done = [], []
        out.append(self.byte(A.S, [], name + '.START', lead or region))
        for i, c in enumerate(classes):
            if c == 'other':
                out.append(self.byte(pv[i], pf[i], '%s.p%d' % (name, i), region))
            else:
                out.append(self.byte(A.B, [], '%s.p%d:STUB' % (name, i), region))
                out.append(self.byte(A.code(c), [], '%s.p%d:code(%s)' % (name, i, c), region))
            done.append(len(out) - 1)
        if crc_cls == 'other':
            out.append(self.byte(t, cf, name + '.crc', region))
        else:
            out.append(self.byte(A.B, cf, name + '.crc:STUB', region))
            out.append(self.byte(A.code(crc_cls), cf, name + '.crc:code(%s)' % crc_cls, region))
        done.append(len(out) - 1)
        out.append(self.byte(A.P, [], name + '.STOP', region, None if expect is None else (expect, tuple(pv))))
        self.frames_seen += 1
        return out, pv, done

    def shapes(self, n, vary=None):
        """(payload classes, CRC class) combinations of payload length n; vary: positions whose class varies (others: 'other')"""
        A = self.A
        pos = range(n) if vary is None else [i for i in vary if 0 <= i < n]
        for combo in itertools.product(A.classes, repeat=len(pos)):
            cl = ['other'] * n
            for i, c in zip(pos, combo):
                cl[i] = c
            for cc in A.classes:
                yield tuple(cl), cc

    def frames(self, name, ns, region, lead=None, expect=None, vary=None):
        out = []
        for n in ns:
            for classes, cc in self.shapes(n, vary(n) if vary else None):
                f = self.frame(name, classes, cc, region, lead, expect)
                if f is not None:
                    out.append(f)
        return out

    # ---- DAGs --------------------------------------------------------------------------------------------------------
    @staticmethod
    def trie(seqs, after):
        """DAG of the given byte sequences, each continued by the streams of `after` (a Node or None)"""
        root = Node()
        index = {(): root}
        ends = []
        for seq in seqs:
            node, key = root, ()
            for b in seq:
                key += (b.kid,)
                nxt = index.get(key)
                if nxt is None:
                    nxt = index[key] = Node()
                    node.edges.append((b, nxt))
                node = nxt
            ends.append(node)
        if after is not None:
            done = set()
            for node in ends:
                if node.id not in done:
                    done.add(node.id)
                    node.edges.extend(after.edges)
        return root

    def good(self, lead, ns):
        """the good frame(s) that follow the garbage / the fault: one when the markers differ, two when they coincide"""
        if self.kind == 'differ':
            return self.trie([f[0] for f in self.frames('a', ns, 'good1', lead, 'must')], None)
        g2 = self.trie([f[0] for f in self.frames('b', ns, 'good2', 'good1', 'must')], None)
        return self.trie([f[0] for f in self.frames('a', ns, 'good1', lead, 'may')], g2)

    def with_lead(self, faulty):
        """the faulty streams as they are (receiver fresh from init) and behind one good frame (receiver idle after a delivery, the
        delivered packet still in the line)"""
        n = min(1, self.cap - 2)
        z = self.frame('z', ('other',) * n, 'other', 'good0', None, 'must')
        if z is None:
            raise Unresolved('no leading frame of payload length %d in the %s alphabet' % (n, self.A.label))
        root = Node()
        root.edges = list(faulty.edges) + self.trie([z[0]], faulty).edges
        return root

    def lengths(self, nmax):
        """payload lengths of the good frames: every length that fits the buffer (a tight buffer: exactly the one that fills it)"""
        if self.cap >= ROOMY:
            return list(range(nmax + 1))
        return [min(self.cap - 2, nmax)]

    def limits(self):
        """(longest garbage prefix, longest payload of a good frame, longest payload of a truncated frame, of a frame with a replaced
        byte)"""
        return limits(self.tier, self.A)

    def family_prefix(self):
        K, N = self.limits()[:2]
        g = self.good('prefix', self.lengths(N))
        nodes = [Node() for _ in range(K + 1)]
        for d in range(K + 1):
            if d < K:
                for (cls, val) in self.every:
                    nodes[d].edges.append((self.of_class(cls, val, 'g%d' % d, 'prefix[%d]' % d, 'prefix'), nodes[d + 1]))
            nodes[d].edges.extend(g.edges)
        return nodes[0]

    def family_truncated(self):
        _, N, NQ, _ = self.limits()
        g = self.good('faulty', self.lengths(N))
        seqs = []
        for (bs, pv, done) in self.frames('q', range(NQ + 1), 'faulty'):
            for k in range(1, len(bs)):
                seqs.append(bs[:k])
        return self.with_lead(self.trie(seqs, g))

    def family_corrupted(self):
        _, N, _, NQ = self.limits()
        g = self.good('faulty', self.lengths(N))
        seqs = []
        for (bs, pv, done) in self.frames('q', range(NQ + 1), 'faulty'):
            for j in range(len(bs)):
                for (cls, val) in self.every:
                    if val is not None and val == bs[j].v:
                        continue
                    rb = self.of_class(cls, val, 'x', 'q[%d] replaced' % j, 'faulty')
                    seqs.append(bs[:j] + [rb] + bs[j + 1:])
        return self.with_lead(self.trie(seqs, g))

    def family_overlong(self):
        cap = self.cap
        N = self.limits()[1]
        g = self.good('faulty', list(range(0, min(cap - 2, N) + 1)))
        seqs = []
        for over in (1, 2, 3):
            n = cap - 1 + over - 1                 # content = n + 1 bytes, capacity - 1 fit
            # classes vary around and behind the byte that does not fit
            vary = (lambda n_: range(max(0, cap - 2), min(n_, cap + 1))) if self.tier != 'thorough' else \
                   (lambda n_: range(max(0, cap - 3), n_))
            for (bs, pv, done) in self.frames('q', [n], 'faulty', vary=vary):
                i = done[cap - 1]                   # completes content byte number cap (the first that does not fit)
                b = bs[i]
                bs = list(bs)
                bs[i] = self.byte(b.v, list(b.facts), b.role, b.region, ('overflow', ()))
                seqs.append(bs)
        return self.with_lead(self.trie(seqs, g))


# ----------------------------------------------------------------------------------------------------------------------
# concrete witness of a path (texts only): values for the byte symbols such that every fact of the path holds with the real CRC-8
# ----------------------------------------------------------------------------------------------------------------------
def crc8_step(c, d):
    c = (c ^ d) & 0xff
    for _ in range(8):
        c = ((c << 1) ^ 0x31) & 0xff if c & 0x80 else (c << 1) & 0xff
    return c


_INV = {}


def crc8_inv(c, target):
    """the byte d with crc8_step(c, d) == target"""
    if not _INV:
        for x in range(256):
            _INV[crc8_step(0, x)] = x
    return c ^ _INV[target]


class Concrete:
    def __init__(self, A):
        self.E = A.example if A.symbolic else A
        self.env = {}
        if A.symbolic and self.E is not None:
            for k, x in A.v.items():
                for s in x.t:
                    self.env[s] = self.E.v[k].c

    def atom(self, s):
        """signed value of a symbol, None when it depends on an unassigned byte"""
        if s in self.env:
            return self.env[s]
        if isinstance(s, str) and s.startswith('crc8[') and s in TERMS:
            a, b = TERMS[s]
            va, vb = self.lin(a), self.lin(b)
            if va is None or vb is None:
                return None
            return s8(crc8_step(va & 0xff, vb & 0xff))
        return None

    def lin(self, l):
        r = l.c
        for s, k in l.t.items():
            v = self.atom(s)
            if v is None:
                return None
            r += k * v
        return r

    def holds(self, J):
        """False when a fact of J is violated, True otherwise (facts over unknown symbols are skipped)"""
        for l in J.cons.items:
            v = self.lin(l)
            if v is not None and v > 0:
                return False
        for d in J.diseq.values():
            v = self.lin(d)
            if v is not None and v == 0:
                return False
        return True

    def candidates(self, J, x):
        """values for the byte symbol x suggested by the equalities of J"""
        out = []
        keys = J.cons.keys
        for l in J.cons.items:
            if (-l).key() not in keys:
                continue
            # l == 0
            if x in l.t and abs(l.t[x]) == 1 and len(l.t) <= 2:
                rest = Lin(l.c, {s: k for s, k in l.t.items() if s != x})
                v = self.lin(rest)
                if v is not None:
                    out.append(s8(-v * l.t[x]))
            for s, k in l.t.items():
                if isinstance(s, str) and s.startswith('crc8[') and s in TERMS and abs(k) == 1:
                    a, b = TERMS[s]
                    if b == Lin.sym(x):
                        rest = Lin(l.c, {s2: k2 for s2, k2 in l.t.items() if s2 != s})
                        tv, va = self.lin(rest), self.lin(a)
                        if tv is not None and va is not None:
                            out.append(s8(crc8_inv(va & 0xff, (-tv * k) & 0xff)))
        return out

    def solve(self, J, syms, budget=4000):
        if self.E is None:
            return False
        order = list(syms)
        count = [0]
        pool = [s8(x) for x in (0x05, 0x11, 0x42, 0x7e, 0x00, 0xff, 0x30, 0x99, 0xe1, 0x5a, 0xc3, 0x0f)] + [s8(x) for x in range(256)]

        def rec(i):
            if count[0] > budget:
                return False
            if i == len(order):
                return self.holds(J)
            x = order[i]
            seen = set()
            cands = self.candidates(J, x)
            for v in cands + (pool[:12] if cands else pool):
                if v in seen:
                    continue
                seen.add(v)
                count[0] += 1
                self.env[x] = v
                if self.holds(J) and rec(i + 1):
                    return True
                if count[0] > budget:
                    break
            self.env.pop(x, None)
            return False
        return rec(0)


# ----------------------------------------------------------------------------------------------------------------------
# the walk
# ----------------------------------------------------------------------------------------------------------------------
class Path:
    __slots__ = ('cfg', 'J', 'spec', 'hist', 'funcs', 'touched')


class Walk:
    def __init__(self, codec, A, cap, family, bk, tier):
        self.codec, self.A, self.cap, self.family, self.bk, self.tier = codec, A, cap, family, bk, tier
        self.m = Machine(codec, A, cap)
        self.it = self.m.it
        self.kind = kind_of(codec, A)
        self.rule = '%s:%s' % (RULE, family)
        self.fn = codec.recv_name
        self.where = codec.where(codec.newchar)
        self.visited = set()
        self.oks = {}
        self.streams = 0
        self.pathsteps = 0
        self.deliveries_in_garbage = {}
        self.failures = 0

    # ---- book keeping -------------------------------------------------------------------------------------------------
    def ok(self, clause):
        self.oks[clause] = self.oks.get(clause, 0) + 1

    def failed(self, clause):
        r = self.bk.inst.get((self.rule, self.fn, '%s:%s' % (self.A.label, clause)))
        return r is not None and not r['ok']

    def fail(self, clause, P, byte, what, where=None):
        if clause not in (C_N, C_F):
            self.failures += 1      # (after an unsound delivery the walk goes on: the good frames behind it are still decided)
        if self.failed(clause):
            self.bk.inst[(self.rule, self.fn, '%s:%s' % (self.A.label, clause))]['n'] += 1
            return
        self.bk.note(self.rule, self.fn, '%s:%s' % (self.A.label, clause), False, where or self.where, self.text(P, byte, what))

    def flush(self):
        for clause, n in self.oks.items():
            key = (self.rule, self.fn, '%s:%s' % (self.A.label, clause))
            r = self.bk.inst.setdefault(key, dict(ok=True, detail=None, where=self.where, n=0))
            r['n'] += n

    def text(self, P, byte, what):
        c, A = self.codec, self.A
        hist = list(P.hist)
        bs = [h[0] for h in hist] + ([byte] if byte is not None and (not hist or hist[-1][0] is not byte) else [])
        parts, cur = [], None
        for b in bs:
            grp = b.role.split('.')[0].split('[')[0]
            if grp != cur and parts:
                parts.append('|')
            cur = grp
            parts.append(show(b.v))
        t = '%s; stream {%s} (%s), receive buffer of %d bytes; statuses %s' % (
            what, ' '.join(parts), ', '.join(b.role for b in bs), self.cap,
            ' '.join(status_name(c, h[1]) for h in hist) or '-')
        # the assumptions of this path about the CRC-8 (uninterpreted): which residues it takes to be zero / a marker
        eq = self.it.eqmap(P.J)
        ass = ['%s == %s' % (k.t and list(k.t)[0] or k, show(v)) for k, v in eq.items()
               if isinstance(k, Lin) and not k.is_const() and str(list(k.t)[0]).startswith('crc8[')]
        if ass:
            t += '; the path assumes ' + ', '.join(sorted(ass))
        cw = Concrete(A)
        syms = []
        for b in bs:
            for s in b.v.t:
                if isinstance(s, str) and s.startswith('P.') and s not in syms:
                    syms.append(s)
        # symbols inside CRC terms that are not stream bytes themselves (payload of a frame whose byte was replaced)
        extra = []
        for s in list(P.J.cons.syms()):
            if isinstance(s, str) and s.startswith('P.') and s not in syms and s not in extra:
                extra.append(s)
        if cw.solve(P.J, syms + sorted(extra)):
            conc = []
            for b in bs:
                v = cw.lin(b.v)
                conc.append('??' if v is None else '%02X' % (v & 0xff))
            t += '; e.g. %sbytes %s' % ('with the %s alphabet ' % cw.E.label if A.symbolic else '', ' '.join(conc))
        else:
            t += '; (no concrete stream found for this path within the search budget of the witness generator)'
        t += ' [receiver code on this path: %s]' % ', '.join(sorted(set(P.funcs) | self.m.init_funcs))
        return t

    # ---- classification of the next byte by the reader (completing the case split where the facts leave it open) --------
    def alternatives(self, P, byte):
        """-> list of (tag, facts to add, judge with the facts of the byte)"""
        it, A = self.it, self.A
        J = P.J.fork()
        facts = list(byte.facts)
        if byte.v.t and any(s in P.touched for s in byte.v.t):
            # the path has learnt something about this value before it arrives as a byte: the receiver is told
            items, dq = slice_facts(J.cons.items, J.diseq, set(byte.v.t.keys()))
            facts += [('le', l) for l in items] + [('dq', d) for d in dq.values()]
        for f in byte.facts:
            # a fact of the byte that contradicts what the path already assumes (the class of a CRC term that an earlier frame
            # of the same shape, or a branch of the receiver, has fixed differently): no stream of this shape on this path
            if f[0] in ('eq', 'ne') and rel3(it, J, f[1], f[2]) is (f[0] == 'ne'):
                return []
        apply_facts(J, byte.facts)
        if not consistent(it, J, [f for f in byte.facts if f[0] == 'eq'], P.touched):
            return []
        rel = P.spec.relevant(A)
        open_ = []
        for tag, m in rel:
            r = rel3(it, J, byte.v, m)
            if r:
                return [(tag, facts, J)]
            if r is None:
                open_.append((tag, m))
        if not open_:
            return [('none', facts, J)]
        out = []
        ne = []
        for tag, m in open_:
            J2 = J.fork()
            f2 = ne + [('eq', byte.v, m)]
            apply_facts(J2, f2)
            if not it.infeasible(J2, byte.v, m):
                out.append((tag, facts + f2, J2))
            ne = ne + [('ne', byte.v, m)]
        J2 = J.fork()
        apply_facts(J2, ne)
        out.append(('none', facts + ne, J2))
        return out

    # ---- clauses ------------------------------------------------------------------------------------------------------
    def content_problem(self, J, obs, want, what):
        """compare what the caller sees after NEWPACKAGE with the bytes `want`"""
        c = self.codec
        if obs['problem']:
            return obs['problem']
        n = len(want)
        if obs['size'] != n:
            return '%s is %s, %s has %d byte(s)' % ('line.len - 1' if c.legacy else 'size()', obs['size'], what, n)
        for i in range(n):
            v = obs['cells'][i]
            if v is None:
                return 'line[%d] was never written' % i
            if rel3(self.it, J, v, want[i]) is not True:
                return 'line[%d] is %s, it must be %s (byte %d of %s)' % (i, show(v), show(want[i]), i, what)
        if not c.legacy:
            v = obs['term']
            if v is None or not (v.is_const() and v.c == 0):
                return 'cstr()[%d] is %s, not the terminator' % (n, 'never written' if v is None else show(v))
        return None

    def judge(self, P, byte, tag, res, J):
        """evaluate the clauses for one byte on one path; returns the reader after the byte"""
        c, A, it = self.codec, self.A, self.it
        NP = c.code['NEWPACKAGE']
        want, spec2, deliver = P.spec.step(it, J, A, tag, byte.v)
        Q = Path()
        Q.cfg, Q.J, Q.spec, Q.hist, Q.funcs, Q.touched = res.cfg, J, spec2, P.hist + ((byte, res.code),), P.funcs | res.funcs, P.touched
        got = res.code
        # statuses
        if want is not None:
            if want not in c.code:
                raise Unresolved('the %s receiver has no status %s' % (c.name, want))
            if got == c.code[want]:
                self.ok(C_T)
            else:
                self.fail(C_T, Q, byte, 'byte %d (%s) returns %s, the property names %s (reader: %s, %d byte(s) since the last start marker)'
                          % (len(P.hist), byte.role, status_name(c, got), 'DATA_ERROR' if c.legacy and want == 'STUFFING_ERROR' else want,
                             {'idle': 'outside a frame', 'frame': 'inside a frame', 'esc': 'after STUB',
                              'skip': 'after a refused frame'}[P.spec.mode], len(P.spec.content)))
        elif got != NP:
            self.ok(C_T)
        # capacity
        if res.cfg.problem:
            self.fail(C_B, Q, byte, res.cfg.problem)
        else:
            self.ok(C_B)
        # deliveries
        ex = byte.expect
        if ex is not None and ex[0] in ('must', 'may'):
            clause = {('good0', 'must'): C_D0, ('good1', 'must'): C_D1, ('good1', 'may'): C_D1MAY, ('good2', 'must'): C_D2}[(byte.region, ex[0])]
            if got != NP:
                if ex[0] == 'must':
                    self.fail(clause, Q, byte, 'the closing byte of the good frame (%s) returns %s, not NEWPACKAGE' % (byte.role, status_name(c, got)))
                else:
                    self.ok(clause)
            else:
                bad = self.content_problem(J, res.obs, list(ex[1]), 'the payload')
                if bad:
                    self.fail(clause, Q, byte, 'NEWPACKAGE on the closing byte of the good frame, but %s' % bad)
                else:
                    self.ok(clause)
            return Q
        if ex is not None and ex[0] == 'overflow':
            if got == c.code['OVERFLOW']:
                self.ok(C_O)
            else:
                self.fail(C_O, Q, byte, 'byte %d (%s) completes content byte %d of a frame for a buffer of %d bytes (%d fit) and returns %s'
                          % (len(P.hist), byte.role, self.cap, self.cap, self.cap - 1, status_name(c, got)))
        clause = {'prefix': C_N, 'faulty': C_F, 'good0': C_D0, 'good1': C_D1 if self.kind == 'differ' else C_D1MAY, 'good2': C_D2}[byte.region]
        if got != NP:
            self.ok(clause)
            return Q
        if want == 'NEWPACKAGE':
            bad = self.content_problem(J, res.obs, list(deliver), 'the unescaped bytes since the last start marker minus the CRC')
            if bad:
                self.fail(clause, Q, byte, 'NEWPACKAGE at byte %d (%s), but %s' % (len(P.hist), byte.role, bad))
            else:
                self.ok(clause)
                if byte.region == 'prefix':
                    self.note_delivery(Q)
        else:
            self.fail(clause, Q, byte, 'NEWPACKAGE at byte %d (%s) although the bytes since the last start marker are no frame with a matching '
                      'CRC (reader: %s, %d unescaped byte(s) since the last start marker, residue %s)'
                      % (len(P.hist), byte.role, {'idle': 'outside a frame', 'frame': 'inside a frame', 'esc': 'after STUB',
                                                  'skip': 'behind the point where the frame was refused'}[P.spec.mode],
                         len(P.spec.content), show(it.canon(J, P.spec.reg))))
        return Q

    def note_delivery(self, Q):
        """a garbage prefix that holds a complete frame (delivered, and rightly so): remember its shape, with a concrete example where
        the alphabet is concrete (a shape that no bytes realise with the real CRC-8 is left out of the list)"""
        bs = [h[0] for h in Q.hist]
        pat = ' '.join((b.role.split('=')[-1] if '=' in b.role else ('START(of the frame)' if b.role.endswith('.START') else 'other'))
                       for b in bs)
        if pat in self.deliveries_in_garbage or len(self.deliveries_in_garbage) > 60:
            return
        ex = None
        if not self.A.symbolic:
            cw = Concrete(self.A)
            syms = [s for b in bs for s in b.v.t if isinstance(s, str) and s.startswith('P.')]
            if not cw.solve(Q.J, syms, budget=1500):
                return
            ex = ' '.join('%02X' % (cw.lin(b.v) & 0xff) for b in bs)
        self.deliveries_in_garbage[pat] = ex

    @staticmethod
    def syms_of(facts):
        s = set()
        for f in facts:
            if f[0] != 'rng':
                s |= fact_syms(f)
        return s

    # ---- the walk -----------------------------------------------------------------------------------------------------
    def run(self, root):
        P = Path()
        P.cfg, P.J, P.spec, P.hist, P.funcs, P.touched = self.m.start, self.m.base_facts.fork(), Spec.initial(self.kind, self.cap), (), frozenset(), frozenset()
        if self.m.start.problem:
            self.fail(C_B, P, None, self.m.start.problem)
        stack = [(root, P)]
        while stack:
            node, P = stack.pop()
            if not node.edges:
                self.streams += 1
                continue
            for (byte, child) in node.edges:
                for (tag, facts, J) in self.alternatives(P, byte):
                    fkey = tuple(fact_key(f) for f in facts) if len(facts) != len(byte.facts) else byte.fkey
                    results = self.m.step(P.cfg, byte.v, facts, fkey)
                    for res in results:
                        self.pathsteps += 1
                        J2 = J.fork() if len(results) > 1 else J
                        apply_facts(J2, res.added)
                        if res.added and not consistent(self.it, J2, res.added, P.touched | self.syms_of(facts)):
                            continue        # the receiver took a branch that the facts of this path (a superset of its own) exclude
                        if res.kind == 'event':
                            Q = Path()
                            Q.cfg, Q.J, Q.spec, Q.hist, Q.funcs, Q.touched = None, J2, P.spec, P.hist + ((byte, None),), P.funcs | res.funcs, P.touched
                            self.fail(C_B, Q, byte, 'byte %d (%s): %s' % (len(P.hist), byte.role, res.what), res.where)
                            continue
                        nf = self.failures
                        Q = self.judge(P, byte, tag, res, J2)
                        if self.failures != nf:
                            continue        # the path has left the property: what follows it is not evaluated
                        if res.added:
                            t = set()
                            for f in res.added:
                                t |= fact_syms(f)
                            Q.touched = P.touched | t
                        key = (Q.cfg.id, Q.spec.key(self.it, J2), child.id)
                        if key in self.visited:
                            continue
                        self.visited.add(key)
                        stack.append((child, Q))
        self.flush()


def count_streams(root):
    """number of streams (root-to-leaf paths) of a DAG"""
    memo = {}
    order, seen, stack = [], set(), [root]
    while stack:
        n = stack.pop()
        if n.id in seen:
            continue
        seen.add(n.id)
        order.append(n)
        for (_, ch) in n.edges:
            stack.append(ch)
    # children before parents: process in reverse topological order by repeated passes (DAG depth is small)
    pending = order
    while pending:
        rest = []
        for n in pending:
            if all(ch.id in memo for (_, ch) in n.edges):
                memo[n.id] = sum(memo[ch.id] for (_, ch) in n.edges) if n.edges else 1
            else:
                rest.append(n)
        if len(rest) == len(pending):
            break
        pending = rest
    return memo.get(root.id, 0)


# ----------------------------------------------------------------------------------------------------------------------
# driver
# ----------------------------------------------------------------------------------------------------------------------
_CODECS = {}


def caps_of(family, tier):
    if family == 'overlong':
        return [2, 3, 4, 5]
    if family == 'prefix':
        return [2, 3, 4, ROOMY] + ([5] if tier == 'thorough' else [])
    return [2, 3, ROOMY]


def _task(t):
    cname, ai, family, cap, tier = t
    c = _CODECS[cname]
    A = c.alphabets[ai]
    bk = Book()
    info = dict(streams=0, steps=0, pathsteps=0, configurations=0, nodes=0, garbage_deliveries=[], logical_streams=0)
    try:
        w = Walk(c, A, cap, family, bk, tier)
        g = Gen(c, A, cap, tier, w.it, w.m.base_facts)
        n0 = Node.count[0]
        root = getattr(g, 'family_' + family)()
        w.run(root)
        must = C_D1 if w.kind == 'differ' else C_D2
        if not w.oks.get(must) and not w.failed(must):
            raise Unresolved('no stream of the family reached the end of its good frame (nothing was decided about delivery)')
        info.update(streams=w.streams, steps=w.m.steps, pathsteps=w.pathsteps, configurations=len(w.m.ids), nodes=Node.count[0] - n0,
                    garbage_deliveries=sorted(w.deliveries_in_garbage.items())[:40], logical_streams=count_streams(root))
    except (Unresolved, AnalysisBroken) as e:
        bk.unresolved.append('%s %s family %s capacity %d: %s' % (cname, A.label, family, cap, e))
    except Exception as e:          # an engine limit (e.g. lin.TooHard) or an unexpected IR form: no verdict for this family
        import traceback
        tb = traceback.extract_tb(e.__traceback__)[-1]
        bk.unresolved.append('%s %s family %s capacity %d: %s: %s (%s:%d)' % (cname, A.label, family, cap, type(e).__name__, e,
                                                                              os.path.basename(tb.filename), tb.lineno))
    bk.paths = info['pathsteps']
    return t, bk, info


def plan(codecs, tier):
    tasks = []
    for cname, c in codecs.items():
        for ai, A in enumerate(c.alphabets):
            if not A.consistent():
                continue
            for family in FAMILIES:
                for cap in caps_of(family, tier):
                    tasks.append((cname, ai, family, cap, tier))
    return tasks


def run_ext(rep, repo, tier):
    t0 = time.time()
    codecs = {c.name: c for c in (SCodec(repo), SLegacy(repo))}
    rep.units += ['witness/w_c05_streams.cpp -> igris/protocols/gstuff.cpp + gstuff.h (receiver, alphabets, status codes)',
                  'witness/w_c05_streams_v1.c -> igris/protocols/gstuff_v1/autorecv.c']
    _CODECS.clear()
    _CODECS.update(codecs)
    tasks = plan(codecs, tier)
    book = Book()
    infos = {}
    workers = min(16, os.cpu_count() or 2, max(1, len(tasks) // 2))
    done = False
    if workers > 1 and not multiprocessing.current_process().daemon:
        try:
            with multiprocessing.get_context('fork').Pool(workers) as pool:
                for (t, bk, info) in pool.imap_unordered(_task, tasks, chunksize=1):
                    book.merge(bk)
                    infos[t] = info
            done = True
        except OSError:
            book = Book()
    if not done:
        for t in tasks:
            _, bk, info = _task(t)
            book.merge(bk)
            infos[t] = info
    for (rule, fn, key), r in sorted(book.inst.items()):
        rep.inst(rule, fn, key, r['ok'], r['where'], r['detail'], fact={'evaluations': r['n']})
    per = {}
    for u in book.unresolved:
        per.setdefault(' '.join(u.split(' ')[:2]), []).append(u)
    na = 0
    for cname, c in codecs.items():
        for A in c.alphabets:
            if not A.consistent():
                continue
            na += 1
            tag = '%s %s' % (cname, A.label)
            if tag in per:
                rep.defer_broken('c05_streams: %d scenario family(ies) of %s could not be analysed exactly, e.g. %s' % (len(per[tag]), tag, per[tag][0]))
            else:
                tot = {}
                for t, info in infos.items():
                    if t[0] == cname and c.alphabets[t[1]] is A:
                        for k in ('logical_streams', 'steps', 'pathsteps', 'configurations'):
                            tot[k] = tot.get(k, 0) + info[k]
                rep.inst(RULE + ':analysed', c.recv_name, '%s:every-stream-analysed-exactly' % A.label, True, c.where(c.newchar),
                         fact=dict(tot, tier=tier))
    rep.extra['c05_streams'] = {
        'tasks': len(tasks), 'wall_s': round(time.time() - t0, 2), 'crc_axiom': AXIOM,
        'streams': sum(i['logical_streams'] for i in infos.values()),
        'receiver_steps_interpreted': sum(i['steps'] for i in infos.values()),
        'steps_walked': sum(i['pathsteps'] for i in infos.values()),
        'unresolved': book.unresolved[:20],
        'prefixes_that_deliver_a_frame_of_their_own': {
            '%s %s cap=%d' % (t[0], codecs[t[0]].alphabets[t[1]].label, t[3]): i['garbage_deliveries'][:12]
            for t, i in sorted(infos.items()) if t[2] == 'prefix' and t[3] == ROOMY}}
    rep.explanation += (
        ' Stream level, mechanised (c05_streams): newchar / gstuff_autorecv_newchar_v1 are interpreted byte by byte on whole '
        'streams of symbolic bytes (default alphabet, gstuff_context_v0, every consistent alphabet with START != STOP and with '
        'START == STOP, legacy alphabet; capacities 2..5 and 8): a garbage prefix of 0..%d bytes with each byte in every class '
        '(START, STOP, STUB, each escape code, other) followed by well-formed frame(s) of payload length 0..%d in every combination '
        'of byte classes and CRC-byte classes; a frame truncated after every byte, a frame with one byte replaced by every class, '
        'a frame whose content is 1..3 bytes longer than the buffer holds, each followed by good frame(s).  Decided per stream '
        'and path: the first good frame (markers differ) resp. at the latest the second (START == STOP, legacy) returns NEWPACKAGE '
        'exactly on its last byte with size and content equal to the payload; a NEWPACKAGE anywhere else occurs only where the '
        'unescaped bytes since the last start marker carry a matching CRC on that path (the prefix or the damaged frame IS a '
        'complete frame: the path assumes residue == 0 for the uninterpreted CRC) and delivers exactly those bytes; every status is '
        'the one the property names (GARBAGE outside frames, FORCE_RESTART, CRC_ERROR, STUFFING_ERROR, OVERFLOW on the byte that '
        'does not fit); no access outside the receive buffer, never more than capacity-1 bytes stored.  The CRC-8 step is an '
        'uninterpreted function with the single axiom %s.  A garbage prefix delivers a packet of its own only on paths on which it '
        'is START, k >= 1 unescaped bytes the last of which the path assumes equal to the CRC term of those before (k = 1: the byte '
        '0xFF), STOP - for START == STOP and the legacy receiver the closing marker may be the opening marker of the first frame; the '
        'class "prefix byte equals the CRC term" is not excluded, it is the zero side of the receiver\'s own branch on the residue.  '
        'The three fault families are run on a receiver fresh from init and on one that has just delivered a good frame.  Not decided '
        'here: streams longer than these bounds (the per-transition clauses of R-RECV cover every length, the induction over the '
        'stream is not mechanised); symbolic alphabets in which a marker or an escape code equals the CRC seed 0xFF.'
        % (4 if tier == 'thorough' else 3,
                                                                                   3 if tier == 'thorough' else 2, AXIOM))
    rep.extra['c05_streams']['limits(prefix,good payload,truncated payload,corrupted payload)'] = {
        A.label: limits(tier, A) for c in codecs.values() for A in c.alphabets}
    rep.assumptions += ['igris_strmcrc8 is an uninterpreted function of (register, byte) with the axiom ' + AXIOM,
                        'stream analysis: the legacy receiver struct is zero-initialised before gstuff_autorecv_setbuf_v1; power-on '
                        'counts as a frame boundary for it (it has no idle state); its packet is line[0 .. len-1)',
                        'stream analysis, symbolic alphabets: markers and escape codes pairwise different (R-ALPHABET) and none of '
                        'them equal to the CRC seed 0xFF']
    for fam, n in (('prefix', 4), ('truncated', 5), ('corrupted', 5), ('overlong', 6)):
        rep.floor('%s:%s' % (RULE, fam), n * na)
    rep.floor(RULE + ':analysed', na)
