"""C19 text / path / command-line utilities: bounds of every access on exactly-sized buffers and
C strings, result ranges and case splits, argv[0]-needs-argc>0, dispatcher dataflow rules."""
from common import *
from c19_ext import *


def run(rep, repo, tier):
    rep.explanation = ''
    run_memmem(rep, repo)
    run_replsub(rep, repo)
    run_argvc(rep, repo)
    run_shells(rep, repo)


def run_memmem(rep, repo):
    mod = compile_ir(repo + '/igris/string/memmem.c', repo)
    rep.units.append('igris/string/memmem.c')
    it = Interp(mod, externals=LIBC_EXT)
    run = Run19(it, [])
    spec = FnSpec(setup=sized_params((0, 1), (2, 3)), pre=['arg1 <= 1099511627776', 'arg3 <= 1099511627776'], post=[
        dict(name='empty-haystack-none', when=['arg1 == 0'], then=['ret_null == 1']),
        dict(name='empty-needle-none', when=['arg3 == 0'], then=['ret_null == 1']),
        dict(name='needle-longer-than-haystack-none', when=['arg1 < arg3'], then=['ret_null == 1']),
        dict(name='match-lies-inside-haystack', when=['ret_null == 0'],
             then=['ret_in_arg0 == 1', 'ret_off >= 0', 'ret_off + arg3 <= arg1']),
    ])
    run.run('igris_memmem', spec)
    rep.add_absint('R-MEMMEM', summarize(it, run))


def run_replsub(rep, repo):
    mod = compile_ir(repo + '/igris/string/replace_substrings.c', repo)
    rep.units.append('igris/string/replace_substrings.c')
    it = Interp(mod, externals=LIBC_EXT)
    run = Run19(it, [])
    lim = ['arg%d <= 1099511627776' % k for k in (1, 3, 5, 7)]
    run.run('replace_substrings', FnSpec(setup=sized_params((0, 1), (2, 3), (4, 5), (6, 7)), pre=lim))
    rep.add_absint('R-REPLSUB', summarize(it, run))


def argv_store_hook(run, data_idx, argv_idx):
    """every pointer stored into the argv array points at a character of the line (inside the data buffer)"""
    def hook(interp, st, inst, p, v):
        if not isinstance(p, PtrVal) or p.obj != run.argobj.get(argv_idx):
            return
        ok = False
        detail = None
        if isinstance(v, PtrVal) and v.obj == run.argobj.get(data_idx):
            o = st.objs[v.obj]
            ok = st.cons.entails_le(0, v.off) and st.cons.entails_lt(v.off, o.size)
            if not ok:
                detail = 'token pointer at offset %r of the line buffer of %r bytes%s' % (
                    v.off, o.size, interp.explain(st, [v.off, o.size]))
        else:
            detail = 'value stored into argv is not a pointer into the line buffer'
        interp.oblige('token-in-line', inst, ok, detail, 'argv[k] points into arg%d' % data_idx)
    return hook


def run_argvc(rep, repo):
    mod = witness('w_c19_argvc.c', repo)
    rep.units.append('witness/w_c19_argvc.c -> igris/datastruct/argvc.h')
    it = Interp(mod, externals=LIBC_EXT)
    run = Run19(it, [])
    run.run('argvc_length_of_first', FnSpec(setup=cstr_args(0), post=[
        dict(name='length-in-range', then=['ret >= 0', 'ret <= len_arg0']),
        dict(name='empty', when=['len_arg0 == 0'], then=['ret == 0'])]))
    it.store_hook = argv_store_hook(run, 0, 1)
    run.run('argvc_internal_split', FnSpec(
        setup=chain(cstr_args(0), sized_params((1, 2), elem=8)), pre=['arg2 <= 1048576'], post=[
            dict(name='argc-in-range', then=['ret >= 0']),
            dict(name='argc-at-most-argcmax', when=['arg2 >= 0'], then=['ret <= arg2']),
            dict(name='no-room-no-arguments', when=['arg2 <= 0'], then=['ret == 0']),
            dict(name='empty-line-no-arguments', when=['len_arg0 == 0'], then=['ret == 0'])]))
    it.store_hook = argv_store_hook(run, 0, 2)
    run.run('argvc_internal_split_n', FnSpec(
        setup=chain(sized_params((0, 1)), sized_params((2, 3), elem=8)), pre=["arg1 >= 0", "arg3 <= 1048576"], post=[
            dict(name='argc-in-range', then=['ret >= 0']),
            dict(name='argc-at-most-argcmax', when=['arg3 >= 0'], then=['ret <= arg3']),
            dict(name='no-room-no-arguments', when=['arg3 <= 0'], then=['ret == 0']),
            dict(name='empty-line-no-arguments', when=['arg1 == 0'], then=['ret == 0'])]))
    it.store_hook = None
    rep.add_absint('R-ARGVC', summarize(it, run))


class ArgvMonitor:
    """ghost state for the shell dispatchers: after  argc = argvc_internal_split(str, argv, N)  only the
    first argc cells of argv hold token pointers.  Obligations:
      argv-init    a cell argv[k] is loaded only where k < argc is known (blank line: argc == 0)
      handler-args the handler found in the table is invoked as  func(argc - d, argv + d, ...)"""
    SPLITTERS = {'argvc_internal_split': 1, 'argvc_internal_split_n': 2}

    def __init__(self, interp):
        self.interp = interp
        interp.call_hook = self.call_hook
        interp.access_hook = self.access_hook
        self.handler_calls = 0

    def call_hook(self, interp, st, i, callee, args):
        if callee in self.SPLITTERS:
            target = interp.mod.functions.get(callee)
            if target is None or target.decl:
                raise AnalysisBroken('%s is not defined in the unit of the dispatcher' % callee)
            argv = args[self.SPLITTERS[callee]]
            if not isinstance(argv, PtrVal) or argv.is_null:
                raise AnalysisBroken('argv handed to %s is not a known array' % callee)
            interp.stack.append((callee, i.where()))
            try:
                rets = interp.run_function(target, st, args)
            finally:
                interp.stack.pop()
            for s, rv in rets:
                s.ghost['argv'] = (argv.obj, argv.off, s.force_s(rv))
            return rets
        if callee is None and i.op in ('call', 'invoke') and len(args) >= 2:
            g = st.ghost.get('argv')
            if g is None:
                return None
            self.handler_calls += 1
            obj, base, argc = g
            n, v = args[0], args[1]
            ok = False
            detail = None
            if isinstance(n, IntVal) and isinstance(v, PtrVal) and v.obj == obj:
                ns = st.force_s(n)
                # argv advanced by exactly the number of dropped arguments
                ok = st.cons.entails_eq(v.off - base, (argc - ns) * 8)
                if not ok:
                    detail = ('handler invoked with argc %r and argv + %r bytes; the splitter produced %r '
                              'arguments%s' % (ns, v.off - base, argc, interp.explain(st, [ns, v.off, argc])))
            else:
                detail = 'handler is not invoked with (argc, argv) of the split line'
            interp.oblige('handler-args', i, ok, detail, 'func(argc - d, argv + d)')
        return None

    def access_hook(self, interp, st, inst, p, size, kind):
        g = st.ghost.get('argv')
        if g is None or kind != 'load' or not isinstance(p, PtrVal) or p.obj != g[0]:
            return
        obj, base, argc = g
        ok = st.cons.entails_le(base, p.off) and st.cons.entails_le(p.off + size, base + argc * 8)
        interp.oblige('argv-init', inst, ok, None if ok else
                      'argv cell at byte offset %r is read where only the first argc = %r cells are initialised '
                      '(a blank line yields argc == 0, so argv[0] is an uninitialised pointer)%s'
                      % (p.off - base, argc, interp.explain(st, [p.off, argc])), 'argv[k] read needs k < argc')


def run_shells(rep, repo):
    for rel, fns in (('igris/shell/mshell.c', {
            'mshell_execute': FnSpec(setup=cstr_args(0)),
            'mshell_tables_execute': FnSpec(setup=cstr_args(0))}),
            ('igris/shell/rshell.c', {
                'rshell_execute': FnSpec(setup=cstr_args(0), pre=['arg3 >= 0', 'arg3 <= 10']),
                'rshell_tables_execute': FnSpec(setup=cstr_args(0)),
                'rshell_execute_v': FnSpec(setup=sized_params((1, 0), elem=8),
                                           pre=['arg0 >= 1', 'arg0 <= 1048576', 'arg4 >= 0', 'arg4 <= 10'])})):
        mod = compile_ir(repo + '/' + rel, repo)
        rep.units.append(rel)
        it = Interp(mod, externals=LIBC_EXT)
        mon = ArgvMonitor(it)
        run = Run19(it, [])
        for fname, spec in fns.items():
            run.run(fname, spec)
        rep.add_absint('R-SHELL', summarize(it, run))
