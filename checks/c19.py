"""C19 text / path / command-line utilities: bounds of every access on exactly-sized buffers and
C strings, result ranges and case splits, argv[0]-needs-argc>0, dispatcher dataflow rules."""
from common import *
from c19_ext import *
from c01 import trace_const
from c19_flow import *
from irlib import tyname, keep_all_but_new_helpers

THREAD_PASSES = 'mem2reg,instsimplify,simplifycfg,jump-threading,simplifycfg,instsimplify'


def run(rep, repo, tier):
    rep.explanation = (
        'Abstract interpretation of every anchored routine on exactly-sized, non-terminated buffers (symbolic length, may be '
        '0) or C strings with a symbolic terminator position: every load/store/memcpy/memchr/memcmp/strchr access is proved '
        'inside the extent it was given - igris_memmem, replace_substrings (output bounded by maxsize), igris::replace, '
        'igris::split (char and delimiter-set forms), split_cmdargs, trim, dstring, join (reserve == sum of the parts), '
        'argvc_length_of_first / argvc_internal_split / argvc_internal_split_n, the four shell dispatchers, all path_* '
        'helpers and the creader scanners. Result clauses: memmem answers none for an empty needle/haystack or a needle '
        'longer than the haystack and a match lies inside the haystack, its scan starts at the first byte and ends at the '
        'last possible position; the replace loops search from the cursor to the end of the input with the needle length '
        'and continue behind the match; every token pointer stored into argv / every token handed to the output vector '
        'points into the line, argc is within 0..argcmax and 0 for an empty line; a dispatcher reads argv[k] only where '
        'k < argc (blank line tolerated), compares the first token with each table entry up to the sentinel, invokes the '
        'handler of exactly the matching entry as func(argc - d, argv + d) and answers ENOENT otherwise; path helpers: '
        'closed-form results of is_single_dot/is_double_dot/is_abs, next/iterate return a pointer into the string or NULL '
        'only for an empty string and that pointer is at the start of a component or at the end (never on a separator or on '
        'a "." component), no NULL result is dereferenced, compare_node returns -1/0/1 with 0 only when both nodes '
        'end; creader_readline/skip/skipws keep strt <= cursor <= fini and return a length inside the text. '
        'Not decided: functional equality of split/join/trim/replace/path helpers with a reference (token contents), '
        'treatment of embedded NULs by the strchr-based splitters.')
    rep.assumptions += ['buffers handed to one call do not overlap', 'command tables end with a func == NULL sentinel and '
                        'hold NUL-terminated names', 'std::string / std::vector members are opaque and trusted']
    run_memmem(rep, repo)
    run_replsub(rep, repo)
    run_argvc(rep, repo)
    run_shells(rep, repo)
    run_path(rep, repo)
    run_creader(rep, repo)
    run_stringcpp(rep, repo)
    run_replacecpp(rep, repo)
    # floors: instance counts confirmed by hand on the tree the rules were written for (about 60 % of them)
    for rule, n in (('R-MEMMEM:bounds', 2), ('R-MEMMEM:post', 4), ('R-MEMMEM-SCAN', 3), ('R-REPLSUB:bounds', 3),
                    ('R-REPLACE-STEP', 6), ('R-REPLACE:bounds', 2), ('R-ARGVC:bounds', 4), ('R-ARGVC:post', 8),
                    ('R-ARGVC:token-in-line', 2), ('R-SHELL:argv-init', 4), ('R-SHELL:handler-args', 4),
                    ('R-SHELL:bounds', 10), ('R-DISPATCH', 20), ('R-PATH:bounds', 10), ('R-PATH:post', 20),
                    ('R-PATH:null-result', 1), ('R-CREADER:bounds', 10), ('R-CREADER:post', 9), ('R-SPLIT:bounds', 10),
                    ('R-SPLIT:token-in-buffer', 3), ('R-TRIM:bounds', 2), ('R-JOIN', 3)):
        rep.floor(rule, n)
    import c19_content
    c19_content.run_ext(rep, repo, tier)


def run_memmem(rep, repo):
    mod = compile_ir(repo + '/igris/string/memmem.c', repo)
    rep.units.append('igris/string/memmem.c')
    it = Interp(mod, externals=LIBC_EXT)
    run = Run19(it, [])
    spec = FnSpec(setup=sized_params((0, 1), (2, 3)), pre=['arg1 <= 1099511627776', 'arg3 <= 1099511627776'], post=[
        dict(name='empty-haystack-none', when=['arg1 == 0'], then=['ret_null == 1']),
        dict(name='empty-needle-none', when=['arg3 == 0'], then=['ret_null == 1']),
        dict(name='needle-longer-than-haystack-none', when=['arg1 < arg3'], then=['ret_null == 1']),
        dict(name='match-lies-inside-haystack', when=['ret_null == 0'],
             then=['ret_in_arg0 == 1', 'ret_off >= 0', 'ret_off + arg3 <= arg1']),
    ])
    run.run('igris_memmem', spec)
    rep.add_absint('R-MEMMEM', summarize(it, run))
    try:
        memmem_scan_rule(rep, mod)
    except AnalysisBroken as e:
        rep.defer_broken(e)      # the content rules of c19_content still decide the scan


def count_searches(interp, st, i, callee, args):
    """ghost: number of igris_memmem calls on this path (saturating at 2)"""
    if callee == 'igris_memmem' and interp.recording == 0:
        st.ghost['nsearch'] = min(2, st.ghost.get('nsearch', 0) + 1)
    return None


def zero_searches(run, st, env, pnames, args, sps):
    st.ghost['nsearch'] = 0


def run_replsub(rep, repo):
    mod = compile_ir(repo + '/igris/string/replace_substrings.c', repo)
    rep.units.append('igris/string/replace_substrings.c')
    it = Interp(mod, externals=LIBC_EXT)
    run = Run19(it, [])
    lim = ['arg%d <= 1099511627776' % k for k in (1, 3, 5, 7)]
    it.call_hook = count_searches
    run.run('replace_substrings', FnSpec(setup=chain(sized_params((0, 1), (2, 3), (4, 5), (6, 7)), zero_searches),
                                         pre=lim + ['arg1 >= 1'], post=[
        dict(name='pattern-that-fits-is-searched-for', when=['arg5 >= 1', 'arg5 <= arg3'], then=['ghost_nsearch >= 1'])]))
    it.call_hook = None
    rep.add_absint('R-REPLSUB', summarize(it, run))
    replace_cursor_rule(rep, mod, 'replace_substrings', 'replace_substrings', lambda f: ('a', 5))


def argv_store_hook(run, data_idx, argv_idx):
    """every pointer stored into the argv array points at a character of the line (inside the data buffer)"""
    def hook(interp, st, inst, p, v):
        if not isinstance(p, PtrVal) or p.obj != run.argobj.get(argv_idx):
            return
        ok = False
        detail = None
        if isinstance(v, PtrVal) and v.obj == run.argobj.get(data_idx):
            o = st.objs[v.obj]
            ok = st.cons.entails_le(0, v.off) and st.cons.entails_lt(v.off, o.size)
            if not ok:
                detail = 'token pointer at offset %r of the line buffer of %r bytes%s' % (
                    v.off, o.size, interp.explain(st, [v.off, o.size]))
        else:
            detail = 'value stored into argv is not a pointer into the line buffer'
        interp.oblige('token-in-line', inst, ok, detail, 'argv[k] points into arg%d' % data_idx)
    return hook


def run_argvc(rep, repo):
    mod = witness('w_c19_argvc.c', repo)
    rep.units.append('witness/w_c19_argvc.c -> igris/datastruct/argvc.h')
    it = Interp(mod, externals=LIBC_EXT)
    run = Run19(it, [])
    run.run('argvc_length_of_first', FnSpec(setup=cstr_args(0), post=[
        dict(name='length-in-range', then=['ret >= 0', 'ret <= len_arg0']),
        dict(name='empty', when=['len_arg0 == 0'], then=['ret == 0'])]))
    it.store_hook = argv_store_hook(run, 0, 1)
    run.run('argvc_internal_split', FnSpec(
        setup=chain(cstr_args(0), sized_params((1, 2), elem=8)), pre=['arg2 <= 1048576'], post=[
            dict(name='argc-in-range', then=['ret >= 0']),
            dict(name='argc-at-most-argcmax', when=['arg2 >= 0'], then=['ret <= arg2']),
            dict(name='no-room-no-arguments', when=['arg2 <= 0'], then=['ret == 0']),
            dict(name='empty-line-no-arguments', when=['len_arg0 == 0'], then=['ret == 0'])]))
    it.store_hook = argv_store_hook(run, 0, 2)
    run.run('argvc_internal_split_n', FnSpec(
        setup=chain(sized_params((0, 1)), sized_params((2, 3), elem=8)), pre=["arg1 >= 0", "arg3 <= 1048576"], post=[
            dict(name='argc-in-range', then=['ret >= 0']),
            dict(name='argc-at-most-argcmax', when=['arg3 >= 0'], then=['ret <= arg3']),
            dict(name='no-room-no-arguments', when=['arg3 <= 0'], then=['ret == 0']),
            dict(name='empty-line-no-arguments', when=['arg1 == 0'], then=['ret == 0'])]))
    it.store_hook = None
    rep.add_absint('R-ARGVC', summarize(it, run))


class ArgvMonitor:
    """ghost state for the shell dispatchers: after  argc = argvc_internal_split(str, argv, N)  only the
    first argc cells of argv hold token pointers.  Obligations:
      argv-init    a cell argv[k] is loaded only where k < argc is known (blank line: argc == 0)
      handler-args the handler found in the table is invoked as  func(argc - d, argv + d, ...)"""
    SPLITTERS = {'argvc_internal_split': 1, 'argvc_internal_split_n': 2}

    def __init__(self, interp):
        self.interp = interp
        interp.call_hook = self.call_hook
        interp.access_hook = self.access_hook
        self.handler_calls = 0

    def call_hook(self, interp, st, i, callee, args):
        if callee in self.SPLITTERS:
            target = interp.mod.functions.get(callee)
            if target is None or target.decl:
                raise AnalysisBroken('%s is not defined in the unit of the dispatcher' % callee)
            argv = args[self.SPLITTERS[callee]]
            if not isinstance(argv, PtrVal) or argv.is_null:
                raise AnalysisBroken('argv handed to %s is not a known array' % callee)
            interp.stack.append((callee, i.where()))
            try:
                rets = interp.run_function(target, st, args)
            finally:
                interp.stack.pop()
            for s, rv in rets:
                s.ghost['argv'] = (argv.obj, argv.off, s.force_s(rv))
            return rets
        if callee is None and i.op in ('call', 'invoke') and len(args) >= 2:
            g = st.ghost.get('argv')
            if g is None:
                return None
            self.handler_calls += 1
            obj, base, argc = g
            n, v = args[0], args[1]
            ok = False
            detail = None
            if isinstance(n, IntVal) and isinstance(v, PtrVal) and v.obj == obj:
                ns = st.force_s(n)
                # argv advanced by exactly the number of dropped arguments
                ok = st.cons.entails_eq(v.off - base, (argc - ns) * 8)
                if not ok:
                    detail = ('handler invoked with argc %r and argv + %r bytes; the splitter produced %r '
                              'arguments%s' % (ns, v.off - base, argc, interp.explain(st, [ns, v.off, argc])))
            else:
                detail = 'handler is not invoked with (argc, argv) of the split line'
            interp.oblige('handler-args', i, ok, detail, 'func(argc - d, argv + d)')
        return None

    def access_hook(self, interp, st, inst, p, size, kind):
        g = st.ghost.get('argv')
        if g is None or kind != 'load' or not isinstance(p, PtrVal) or p.obj != g[0]:
            return
        obj, base, argc = g
        ok = st.cons.entails_le(base, p.off) and st.cons.entails_le(p.off + size, base + argc * 8)
        interp.oblige('argv-init', inst, ok, None if ok else
                      'argv cell at byte offset %r is read where only the first argc = %r cells are initialised '
                      '(a blank line yields argc == 0, so argv[0] is an uninitialised pointer)%s'
                      % (p.off - base, argc, interp.explain(st, [p.off, argc])), 'argv[k] read needs k < argc')


def run_shells(rep, repo):
    for rel, fns in (('igris/shell/mshell.c', {
            'mshell_execute': FnSpec(setup=cstr_args(0)),
            'mshell_tables_execute': FnSpec(setup=cstr_args(0))}),
            ('igris/shell/rshell.c', {
                'rshell_execute': FnSpec(setup=cstr_args(0), pre=['arg3 >= 0', 'arg3 <= 10']),
                'rshell_tables_execute': FnSpec(setup=chain(cstr_args(0), const_table_args(1))),
                'rshell_execute_v': FnSpec(setup=sized_params((1, 0), elem=8),
                                           pre=['arg0 >= 1', 'arg0 <= 1048576', 'arg4 >= 0', 'arg4 <= 10'])})):
        # file-local helpers (e.g. a table look-up factored out of the dispatchers) are folded into their callers and the
        # test of their result is threaded back onto the paths that produced it, so the rules see one table walk
        mod = compile_ir(repo + '/' + rel, repo, inline=keep_all_but_new_helpers(), passes=THREAD_PASSES)
        rep.units.append(rel)
        it = Interp(mod, externals=LIBC_EXT)
        mon = ArgvMonitor(it)
        run = Run19(it, [])
        for fname, spec in fns.items():
            run.run(fname, spec)
        rep.add_absint('R-SHELL', summarize(it, run))
        if mon.handler_calls == 0:
            raise AnalysisBroken('%s: no handler call was interpreted' % rel)
        for fname in fns:
            if fname != 'rshell_execute':
                dispatch_rule(rep, mod, fname)


def dispatch_rule(rep, mod, fname, rule='R-DISPATCH'):
    """IR dataflow: the only indirect call of a dispatcher is  it->func  of the table entry whose  it->name
    compared equal (strcmp == 0) to argv[0]; a match always reaches the call; a mismatch moves on to the
    next entry; the walk ends at the entry with func == NULL; after the handler ran the result is SSHELL_OK"""
    f = mod.fn(fname)
    if f is None or f.decl:
        raise AnalysisBroken('dispatcher %s not found' % fname)
    where = '%s:%d' % (f.file, f.line)
    ind = [i for i in f.all_insts() if i.op in ('call', 'invoke') and i.callee is None
           and i.d.get('callee', {}).get('k') in ('inst', 'arg')]
    if len(ind) != 1:
        raise AnalysisBroken('%s: expected exactly one indirect (handler) call, found %d' % (fname, len(ind)))
    H = ind[0]

    def field_load(v):
        """v = load (phi + const)  ->  (phi inst, struct name, byte offset) or None"""
        li = f.inst_of(v)
        if li is None or li.op != 'load':
            return None
        root, off = trace_const(f, li.ops[0])
        ri = f.inst_of(root)
        if ri is None or ri.op != 'phi':
            return None
        return ri, off
    hl = field_load(H.callee_v)
    if hl is None:
        rep.inst(rule, fname, 'handler-is-func-of-a-table-entry', False, H.where(),
                 'the indirect call does not go through a field of the table cursor')
        return
    it, foff = hl
    sname = tyname(it.ty.get('s', '')) if it.ty.get('k') == 'ptr' else ''
    off_func, off_name = mod.field_off(sname, 'func'), mod.field_off(sname, 'name')
    if off_func is None or off_name is None:
        raise AnalysisBroken('%s: table entry type %r has no fields name/func (anchor changed)' % (fname, sname))
    rep.inst(rule, fname, 'handler-is-func-of-a-table-entry', foff == off_func, H.where(),
             None if foff == off_func else 'handler pointer is loaded from offset %d of the entry, func is at %d'
             % (foff, off_func))
    # per-table argument dropping (rshell_tables_execute): the number of dropped arguments is the dropargs field of the
    # table descriptor whose command table is being walked - read through the same descriptor cursor that provided `it`
    init = [v for (bb, v) in it.incoming if not any(f.bmap[bb] in L['blocks'] for L in f.loops if it.block is L['header'])]
    tl = field_load(init[0]) if len(init) == 1 else None
    if tl is not None:
        tit, toff = tl
        tname = tyname(tit.ty.get('s', '')) if tit.ty.get('k') == 'ptr' else ''
        off_tab, off_drop = mod.field_off(tname, 'table'), mod.field_off(tname, 'dropargs')
        if off_tab is not None and off_drop is not None and toff == off_tab and H.ops:
            a0 = f.inst_of(H.ops[0])
            d = None
            if a0 is not None and a0.op == 'sub':
                x = a0.ops[1]
                xi = f.inst_of(x)
                while xi is not None and xi.op in ('sext', 'zext', 'trunc'):
                    x = xi.ops[0]
                    xi = f.inst_of(x)
                d = x
            if d is None:
                raise AnalysisBroken('%s: the argument count handed to the handler is not argc - d' % fname)
            dl = field_load(d)
            ok = dl is not None and dl[0] is tit and dl[1] == off_drop
            rep.inst(rule, fname, 'drops-the-arguments-of-the-table-being-walked', ok, H.where(),
                     None if ok else 'the number of dropped arguments is not read from the dropargs field of the table descriptor '
                     'whose commands are being compared (e.g. read once from the first descriptor): a command of a later table is '
                     'called with the wrong argument window')
    # the guarding comparison
    guard = None
    for S in f.calls('strcmp'):
        names = [field_load(a) for a in S.ops]
        which = [k for k, n in enumerate(names) if n is not None and n[0] is it and n[1] == off_name]
        if len(which) != 1:
            continue
        other = S.ops[1 - which[0]]
        oi = f.inst_of(other)
        argv0 = False
        if oi is not None and oi.op == 'load':
            root, off = trace_const(f, oi.ops[0])
            ri = f.inst_of(root)
            argv0 = off == 0 and (root.k == 'arg' or (ri is not None and ri.op == 'alloca'))
        for u in f.users(S):
            if u.op == 'icmp' and u.pred in ('eq', 'ne') and any(o.k == 'ci' and o.ival == 0 for o in u.ops):
                for b in f.users(u):
                    if b.op == 'br' and 'f' in b.d:
                        zero = b.d['t'] if u.pred == 'eq' else b.d['f']
                        nonzero = b.d['f'] if u.pred == 'eq' else b.d['t']
                        guard = (S, b, f.bmap[zero], f.bmap[nonzero], argv0)
    if guard is None:
        rep.inst(rule, fname, 'handler-guarded-by-name-match', False, H.where(),
                 'no branch on strcmp(argv[0], it->name) == 0 for the entry whose func is called')
        return
    S, br, zb, nzb, argv0 = guard
    rep.inst(rule, fname, 'compares-first-token-with-entry-name', argv0, S.where(),
             None if argv0 else 'the string compared with it->name is not argv[0]')
    ok = zb.preds == [br.block] and f.dominates_block(zb, H.block) and zb is not nzb
    rep.inst(rule, fname, 'handler-guarded-by-name-match', ok, H.where(),
             None if ok else 'the handler call is not dominated by the strcmp(...) == 0 edge')
    ok = zb is H.block or f.postdominates_block(H.block, zb)
    rep.inst(rule, fname, 'match-always-dispatches', ok, br.where(),
             None if ok else 'a path from the strcmp(...) == 0 edge leaves the function without calling the handler')
    # mismatch -> next entry
    esize = it.ty.get('elemsize')
    step = None
    L = [l for l in f.loops if l['header'] is it.block]
    if not L:
        raise AnalysisBroken('%s: the table cursor is not a loop variable' % fname)
    L = L[0]
    for (bb, v) in it.incoming:
        if f.bmap[bb] in L['blocks']:
            root, off = trace_const(f, v)
            step = off if (root.k == 'inst' and root.id == it.id) else None
    ok = step is not None and step == esize and nzb in L['blocks'] and H.block not in f.reachable_blocks(nzb, avoid=[it.block])
    rep.inst(rule, fname, 'mismatch-advances-to-next-entry', ok, br.where(),
             None if ok else 'after a mismatch the cursor advances by %r bytes (entry size %r) or the handler is '
             'reachable without a new comparison' % (step, esize))
    # sentinel
    t = it.block.term
    ok = False
    if t.op == 'br' and 'f' in t.d and t.ops[0].k == 'inst':
        c = f.insts[t.ops[0].id]
        if c.op == 'icmp' and c.pred in ('eq', 'ne') and any(o.k == 'null' for o in c.ops):
            o = [x for x in c.ops if x.k != 'null']
            fl = field_load(o[0]) if o else None
            stay = t.d['t'] if c.pred == 'ne' else t.d['f']
            ok = fl is not None and fl[0] is it and fl[1] == off_func and f.bmap[stay] in L['blocks']
    rep.inst(rule, fname, 'walk-ends-at-null-func-sentinel', ok, t.where(),
             None if ok else 'the table walk is not bounded by the entry whose func is NULL')
    # result after the handler
    rets = f.returns()
    ok = bool(rets)
    for r in rets:
        if not r.ops:
            continue
        v = r.ops[0]
        ri = f.inst_of(v)
        if ri is not None and ri.op == 'phi':
            for (bb, x) in ri.incoming:
                if f.dominates_block(H.block, f.bmap[bb]) and not (x.k == 'ci' and x.ival == 0):
                    ok = False
        elif f.dominates_block(H.block, r.block) and not (v.k == 'ci' and v.ival == 0):
            ok = False
    rep.inst(rule, fname, 'returns-SSHELL_OK-after-handler', ok, where,
             None if ok else 'a path through the handler call does not return SSHELL_OK (0)')


def out_store_hook(run, idx, name, signed=False):
    """remember the value stored through out-parameter idx as ghost_<name> (integer) or ghost_<name>_off
    (pointer into the buffer / string under analysis)"""
    def hook(interp, st, inst, p, v):
        if not isinstance(p, PtrVal) or p.obj != run.argobj.get(idx):
            return
        if isinstance(v, IntVal):
            st.ghost[name] = st.force_s(v) if signed else st.force_u(v)
        elif isinstance(v, PtrVal) and not v.is_null:
            st.ghost[name + '_off'] = v.off
            st.ghost[name + '_in_buf'] = 1 if v.obj in (run.bufobj, run.argobj.get(0)) else 0
    return hook


def nonnull_result_hook(callee_name):
    """the caller dereferences the result of callee_name without a test: it must not be NULL"""
    def hook(interp, st, i, callee, args):
        if callee != callee_name:
            return None
        target = interp.mod.functions[callee]
        interp.stack.append((callee, i.where()))
        try:
            rets = interp.run_function(target, st, args)
        finally:
            interp.stack.pop()
        out = []
        for s, rv in rets:
            bad = isinstance(rv, PtrVal) and rv.is_null
            interp.oblige('null-result', i, not bad, None if not bad else
                          '%s returns NULL here (empty string) and the caller dereferences the result in its loop '
                          'condition' % (interp.mod.functions[callee].srcname or callee), 'result of path_iterate is used')
            if not bad:
                out.append((s, rv))
        return out
    return hook


def summary_compare_node(interp, st, i, args):
    """contract of path_compare_node (R-PATH): both arguments point into terminated strings; result in -1..1"""
    for a in args[:2]:
        cstr_read(interp, st, a, i, 'path_compare_node')
        if st.bottom:
            return []
    r = st.fresh_int(32, True, 'cmp')
    st.cons.add_le(-1, r.s)
    st.cons.add_le(r.s, 1)
    return [(st, r)]


def summary_iterate(interp, st, i, args):
    """contract of path_iterate (R-PATH): NULL for NULL or the empty string, otherwise a position of the same
    string not before the argument"""
    p = args[0]
    if not isinstance(p, PtrVal):
        return [(st, interp.unknown_ptr(st, 'iter'))]

    def null_result(s):
        interp.oblige('null-result', i, False,
                      'path_iterate returns NULL here (empty string) and the caller dereferences the result in its '
                      'loop condition', 'result of path_iterate is used')
    if p.is_null:
        null_result(st)
        return []
    cstr_read(interp, st, p, i, 'path_iterate')
    if st.bottom:
        return []
    o = st.objs.get(p.obj)
    n = o.info.get('cstr_len') if o is not None else None
    if n is None:
        return [(st, interp.unknown_ptr(st, 'iter'))]
    out = []
    if not st.cons.entails_lt(p.off, n):
        s0 = st.fork()
        s0.cons.add_eq(p.off, n)
        if not interp.infeasible(s0, p.off, n):
            null_result(s0)
            if st.cons.entails_eq(p.off, n):
                return []
    interp.oblige('null-result', i, True, None, 'result of path_iterate is used')
    st.cons.add_lt(p.off, n)
    if interp.infeasible(st, p.off, n):
        return []
    k = st.fresh_int(64, False, 'adv')
    st.cons.add_le(p.off + k.u, n)
    return [(st, PtrVal(p.obj, p.off + k.u, p.lo, p.hi, True))]


def nice(mod, obs):
    """report C++ functions under their source names (overloads with their parameter types); a function whose
    every return became unreachable because an out-of-bounds access was assumed away is reported once (bounds)"""
    counts = {}
    for f in mod.defined():
        counts[f.qualname] = counts.get(f.qualname, 0) + 1

    def nm(n):
        f = mod.fn(n)
        if f is None or not f.srcname:
            return n
        return f.qualname + (sig19(f) if counts.get(f.qualname, 0) > 1 else '')
    bad_bounds = set()
    for o in obs:
        stack = o.get('call_stack') or []
        if stack:
            o['root'] = nm(stack[0].split('@')[0])
            o['leaf'] = nm(o['function'])
        o['function'] = nm(o['function'])
        if not o['ok'] and o['kind'].startswith('bounds'):
            bad_bounds.add(o.get('root') or o['function'])
    return [o for o in obs if not (o['kind'] == 'returns' and not o['ok'] and o['function'] in bad_bounds)]


def run_path(rep, repo):
    mod = witness('w_c19_path.cpp', repo)
    rep.units.append('witness/w_c19_path.cpp -> igris/util/pathops.h, igris/creader.h')
    it = Interp(mod, externals=LIBC_EXT)
    run = Run19(it, [])
    F = lambda n: fn_named(mod, n)
    inside = ['ret_null == 0', 'ret_in_arg0 == 1', 'ret_off >= 0', 'ret_off <= len_arg0']
    run.run(F('path_is_single_dot'), FnSpec(setup=cstr_args(0, inside=(0,)), post=[
        dict(name='boolean', then=['ret >= 0', 'ret <= 1']),
        dict(name='end-of-string-is-no-dot', when=['pos_arg0 == len_arg0'], then=['ret == 0'])]))
    run.run(F('path_is_double_dot'), FnSpec(setup=cstr_args(0, inside=(0,)), post=[
        dict(name='boolean', then=['ret >= 0', 'ret <= 1']),
        dict(name='needs-two-characters', when=['pos_arg0 + 1 >= len_arg0'], then=['ret == 0'])]))
    run.run(F('path_is_abs'), FnSpec(setup=cstr_args(0), post=[
        dict(name='empty-is-relative', when=['len_arg0 == 0'], then=['ret == 0'])]))
    run.run(F('path_is_simple'), FnSpec(setup=cstr_args(0), post=[
        dict(name='empty-is-simple', when=['len_arg0 == 0'], then=['ret == 1'])]))
    run.run(F('path_skip_slashes_and_single_dots'), FnSpec(setup=cstr_args(0, inside=(0,)), post=[
        dict(name='result-inside-path', then=inside + ['ret_off >= pos_arg0']),
        dict(name='result-is-not-a-separator', then=['ret_ch != 47']),
        dict(name='result-is-not-a-single-dot-component', when=['ret_ch == 46'], then=['ret_ch1 != 47', 'ret_ch1 != 0'])]))
    it.store_hook = out_store_hook(run, 1, 'plen')
    run.run(F('path_next'), FnSpec(setup=chain(cstr_args(0), fixed_args((1, 4))), post=[
        dict(name='empty-path-has-no-element', when=['len_arg0 == 0'], then=['ret_null == 1']),
        dict(name='element-inside-path', when=['ret_null == 0'],
             then=['ret_in_arg0 == 1', 'ret_off >= 0', 'ret_off + 1 <= len_arg0']),
        dict(name='element-is-not-a-separator', when=['ret_null == 0'], then=['ret_ch != 47']),
        dict(name='element-is-not-a-single-dot-component', when=['ret_null == 0', 'ret_ch == 46'],
             then=['ret_ch1 != 47', 'ret_ch1 != 0']),
        dict(name='element-length-inside-path', when=['ret_null == 0'],
             then=['ghost_plen >= 0', 'ret_off + ghost_plen <= len_arg0'])]))
    it.store_hook = None
    run.run(F('path_next'), FnSpec(setup=chain(cstr_args(0), null_args(1)), post=[
        dict(name='without-length-out-parameter', when=['ret_null == 0'],
             then=['ret_in_arg0 == 1', 'ret_off + 1 <= len_arg0'])]))
    run.run(F('path_next'), FnSpec(setup=chain(null_args(0), fixed_args((1, 4))), post=[
        dict(name='null-path-has-no-element', then=['ret_null == 1'])]))
    run.run(F('path_iterate'), FnSpec(setup=cstr_args(0, inside=(0,)), post=[
        dict(name='empty-path-ends-iteration', when=['pos_arg0 == len_arg0'], then=['ret_null == 1']),
        dict(name='result-inside-path', when=['pos_arg0 < len_arg0'], then=inside + ['ret_off >= pos_arg0']),
        # the component-wise reference: the result is the start of the next component or the end of the path - never a
        # separator and never a "." component (a dot followed by a separator or by the end)
        dict(name='result-is-not-a-separator', when=['pos_arg0 < len_arg0'], then=['ret_ch != 47']),
        dict(name='result-is-not-a-single-dot-component', when=['pos_arg0 < len_arg0', 'ret_ch == 46'],
             then=['ret_ch1 != 47', 'ret_ch1 != 0'])]))
    run.run(F('path_iterate'), FnSpec(setup=null_args(0), post=[
        dict(name='null-path-ends-iteration', then=['ret_null == 1'])]))
    run.run(F('path_last_node'), FnSpec(setup=cstr_args(0), post=[
        dict(name='result-inside-path', then=inside)]))
    run.run(F('path_compare_node'), FnSpec(setup=cstr_args(0, 1, inside=(0, 1)), post=[
        dict(name='three-way-result', then=['ret >= -1', 'ret <= 1']),
        dict(name='two-empty-nodes-are-equal', when=['pos_arg0 == len_arg0', 'pos_arg1 == len_arg1'], then=['ret == 0']),
        dict(name='empty-node-sorts-first', when=['pos_arg0 == len_arg0'], then=['ret <= 0']),
        dict(name='empty-node-sorts-first-b', when=['pos_arg1 == len_arg1'], then=['ret >= 0'])]))
    rep.add_absint('R-PATH', nice(mod, summarize(it, run)))
    # path_remove_prefix is analysed against the contracts of path_compare_node / path_iterate proved above
    # (modular step: inlining the two nested scanners into its loop costs minutes)
    ext = dict(LIBC_EXT)
    ext[F('path_compare_node')] = summary_compare_node
    ext[F('path_iterate')] = summary_iterate
    it = Interp(mod, externals=ext, opaque=[F('path_compare_node'), F('path_iterate')])
    run = Run19(it, [])
    run.run(F('path_remove_prefix'), FnSpec(setup=cstr_args(0, 1), post=[
        dict(name='result-inside-path', then=inside),
        dict(name='nothing-to-remove-from-empty-path', when=['len_arg0 == 0'], then=['ret_off == 0']),
        dict(name='empty-prefix-removes-nothing', when=['len_arg1 == 0'], then=['ret_off == 0'])]))
    it.call_hook = None
    rep.add_absint('R-PATH', nice(mod, summarize(it, run)))


CREADER = StructSpec('struct.creader', inv=[])


def creader_setup(run, st, env, pnames, args, sps):
    """reader over an exactly-sized, non-terminated buffer: strt = buf, fini = buf + n, cursor = buf + c,
    0 <= c <= n"""
    mod = run.mod
    sp = [x for x in sps if x[2] is CREADER]
    if len(sp) != 1:
        raise AnalysisBroken('struct creader parameter not found')
    (name, so, sspec, fs, sname) = sp[0]
    n = st.fresh_int(64, False, 'n')
    c = st.fresh_int(64, False, 'c')
    st.cons.add_le(n.u, 1 << 40)
    st.cons.add_le(c.u, n.u)
    buf = st.new_obj('param', n.u, 'buf', {'desc': 'reader buffer [strt, fini)'})
    run.bufobj = buf.id
    offs = {}
    for m in mod.flat_fields(sname):
        offs[m['name']] = (m['off'], m['ty']['size'])
    for f in ('strt', 'fini', 'cursor'):
        if f not in offs:
            raise AnalysisBroken('struct creader has no field %s' % f)
    st.mem[(so.id,) + offs['strt']] = PtrVal(buf.id, Lin(0))
    st.mem[(so.id,) + offs['fini']] = PtrVal(buf.id, n.u)
    st.mem[(so.id,) + offs['cursor']] = PtrVal(buf.id, c.u)
    env.bind('n', n.u)
    env.bind('c', c.u)


def run_creader(rep, repo):
    mod = witness('w_c19_path.cpp', repo)
    it = Interp(mod, externals=LIBC_EXT)
    run = Run19(it, [CREADER])
    F = lambda n: fn_named(mod, n)
    unchanged = ['cursor_post_in_buf == 1', 'cursor_post_off == c', 'strt_post_off == 0', 'fini_post_off == n']
    run.run(F('creader_end'), FnSpec(setup=creader_setup, post=[
        dict(name='at-end', when=['c == n'], then=['ret == 1'] + unchanged),
        dict(name='not-at-end', when=['c < n'], then=['ret == 0'] + unchanged)]))
    run.run(F('creader_curpos'), FnSpec(setup=creader_setup, post=[dict(name='position', then=['ret == c'] + unchanged)]))
    it.store_hook = out_store_hook(run, 1, 'token')
    run.run(F('creader_readline'), FnSpec(setup=chain(creader_setup, fixed_args((1, 8))), post=[
        dict(name='end-of-input', when=['c == n'], then=['ret == -1'] + unchanged),
        dict(name='line-lies-inside-buffer', when=['c < n'],
             then=['ret >= 0', 'ghost_token_in_buf == 1', 'ghost_token_off == c', 'c + ret <= n']),
        dict(name='cursor-stays-inside-buffer', then=['cursor_post_in_buf == 1', 'cursor_post_off >= c',
                                                      'cursor_post_off <= n', 'strt_post_off == 0',
                                                      'fini_post_off == n']),
        dict(name='consumed-line-ends-before-cursor', when=['c < n', 'cursor_post_off >= c + 1'],
             then=['c + ret <= cursor_post_off'])]))
    it.store_hook = None
    run.run(F('creader_skip'), FnSpec(setup=chain(creader_setup, cstr_args(1)), post=[
        dict(name='cursor-stays-inside-buffer', then=['cursor_post_in_buf == 1', 'cursor_post_off >= c',
                                                      'cursor_post_off <= n', 'strt_post_off == 0',
                                                      'fini_post_off == n']),
        dict(name='counts-skipped-characters', then=['ret >= 0', 'cursor_post_off == c + ret']),
        dict(name='nothing-to-skip-at-end', when=['c == n'], then=['ret == 0'])]))
    run.run(F('creader_skipws'), FnSpec(setup=chain(creader_setup, const_strings), post=[
        dict(name='cursor-stays-inside-buffer', then=['cursor_post_in_buf == 1', 'cursor_post_off >= c',
                                                      'cursor_post_off <= n'])]))
    rep.add_absint('R-CREADER', nice(mod, summarize(it, run)))


BUF = StructSpec('class.igris::buffer', inv=['sz <= 1099511627776'], owns={'buf': 'sz'})


def std_opaque(mod):
    """libstdc++ internals are not analysed: every std:: / __gnu_cxx:: function (defined inline or only
    declared) is an unknown call that may write to its pointer/reference arguments only"""
    pre = ('_ZNSt', '_ZNKSt', '_ZSt', '_ZN9__gnu_cxx', '_ZNK9__gnu_cxx', '_ZNSa', '_ZNKSa', '_ZN9__gnu_cxxeq',
           '_ZN9__gnu_cxxne')
    return [f.name for f in mod.functions.values() if f.name.startswith(pre) or
            (not f.decl and (f.scope.startswith('std::') or f.scope.startswith('__gnu_cxx::')))]


def token_hook(run, nonempty=False):
    """vector<string>::emplace_back(char *&start, long &len) and std::string(start, len) copy the bytes
    [start, start+len): they must lie inside the buffer under analysis, len >= 0 (>= 1 when nonempty)"""
    def check(interp, st, i, start, ln):
        ok = False
        detail = 'start/length of the copied range not traceable'
        if isinstance(start, PtrVal) and not start.is_null and isinstance(ln, IntVal):
            o = st.objs.get(start.obj)
            l = st.as_s(ln)
            if l is None:
                l = st.force_s(ln)
            if o is not None and o.size is not None:
                ok = st.cons.entails_le(0, start.off) and st.cons.entails_le(1 if nonempty else 0, l) and \
                    st.cons.entails_le(start.off + l, o.size)
                detail = None if ok else ('range at offset %r of length %r is not provably inside %s of %r bytes%s'
                                          % (start.off, l, interp.describe_obj(st, start.obj), o.size,
                                             interp.explain(st, [start.off, l, o.size])))
        interp.oblige('token-in-buffer', i, ok, detail, 'string(start, len) lies inside the buffer')

    def hook(interp, st, i, callee, args):
        if callee is None:
            return None
        if 'emplace_back' in callee and len(args) >= 3:
            ps, pl = args[1], args[2]
            start = ln = None
            if isinstance(ps, PtrVal) and isinstance(pl, PtrVal) and ps.off.is_const() and pl.off.is_const():
                start = st.mem.get((ps.obj, ps.off.c, 8))
                ln = st.mem.get((pl.obj, pl.off.c, 8))
            check(interp, st, i, start, ln)
        elif callee in run.string_ctors and len(args) >= 3:
            check(interp, st, i, args[1], args[2])
        return None
    return hook


def string_ctors(mod):
    """mangled names of std::string(const char*, size_t, const allocator&)"""
    names = [f.name for f in mod.functions.values() if 'basic_string' in f.name and ('C1EPKcm' in f.name or 'C2EPKcm' in f.name)]
    return set(names)


def sig19(f):
    m = {'i8': 'char', 'i8*': 'char*', 'i64': 'size_t', 'i32': 'int'}
    ps = []
    for p in f.params:
        if p.get('sret') or p['name'] == 'this':
            continue
        t = p['ty']['s']
        t = m.get(t, t)
        if 'class.' in t or 'struct.' in t:
            t = t.replace('%', '').replace('"', '').split('::')[-1].replace('class.', '').replace('struct.', '')
        ps.append(t)
    return '(' + ','.join(ps) + ')'


def join_rule(rep, mod, fname, rule='R-JOIN'):
    """IR call-sequence rule for igris::join(vector<string>, char): the end iterator is decremented only for a
    non-empty vector; the loop appends element then delimiter; the last element is appended without one"""
    f = mod.fn(fname)
    where = '%s:%d' % (f.file, f.line)
    name = 'igris::join'

    def sn(i):
        c = mod.fn(i.callee) if i.callee else None
        return c.srcname.split('<')[0] if c is not None else None
    calls = [i for i in f.all_insts() if i.op in ('call', 'invoke') and i.callee]
    sizes = [i for i in calls if sn(i) == 'size' and i.ops and i.ops[0].k == 'arg']
    decs = [i for i in calls if sn(i) == 'operator--']
    pushes = [i for i in calls if sn(i) == 'push_back']
    appends = [i for i in calls if sn(i) == 'append']
    if not decs or not pushes or not appends or not sizes:
        raise AnalysisBroken('igris::join no longer has the expected shape (size / operator-- / append / push_back calls)')
    # (a) non-empty guard
    nonempty = None
    for s_ in sizes:
        for u in f.users(s_):
            if u.op == 'icmp' and any(o.k == 'ci' and o.ival == 0 for o in u.ops) and u.pred in ('eq', 'ne', 'ugt'):
                for b in f.users(u):
                    if b.op == 'br' and 'f' in b.d:
                        t = b.d['f'] if u.pred == 'eq' else b.d['t']
                        tb = f.bmap[t]
                        if tb.preds == [b.block]:
                            nonempty = tb
    ok = nonempty is not None and all(f.dominates_block(nonempty, d.block) for d in decs)
    rep.inst(rule, name, 'end-iterator-decremented-only-for-non-empty-vector', ok, decs[0].where(),
             None if ok else 'vec.end()-- is reachable with an empty vector (iterator before begin())')
    # (b) element, delimiter, ..., last element
    loops = [L for L in f.loops if any(p.block in L['blocks'] for p in pushes)]
    ok = len(loops) == 1 and len(pushes) == 1
    if ok:
        L = loops[0]
        p = pushes[0]
        inl = [a for a in appends if a.block in L['blocks']]
        ok = len(inl) == 1 and inl[0].block is p.block and inl[0].idx < p.idx and \
            len(p.ops) == 2 and p.ops[1].k == 'arg' and f.params[p.ops[1].argno]['ty'].get('bits') == 8 and \
            p.ops[0].key() == inl[0].ops[0].key()
    rep.inst(rule, name, 'loop-appends-element-then-delimiter', ok, pushes[0].where(),
             None if ok else 'the joining loop does not append one element followed by the delimiter argument')
    ok2 = False
    if ok:
        outl = [a for a in appends if a.block not in L['blocks']]
        exits = set(t for (_, t) in L['exits'])
        ok2 = len(outl) == 1 and len(exits) == 1 and f.dominates_block(next(iter(exits)), outl[0].block) and \
            outl[0].ops[0].key() == pushes[0].ops[0].key()
    rep.inst(rule, name, 'last-element-appended-without-delimiter', ok2, where,
             None if ok2 else 'after the loop exactly one more element must be appended and no delimiter')
    # (c) the loop stops at the decremented end iterator
    ok3 = False
    if ok:
        hdr = L['header']
        cmpc = [i for i in hdr.insts if i.op in ('call', 'invoke') and i.callee and sn(i) in ('operator==', 'operator!=')]
        roots = set()
        for c in cmpc:
            for o in c.ops:
                r, _ = trace_const(f, o)
                roots.add(r.key())
        dec_roots = set(trace_const(f, d.ops[0])[0].key() for d in decs)
        ok3 = bool(cmpc) and bool(roots & dec_roots)
    rep.inst(rule, name, 'loop-stops-at-last-element', ok3, where,
             None if ok3 else 'the loop bound is not the decremented end iterator')


def run_stringcpp(rep, repo):
    mod = compile_ir(repo + '/igris/util/string.cpp', repo)
    rep.units.append('igris/util/string.cpp')
    op = std_opaque(mod)
    ext = dict(LIBC_EXT)
    ext.update({n: ext_std for n in op})
    it = Interp(mod, externals=ext, opaque=op)
    run = Run19(it, [BUF])
    it.call_hook = token_hook(run)

    def M(name, nparams, ptr_second=None):
        c = [f for f in mod.defined() if f.scope.startswith('igris::') and f.srcname == name and len(f.params) == nparams]
        if ptr_second is not None:
            c = [f for f in c if (f.params[2]['ty']['k'] == 'ptr') == ptr_second]
        if len(c) != 1:
            raise AnalysisBroken('igris::%s/%d: %d candidates' % (name, nparams, len(c)))
        return c[0].name
    run.string_ctors = string_ctors(mod)
    run.run(M('split', 3, False), FnSpec())
    run.run(M('split', 3, True), FnSpec(setup=cstr_args(2)))
    run.run(M('split_cmdargs', 2), FnSpec())
    run.run(M('dstring', 3), FnSpec(setup=sized_params((1, 2)), pre=['arg2 <= 1099511627776']))
    rep.add_absint('R-SPLIT', nice(mod, summarize(it, run)))
    join_rule(rep, mod, M('join', 3))
    # trim (static inline in string.h)
    modw = witness('w_c19_string.cpp', repo)
    rep.units.append('witness/w_c19_string.cpp -> igris/util/string.h (trim)')
    op = std_opaque(modw)
    ext = dict(LIBC_EXT)
    ext.update({n: ext_std for n in op})
    it = Interp(modw, externals=ext, opaque=op)
    run = Run19(it, [BUF])
    run.string_ctors = string_ctors(modw)
    # every std::string built from (pointer, length) copies a range inside the view; that the RESULT is non-empty and is exactly
    # [first non-space, last non-space] is decided by c19_content (R-TRIM-CONTENT) - a working copy of the whole view may be empty
    it.call_hook = token_hook(run, nonempty=False)
    c = [f for f in modw.defined() if f.scope.startswith('igris::') and f.srcname == 'trim']
    if len(c) != 1:
        raise AnalysisBroken('igris::trim not instantiated')
    run.run(c[0].name, FnSpec())
    rep.add_absint('R-TRIM', nice(modw, summarize(it, run)))


def run_replacecpp(rep, repo):
    mod = compile_ir(repo + '/igris/string/replace.cpp', repo)
    rep.units.append('igris/string/replace.cpp')
    sm = StdStringModel(mod)
    if len(sm.found) < 3:
        raise AnalysisBroken('igris::replace no longer uses data()/size()/append(ptr, n) of std::string')
    op = std_opaque(mod)
    ext = dict(LIBC_EXT)
    ext.update({n: ext_std for n in op})
    ext.update(sm.ext)
    it = Interp(mod, externals=ext, opaque=op)
    run = Run19(it, [])
    c = [f for f in mod.defined() if f.scope.startswith('igris::') and f.srcname == 'replace']
    if len(c) != 1:
        raise AnalysisBroken('igris::replace not found')
    def bind_sizes(run_, st, env, pnames, args, sps):
        # input = parameter 1, sub = parameter 2 (parameter 0 is the returned string)
        mi, ms = sm.model(st, args[1]), sm.model(st, args[2])
        if mi is None or ms is None:
            raise AnalysisBroken('igris::replace: string parameters are not plain references')
        env.bind('inlen', mi[1])
        env.bind('sublen', ms[1])
        st.ghost['nsearch'] = 0
    it.call_hook = count_searches
    # a pattern that can occur (1 <= |sub| <= |input|) is actually searched for: no shortcut returns the input unchanged
    run.run(c[0].name, FnSpec(setup=bind_sizes, post=[
        dict(name='pattern-that-fits-is-searched-for', when=['sublen >= 1', 'sublen <= inlen'], then=['ghost_nsearch >= 1'])]))
    it.call_hook = None
    rep.add_absint('R-REPLACE', nice(mod, summarize(it, run)))

    def sub_size(f):
        # sub.size(): the call of std::string::size() on the second string parameter
        for i in f.all_insts():
            if i.op in ('call', 'invoke') and i.callee in sm.ext and sm.ext[i.callee] == sm.size and \
                    i.ops and i.ops[0].k == 'arg' and i.ops[0].argno == 2 and \
                    any(u.op in ('call', 'invoke') and u.callee == 'igris_memmem' for u in f.users(i)):
                return ('i', i.id)
        raise AnalysisBroken('igris::replace: sub.size() argument of igris_memmem not found')
    # the step uses a second sub.size() call: both are the same pure value
    f = c[0]
    sizes = [i for i in f.all_insts() if i.op in ('call', 'invoke') and i.callee in sm.ext and
             sm.ext[i.callee] == sm.size and i.ops and i.ops[0].k == 'arg' and i.ops[0].argno == 2]
    canon = sub_size(f)
    import c19_flow
    orig = c19_flow.lin_of

    def lin_alias(fn, v, depth=0):
        if v.k == 'inst' and any(v.id == s_.id for s_ in sizes):
            return {canon: 1}, 0
        return orig(fn, v, depth)
    c19_flow.lin_of = lin_alias
    try:
        replace_cursor_rule(rep, mod, f.name, 'igris::replace', lambda fn: canon)
    finally:
        c19_flow.lin_of = orig
