"""C12 helper: the float renderer igris_f32toa (layout by abstract interpretation, digit loops as IR dataflow rules,
float -> integer conversions by interval analysis)."""
from c07_common import *
from c12_frange import FRange, V_of

MAXP = 10


# ----------------------------------------------------------------------------------------------
# renderer
# ----------------------------------------------------------------------------------------------
def ext_strcpy(interp, st, i, args):
    """strcpy(dst, "literal"): remembers which token was written where (ghost tok: 1 inf, 2 nan, 3 other)"""
    d, s = args[0], args[1]
    txt = None
    if isinstance(s, PtrVal) and s.obj is not None and str(s.obj).startswith('global:') and s.off.is_const():
        g = interp.mod.globals.get(str(s.obj)[7:])
        init = g.get('init') if g else None
        if g and g.get('const') and isinstance(init, list) and all(isinstance(x, int) for x in init):
            b = init[s.off.c:]
            if 0 in b:
                txt = ''.join(chr(x & 0xff) for x in b[:b.index(0)])
    st.ghost['tok'] = {'inf': 1, 'nan': 2}.get(txt, 3)
    if isinstance(d, PtrVal):
        st.ghost['tok_off'] = d.off
        st.ghost['tok_buf'] = 1 if d.obj == st.ghost.get('bufid') else 0
    return [(st, d)]


def rounders_rule(rep, mod, f, A):
    """R-ROUNDERS: the table indexed by the precision holds 0.5 * 10^-i for i = 0..MAX_PRECISION (each entry the
    correctly rounded double of the decimal literal) and is added to the magnitude before the integer part is taken"""
    gi, g = A['table_gep'], A['table']
    init = g.get('init')
    ok = g.get('const') and isinstance(init, list) and len(init) == MAXP + 1
    rep.inst('R-ROUNDERS', 'igris_f32toa', 'table is constant with %d entries' % (MAXP + 1), bool(ok), gi.where(),
             'rounding table has %s entries' % (len(init) if isinstance(init, list) else '?'))
    for k in range(MAXP + 1):
        want = float('5e-%d' % (k + 1))
        got = init[k] if isinstance(init, list) and k < len(init) else None
        rep.inst('R-ROUNDERS', 'igris_f32toa', 'rounders[%d] == 0.5e-%d' % (k, k), got == want, gi.where(),
                 'rounders[%d] is %r, half a unit of the %d-th fraction digit is %r' % (k, got, k, want),
                 fact={'index': k, 'value': got})
    # the rounder is added to the magnitude before the integer part is split off
    ok = False
    st_ = [A['int_conv'].ops[0]]
    seen = set()
    while st_:
        v = st_.pop()
        if v.k != 'inst' or v.id in seen:
            continue
        seen.add(v.id)
        i = f.insts[v.id]
        if i.op in ('phi', 'select'):
            st_.extend(i.ops[1:] if i.op == 'select' else i.ops)
        elif i.op == 'fadd':
            for o in i.ops:
                x = o
                while x.k == 'inst' and f.insts[x.id].op in ('fptrunc', 'fpext'):
                    x = f.insts[x.id].ops[0]
                if x.k == 'inst' and x.id == A['table_load'].id:
                    ok = True
    rep.inst('R-ROUNDERS', 'igris_f32toa', 'rounder is added before the integer part is taken', ok, gi.where(),
             'the value converted to the integer part does not include rounders[precision]')


def digit_cursor(f, L, stores):
    """the header phi of the digit loop through which the digits are stored (a pointer advanced once per iteration)"""
    out = []
    for sid in stores:
        p = f.insts[sid].ops[1]
        for _ in range(3):
            if p.k != 'inst':
                break
            i = f.insts[p.id]
            if i.op == 'phi' and i.block is L['header'] and i.ty.get('k') == 'ptr':
                out.append(i)
                break
            if i.op in ('getelementptr', 'bitcast'):
                p = i.ops[0]
            else:
                break
    if len(out) != 1:
        raise AnalysisBroken('%s: the integer digits are not stored through one loop-carried cursor (anchor changed)' % f.name)
    return out[0]


class InterpR(Interp7):
    """Interp7 for the renderer.
    (a) emitting loops: tracked[(function name, header block name)] = (loop, cursor phi, begin key, end key, peel); the
        cursor position on entry is stored as ghost <begin key>, the position after the last stored character at every
        exit as ghost <end key> (a head-tested loop leaves through its header, where a value noted by a hook in the body
        is not the one of the last iteration).  peel: the first iteration is executed separately (the digit loop is
        entered with a non-zero dividend, so it emits at least one digit: a fact the inferred invariant of a head-tested
        loop cannot express);
    (b) results of float -> integer conversions are constrained to the interval derived by c12_frange (conv_ranges);
    (c) path states that differ only in a constant picked by opaque floating-point comparisons are joined at the phi
        that merges the constants (plan_joins)."""

    def __init__(self, mod, externals=None, opaque=()):
        Interp7.__init__(self, mod, externals, opaque)
        self.tracked = {}
        self.joins = {}
        self.join_seen = set()
        self.conv_ranges = {}      # (function name, conversion inst id) -> (lo, hi) derived by the float analysis

    def cast(self, st, inst, a):
        r = Interp7.cast(self, st, inst, a)
        rg = self.conv_ranges.get((inst.fn.name, inst.id)) if inst.op in ('fptosi', 'fptoui') else None
        if rg is not None and isinstance(r, IntVal):
            x = r.s if r.s is not None else r.u
            if x is not None:
                st.cons.add_le(rg[0], x)
                st.cons.add_le(x, rg[1])
        return r

    # -- join of path states that differ only in a constant chosen by floating-point comparisons ----------------
    @staticmethod
    def const_tree(f, v, depth=0):
        """constants a value can take when it is a constant or a select tree over constants, else None"""
        if v.k == 'ci':
            return {v.ival}
        if v.k == 'inst' and depth < 4 and f.insts[v.id].op == 'select':
            a = InterpR.const_tree(f, f.insts[v.id].ops[1], depth + 1)
            b = InterpR.const_tree(f, f.insts[v.id].ops[2], depth + 1)
            if a is not None and b is not None:
                return a | b
        return None

    def plan_joins(self, fn):
        """integer phis outside loops that merge at least three constants: the states arriving over those edges are
        replaced by one state in which the phi is any value of the constants' range, provided the states are otherwise
        equal (a sound over-approximation that removes one path per constant)"""
        inloop = set()
        for L in fn.loops:
            inloop |= set(L['blocks'])
        for b in fn.blocks:
            if b in inloop:
                continue
            for ph in [i for i in b.insts if i.op == 'phi' and i.ty.get('k') == 'int' and i.bits > 1]:
                edges = {}
                for (bb, v) in ph.incoming:
                    cs = self.const_tree(fn, v)
                    if cs is not None:
                        w = ph.bits
                        edges[bb] = set(c - (1 << w) if c >= (1 << (w - 1)) else c for c in (x % (1 << w) for x in cs))
                # Edges are joined only with edges that were selected by the same INTEGER decisions (the choice among them
                # being made by opaque floating-point comparisons alone).  An edge selected by an integer test of its own
                # - e.g. the clamp `precision > MAX -> MAX` written as one arm of the same if/else chain as the automatic
                # precision ladder - keeps its exact constant, because that test relates it to the arguments.
                idom = fn.idom.get(b)

                def int_decisions(bb):
                    blk = fn.bmap[bb]
                    sig = []
                    for p_ in fn.blocks:
                        t = p_.term
                        if t.op != 'br' or 'f' not in t.d or t.ops[0].k != 'inst' or fn.insts[t.ops[0].id].op == 'fcmp':
                            continue
                        if not (idom is not None and fn.dominates_block(idom, p_) and fn.dominates_block(p_, blk)):
                            continue
                        st_, sf_ = fn.bmap[t.d['t']], fn.bmap[t.d['f']]
                        dt = fn.dominates_block(st_, blk) and st_.preds == [p_]
                        df = fn.dominates_block(sf_, blk) and sf_.preds == [p_]
                        if dt != df:
                            sig.append((p_.name, dt))
                    return frozenset(sig)
                groups = {}
                for bb in edges:
                    groups.setdefault(int_decisions(bb), []).append(bb)
                best = max(groups.values(), key=lambda g: len(set().union(*[edges[x] for x in g]))) if groups else []
                edges = {bb: edges[bb] for bb in best}
                allc = set().union(*edges.values()) if edges else set()
                if len(allc) >= 3 and (fn.name, b.name) not in self.joins:
                    dom = set(i.id for d in fn.blocks if d is not b and fn.dominates_block(d, b) for i in d.insts)
                    self.joins[(fn.name, b.name)] = dict(phi=ph, edges=set(edges), lo=min(allc), hi=max(allc), dom=dom)

    def fingerprint(self, fn, b, st, frm, plan):
        env = st.frames[-1]
        items = sorted((str(k), repr(v)) for k, v in env.items() if k[0] == 'a' or (k[0] == 'i' and k[1] in plan['dom']))
        phis = []
        for i in b.insts:
            if i.op == 'phi' and i.id != plan['phi'].id:
                for (bb, v) in i.incoming:
                    if bb == frm.name:
                        phis.append((i.id, repr(self.val(st, v, fn))))
        return (frozenset(st.cons.keys), frozenset(st.diseq), tuple(sorted((str(k), repr(v)) for k, v in st.mem.items())),
                tuple(sorted((str(k), repr(v)) for k, v in st.ghost.items())), tuple(items), tuple(phis),
                repr(st.frames[:-1]), tuple(sorted(str(k) for k in st.smashed)))

    def run_function(self, fn, st, args):
        if len(st.frames) == 1:
            self.join_seen = set()
        return Interp7.run_function(self, fn, st, args)

    def exec_block(self, fn, b, st, frm, rets, skip_phis=False):
        plan = self.joins.get((fn.name, b.name))
        if plan is None or frm is None or skip_phis or frm.name not in plan['edges']:
            return Interp7.exec_block(self, fn, b, st, frm, rets, skip_phis)
        fp = (fn.name, b.name, self.recording) + self.fingerprint(fn, b, st, frm, plan)
        if fp in self.join_seen:
            return []
        self.join_seen.add(fp)
        self.eval_phis(fn, b, st, frm)
        ph = plan['phi']
        x = st.fresh_int(ph.bits, True, 'join_' + str(ph.name or ph.id))
        st.cons.add_le(plan['lo'], x.s)
        st.cons.add_le(x.s, plan['hi'])
        st.env[('i', ph.id)] = x
        return Interp7.exec_block(self, fn, b, st, frm, rets, skip_phis=True)

    def track(self, fn, L, cur, begin, end, peel):
        self.tracked[(fn.name, L['header'].name)] = (L, cur, begin, end, peel)

    def run_loop(self, fn, L, st, frm, rets):
        t = self.tracked.get((fn.name, L['header'].name))
        if t is None or t[0] is not L:
            return Interp7.run_loop(self, fn, L, st, frm, rets)
        _, cur, begin, end, peel = t
        init = None
        for (bb, v) in cur.incoming:
            if bb == frm.name:
                init = self.val(st, v, fn)
        if not isinstance(init, PtrVal):
            raise AnalysisBroken('%s: cursor of the loop at %s has no pointer value on entry' % (fn.name, L['header'].name))
        st.ghost[begin] = init.off
        st.ghost.pop(end, None)
        if peel:
            self.eval_phis(fn, L['header'], st, frm)
            latches, out = self.run_region(fn, L, [(st, frm)], rets)
            out = list(out)
            for (T, lf) in latches:
                out.extend(Interp7.run_loop(self, fn, L, T, lf, rets))
        else:
            out = Interp7.run_loop(self, fn, L, st, frm, rets)
        # position after the last digit: the cursor itself when the loop is left before this iteration's store (head
        # test), the cursor's next value when it is left after the store (bottom test)
        stores = [i for blk in L['blocks'] for i in blk.insts if i.op == 'store' and i.ops[1].k == 'inst' and
                  i.ops[1].id == cur.id]
        nxt = [v for (bb, v) in cur.incoming if fn.bmap[bb] in L['blocks']]
        for (s, b, to) in out:
            after = [x for x in stores if fn.dominates_block(x.block, b)]
            v = iv(cur)
            if after:
                if len(nxt) != 1 or nxt[0].k != 'inst' or not fn.dominates_block(fn.insts[nxt[0].id].block, b):
                    raise AnalysisBroken('%s: cannot tell the cursor position after the last digit of the loop at %s'
                                         % (fn.name, L['header'].name))
                v = nxt[0]
            c = self.val(s, v, fn)
            if isinstance(c, PtrVal) and c.obj == init.obj:
                s.ghost[end] = c.off
            else:
                s.ghost.pop(end, None)
        return out


def strip_fp(f, v):
    while v.k == 'inst' and f.insts[v.id].op in ('fpext', 'fptrunc'):
        v = f.insts[v.id].ops[0]
    return v


def anchors(mod, f):
    """structural anchors of the renderer: the divide-by-ten digit loop, the reversal loop, the fraction loop, the two
    float -> integer conversions (integer part, fraction digit) and the rounding table"""
    name = f.name
    A = {}
    D = the_divloop(f)
    A['div'] = D
    IL = D['loop']
    A['int_loop'] = IL
    A['int_stores'] = set(i.id for b in IL['blocks'] for i in b.insts if i.op == 'store')
    FL = [L for L in f.loops if L is not IL and any(i.op in ('fptosi', 'fptoui') for b in L['blocks'] for i in b.insts)]
    RL = [L for L in f.loops if L is not IL and L not in FL and any(i.op == 'store' for b in L['blocks'] for i in b.insts)]
    if len(FL) != 1 or len(RL) != 1 or not A['int_stores']:
        raise AnalysisBroken('%s: fraction loop / reversal loop not found (anchor changed)' % name)
    A['frac_loop'], A['rev_loop'] = FL[0], RL[0]
    A['frac_stores'] = set(i.id for b in FL[0]['blocks'] for i in b.insts if i.op == 'store')
    fc = [i for b in FL[0]['blocks'] for i in b.insts if i.op in ('fptosi', 'fptoui')]
    init = [v for (bb, v) in D['phi'].incoming if f.bmap[bb] not in IL['blocks']]
    ic = strip(f, init[0]) if len(init) == 1 else None
    ic = f.insts[ic.id] if ic is not None and ic.k == 'inst' else None
    if len(fc) != 1 or not A['frac_stores'] or ic is None or ic.op not in ('fptosi', 'fptoui'):
        raise AnalysisBroken('%s: integer-part / fraction-digit conversion not found (anchor changed)' % name)
    A['int_conv'], A['frac_conv'] = ic, fc[0]
    A['int_cursor'] = digit_cursor(f, IL, A['int_stores'])
    A['frac_cursor'] = digit_cursor(f, FL[0], A['frac_stores'])
    tabs = []
    for i in f.all_insts():
        if i.op == 'getelementptr' and i.ops[0].k == 'global':
            g = mod.globals.get(i.ops[0].name)
            if g and g['ty'].get('elem') == 'double':
                tabs.append((i, g))
    if len(tabs) != 1:
        raise AnalysisBroken('%s: rounding table not found (%d candidates)' % (name, len(tabs)))
    A['table_gep'], A['table'] = tabs[0]
    lds = [u for u in f.users(A['table_gep']) if u.op == 'load']
    if len(lds) != 1:
        raise AnalysisBroken('%s: the rounding table is not read exactly once' % name)
    A['table_load'] = lds[0]
    return A


def cursor_step(f, L, cur, stores):
    """every digit store of the loop writes one byte exactly at the cursor and the cursor moves up by one per iteration"""
    for sid in stores:
        s = f.insts[sid]
        if s.d.get('store_size') != 1 or s.ops[1].k != 'inst' or s.ops[1].id != cur.id:
            return False, 'a digit is stored through %s, not at the loop-carried cursor' % ('%%%s' % s.ops[1].d.get('id'))
    if len(stores) != 1:
        return False, '%d stores per iteration' % len(stores)
    for (bb, v) in cur.incoming:
        if f.bmap[bb] in L['blocks']:
            g = f.insts[v.id] if v.k == 'inst' else None
            if g is None or g.op != 'getelementptr' or g.ops[0].k != 'inst' or g.ops[0].id != cur.id:
                return False, 'the cursor is not advanced from its own value'
            st_ = g.d['gep']['steps']
            if len(st_) != 1 or st_[0]['v'].get('k') != 'ci' or st_[0]['stride'] * st_[0]['v']['v'] != 1:
                return False, 'the cursor does not advance by exactly one byte per digit'
    return True, None


def cursor_dir(f, L, v):
    """+1 / -1 when the pointer v is a header phi of L (possibly moved by constant GEPs) that steps up / down by one per
    iteration, else 0"""
    for _ in range(6):
        if v.k != 'inst':
            return 0
        i = f.insts[v.id]
        if i.op == 'getelementptr' and all(s_.get('v', {}).get('k') == 'ci' for s_ in i.d['gep']['steps']):
            v = i.ops[0]
            continue
        if i.op == 'phi' and i.block is L['header']:
            steps = set()
            for (bb, o) in i.incoming:
                if f.bmap[bb] in L['blocks']:
                    d = 0
                    x = o
                    while x.k == 'inst' and f.insts[x.id].op == 'getelementptr' and \
                            all(s_.get('v', {}).get('k') == 'ci' for s_ in f.insts[x.id].d['gep']['steps']):
                        d += sum(s_['stride'] * s_['v']['v'] for s_ in f.insts[x.id].d['gep']['steps'])
                        x = f.insts[x.id].ops[0]
                    steps.add(d if x.k == 'inst' and x.id == i.id else None)
            if steps == {1}:
                return 1
            if steps == {-1}:
                return -1
        return 0
    return 0


def digits_rule(rep, f, A):
    """R-DIGITS: the two emitting loops are the textbook conversions (IR dataflow): integer part by repeated division
    by ten, fraction by repeated multiplication by ten"""
    name = f.name
    D = A['div']
    L, ph, div, rems = D['loop'], D['phi'], D['div'], D['rems']
    w = where(f)

    def inst(key, ok, detail=None, where_=None):
        rep.inst('R-DIGITS', name, key, bool(ok), where_ or w, None if ok else detail)
    # integer part
    ten = len(rems) == 1 and all(strip(f, x.ops[1]).k == 'ci' and strip(f, x.ops[1]).ival == 10 for x in rems + [div])
    inst('integer digits: digit = n % 10, n = n / 10', ten,
         'quotient divides by %s, %d remainder(s) by %s' % (root_desc(f, div.ops[1]), len(rems),
                                                            [root_desc(f, x.ops[1]) for x in rems]), div.where())
    ex = L['exits']
    ok = False
    det = 'the loop has %d exits' % len(ex)
    if len(ex) == 1:
        frm, to = ex[0]
        t = frm.term
        det = 'the loop condition is not a comparison of the quotient with zero'
        if t.op == 'br' and 'f' in t.d and t.ops[0].k == 'inst':
            c = f.insts[t.ops[0].id]
            if c.op == 'icmp' and c.pred in ('ne', 'eq') and any(o.k == 'ci' and o.ival == 0 for o in c.ops):
                x = [o for o in c.ops if not (o.k == 'ci')]
                stay = f.bmap[t.d['t']] if c.pred == 'ne' else f.bmap[t.d['f']]
                x = strip(f, x[0]) if x else None
                if x is not None and x.k == 'inst' and stay in L['blocks']:
                    ok = (x.id == div.id and L['header'] in frm.succs) or (x.id == ph.id and frm is L['header'])
                    det = 'the loop tests %%%d, which is neither the quotient nor the next dividend' % x.id
                else:
                    det = 'the loop continues on the wrong polarity of the zero test'
    inst('integer digits: loop continues exactly while the quotient is non-zero', ok, det)
    ok = False
    det = 'no digit store found'
    for sid in A['int_stores']:
        v = strip(f, f.insts[sid].ops[0])
        a = f.insts[v.id] if v.k == 'inst' else None
        ok = a is not None and a.op == 'add' and len(rems) == 1 and \
            sorted((strip(f, o).k, strip(f, o).ival if strip(f, o).k == 'ci' else strip(f, o).id) for o in a.ops) == \
            sorted([('ci', 48), ('inst', rems[0].id)])
        det = 'the stored character is not \'0\' + (n % 10)'
    inst('integer digits: character is \'0\' + remainder', ok, det)
    ok, det = cursor_step(f, L, A['int_cursor'], A['int_stores'])
    inst('integer digits: one byte per digit at a cursor moving up by one', ok, det)
    # fraction
    FL = A['frac_loop']
    fc = A['frac_conv']
    scaled = fc.ops[0]
    m = strip_fp(f, scaled)
    mi = f.insts[m.id] if m.k == 'inst' else None
    fph = None
    ok = False
    if mi is not None and mi.op == 'fmul':
        k = [o for o in mi.ops if o.k == 'cf']
        x = [strip_fp(f, o) for o in mi.ops if o.k != 'cf']
        if len(k) == 1 and float(k[0].d['v']) == 10.0 and len(x) == 1 and x[0].k == 'inst' and \
                f.insts[x[0].id].op == 'phi' and f.insts[x[0].id].block is FL['header']:
            fph = f.insts[x[0].id]
            ok = True
    inst('fraction digits: the remaining fraction is multiplied by 10 before each digit', ok,
         'the value converted to a digit is not 10 * (loop-carried fraction)', fc.where())
    ok = False
    for sid in A['frac_stores']:
        v = strip(f, f.insts[sid].ops[0])
        a = f.insts[v.id] if v.k == 'inst' else None
        ok = a is not None and a.op == 'add' and \
            sorted((strip(f, o).k, strip(f, o).ival if strip(f, o).k == 'ci' else strip(f, o).id) for o in a.ops) == \
            sorted([('ci', 48), ('inst', fc.id)])
    inst('fraction digits: character is \'0\' + integer part of the scaled fraction', ok,
         'the stored character is not \'0\' + (int)(10 * fraction)')
    fr = A['frange']
    ok = False
    det = 'the fraction is not loop-carried'
    if fph is not None:
        lat = [v for (bb, v) in fph.incoming if f.bmap[bb] in FL['blocks']]
        ini = [v for (bb, v) in fph.incoming if f.bmap[bb] not in FL['blocks']]
        li = f.insts[lat[0].id] if len(lat) == 1 and lat[0].k == 'inst' else None
        ok = li is not None and fr.frac_pattern(li) is fc and li.ops[0].key() == scaled.key()
        det = 'the next fraction is not (scaled fraction) - (its digit)'
        inst('fraction digits: the emitted digit is subtracted from the scaled fraction', ok, det)
        ii = f.insts[ini[0].id] if len(ini) == 1 and ini[0].k == 'inst' else None
        ok = ii is not None and fr.frac_pattern(ii) is A['int_conv']
        inst('fraction digits: the fraction starts as the rounded magnitude minus its integer part', ok,
             'the first fraction is not (value) - (float)(integer part of the same value)')
    else:
        inst('fraction digits: the emitted digit is subtracted from the scaled fraction', False, det)
        inst('fraction digits: the fraction starts as the rounded magnitude minus its integer part', False, det)
    ok, det = cursor_step(f, FL, A['frac_cursor'], A['frac_stores'])
    inst('fraction digits: one byte per digit at a cursor moving up by one', ok, det)


def fconv_rule(rep, f, A, rule='R-FCONV'):
    """R-FCONV: the operand of every float -> integer conversion is inside the range of the integer type (outside it the
    conversion is undefined: the digits computed from the result are arbitrary)"""
    fr = A['frange']
    out = {}
    for (role, i) in (('integer part', A['int_conv']), ('fraction digit', A['frac_conv'])):
        c = fr.conv(i)
        out[i.id] = c
        rep.inst(rule, f.name, '%s: the converted value fits the integer type' % role, c['ok'], i.where(),
                 None if c['ok'] else ('%s conversion (%s to i%d): %s' % (role, i.op, i.bits, c['why'])),
                 fact={'operand_range': [repr(c['range'][0]), repr(c['range'][1])], 'may_be_nan': c['range'][2],
                       'result_range': [c['lo'], c['hi']]})
    return out


def ftoa_check(rep, mod):
    fname = 'igris_f32toa'
    f = need(mod, fname)
    A = anchors(mod, f)
    A['frange'] = FRange(mod, f)
    IL, FL, RL = A['int_loop'], A['frac_loop'], A['rev_loop']
    int_stores, frac_stores = A['int_stores'], A['frac_stores']
    rstores = {}
    for b in RL['blocks']:
        ss = [i for i in b.insts if i.op == 'store']
        for i in ss:
            rstores[i.id] = ss
    convs = fconv_rule(rep, f, A)
    digits_rule(rep, f, A)
    it = InterpR(mod, externals={'strcpy': ext_strcpy, 'llvm.fabs.f32': ext_nop, 'llvm.fabs.f64': ext_nop})
    it.plan_joins(f)
    it.track(f, IL, A['int_cursor'], 'int_begin', 'int_end', True)
    it.track(f, FL, A['frac_cursor'], 'frac_begin', 'frac_end', False)
    # results of the conversions: the interval the float analysis derived, intersected with the type's range (a value
    # outside it is undefined behaviour, reported by R-FCONV at the conversion itself)
    for cid, c in convs.items():
        it.conv_ranges[(f.name, cid)] = (c['lo'], c['hi'])
    sink = Sink(rep, it)
    box = {}

    def setup(run, st, env, names, args, sps):
        box['buf'] = args[1].obj
        g = st.ghost
        g['bufid'] = args[1].obj
        for k in ('nminus', 'nplus', 'ndot', 'nnul', 'tok', 'nother'):
            g[k] = 0

    def sign_len(st):
        return st.ghost['nminus'] + st.ghost['nplus']

    def digit_char(st, v):
        vl = st.force_u(v) if isinstance(v, IntVal) else None
        return vl, vl is not None and st.cons.entails_le(48, vl) and st.cons.entails_le(vl, 57)

    def store_hook(interp, st, i, p, v):
        if i.fn is not f or not isinstance(p, PtrVal) or p.obj != box.get('buf'):
            return
        g = st.ghost
        w = i.where()
        c = v.const() if isinstance(v, IntVal) else None
        if i.id in int_stores:
            vl, ok = digit_char(st, v)
            sink.inst('R-FTOA', fname, 'integer-digit-is-0..9', ok, w,
                      'the character stored for an integer digit is %r: not provably in \'0\'..\'9\'%s'
                      % (vl, interp.explain(st, [vl]) if vl is not None else ''))
            ok = 'int_begin' in g and st.cons.entails_le(g['int_begin'], p.off) and \
                st.cons.entails_eq(g['int_begin'], sign_len(st))
            sink.inst('R-FTOA', fname, 'integer-digits-follow-the-sign', ok, w,
                      'digit stored at offset %r, digits begin at %r after %d sign character(s)'
                      % (p.off, g.get('int_begin'), sign_len(st)))
            return
        if i.id in rstores:
            if 'int_begin' not in g or 'int_end' not in g:
                sink.inst('R-FTOA', fname, 'reversal-stays-inside-the-integer-digits', False, w,
                          'the reversal runs before the integer digits are written')
                return
            lo, hi = g['int_begin'], g['int_end'] - 1
            ok = st.cons.entails_le(lo, p.off) and st.cons.entails_le(p.off, hi)
            sink.inst('R-FTOA', fname, 'reversal-stays-inside-the-integer-digits', ok, w,
                      'the reversal writes offset %r outside [%r, %r]%s' % (p.off, lo, hi, interp.explain(st, [p.off, hi])))
            src = i.ops[0]
            li = f.insts[src.id] if src.k == 'inst' else None
            ok = False
            det = 'the reversal stores a value that is not read from the buffer'
            if li is not None and li.op == 'load':
                q = interp.val(st, li.ops[0], f)
                if isinstance(q, PtrVal) and q.obj == p.obj:
                    ok = st.cons.entails_eq(p.off + q.off, lo + hi)
                    det = 'the reversal moves the byte at offset %r to offset %r: not mirror images in [%r, %r]' % (
                        q.off, p.off, lo, hi)
                    first = min(s_.idx for s_ in rstores[i.id])
                    if ok and not (li.block is i.block and li.idx < first):
                        ok = False
                        det = 'the swap reads a byte after a store of the same swap may have overwritten it'
            sink.inst('R-FTOA', fname, 'reversal-swaps-mirror-positions', ok, w, det)
            if li is not None and li.op == 'load' and isinstance(q, PtrVal):
                dp, dq = cursor_dir(f, RL, i.ops[1]), cursor_dir(f, RL, li.ops[0])
                if {dp, dq} != {1, -1}:
                    raise AnalysisBroken('%s: the reversal does not work with one ascending and one descending cursor' % fname)
                lo_, hi_ = (p.off, q.off) if dp == 1 else (q.off, p.off)
                ok = st.cons.entails_le(lo_, hi_)
                sink.inst('R-FTOA', fname, 'reversal-stops-when-the-cursors-meet', ok, w,
                          'a swap is executed with the ascending cursor at offset %r and the descending one at %r: once they '
                          'have crossed, pairs are swapped back%s' % (lo_, hi_, interp.explain(st, [lo_, hi_])))
            return
        if i.id in frac_stores:
            vl, ok = digit_char(st, v)
            sink.inst('R-FTOA', fname, 'fraction-digit-is-0..9', ok, w,
                      'the character stored for a fraction digit is %r: not provably in \'0\'..\'9\'%s'
                      % (vl, interp.explain(st, [vl]) if vl is not None else ''))
            ok = 'dot_off' in g and 'frac_begin' in g and st.cons.entails_le(g['frac_begin'], p.off) and \
                st.cons.entails_eq(g['dot_off'] + 1, g['frac_begin'])
            sink.inst('R-FTOA', fname, 'fraction-digits-follow-the-point', ok, w,
                      'fraction digit stored at offset %r, fraction begins at %r, decimal point at %r'
                      % (p.off, g.get('frac_begin'), g.get('dot_off')))
            return
        if c == 45 or c == 43:
            ok = st.cons.entails_eq(p.off, 0) and sign_len(st) == 0 and 'int_end' not in g
            sink.inst('R-FTOA', fname, 'sign-is-the-first-character', ok, w, 'sign stored at offset %r' % p.off)
            g['nminus' if c == 45 else 'nplus'] += 1
            return
        if c == 48:
            ok = st.cons.entails_eq(p.off, sign_len(st)) and 'int_end' not in g
            sink.inst('R-FTOA', fname, 'zero-integer-part-is-a-single-0', ok, w, '\'0\' stored at offset %r' % p.off)
            g['int_begin'] = p.off
            g['int_end'] = p.off + 1
            return
        if c == 46:
            ok = 'int_end' in g and st.cons.entails_eq(p.off, g['int_end']) and g['ndot'] == 0
            sink.inst('R-FTOA', fname, 'point-follows-the-integer-digits', ok, w,
                      '\'.\' stored at offset %r, integer digits end at %r' % (p.off, g.get('int_end')))
            g['dot_off'] = p.off
            g['ndot'] += 1
            return
        if c == 0:
            end = g.get('frac_end', g['dot_off'] + 1 if 'dot_off' in g else g.get('int_end'))
            ok = end is not None and st.cons.entails_eq(p.off, end)
            sink.inst('R-FTOA', fname, 'terminator-follows-the-last-character', ok, w,
                      'NUL stored at offset %r, text ends at %r' % (p.off, end))
            g['nul_off'] = p.off
            g['nnul'] += 1
            return
        g['nother'] += 1
        sink.inst('R-FTOA', fname, 'no-other-stores-into-the-buffer', False, w, 'unexpected store of %r at offset %r' % (v, p.off))
    it.store_hook = store_hook

    def round_hook(interp, st, i, fn):
        p = interp.val(st, i.ops[0], fn)
        if isinstance(p, PtrVal):
            st.ghost['round_off'] = p.off
    it.pre[(f.name, A['table_load'].id)] = round_hook

    fin = ['ghost_tok_post == 0']
    post = [
        dict(name='every path returns the buffer', then=['ret_arg == 1', 'ret_off == 0']),
        dict(name='inf: token directly after at most one sign', when=['ghost_tok_post == 1'],
             then=['ghost_tok_buf_post == 1', 'ghost_tok_off_post == ghost_nminus_post + ghost_nplus_post',
                   'ghost_nminus_post + ghost_nplus_post <= 1', 'ghost_nnul_post == 0', 'ghost_ndot_post == 0',
                   'ghost_nother_post == 0']),
        dict(name='nan: token directly after at most one sign', when=['ghost_tok_post == 2'],
             then=['ghost_tok_buf_post == 1', 'ghost_tok_off_post == ghost_nminus_post + ghost_nplus_post',
                   'ghost_nminus_post + ghost_nplus_post <= 1', 'ghost_nnul_post == 0', 'ghost_ndot_post == 0',
                   'ghost_nother_post == 0']),
        dict(name='tokens are inf/nan', then=['ghost_tok_post <= 2']),
        dict(name='finite: terminated, no plus sign, at least one integer digit', when=fin,
             then=['ghost_nnul_post == 1', 'ghost_nplus_post == 0', 'ghost_nminus_post <= 1', 'ghost_nother_post == 0',
                   'ghost_int_begin_post == ghost_nminus_post', 'ghost_int_end_post >= ghost_int_begin_post + 1']),
        dict(name='precision 1..10: exactly that many fraction digits', when=fin + ['arg2 >= 1', 'arg2 <= %d' % MAXP],
             then=['ghost_ndot_post == 1', 'ghost_nul_off_post == ghost_dot_off_post + 1 + arg2']),
        dict(name='precision > 10 is clamped to 10', when=fin + ['arg2 >= %d' % (MAXP + 1)],
             then=['ghost_ndot_post == 1', 'ghost_nul_off_post == ghost_dot_off_post + %d' % (MAXP + 1)]),
        dict(name='precision 0: no point, no fraction', when=fin + ['arg2 == 0'],
             then=['ghost_ndot_post == 0', 'ghost_nul_off_post == ghost_int_end_post']),
        dict(name='automatic precision: a point is followed by 1..%d fraction digits' % MAXP,
             when=fin + ['arg2 <= -1', 'ghost_ndot_post >= 1'],
             then=['ghost_ndot_post == 1', 'ghost_nul_off_post >= ghost_dot_off_post + 2',
                   'ghost_nul_off_post <= ghost_dot_off_post + %d' % (MAXP + 1)]),
        dict(name='automatic precision: without a point the text ends after the integer digits',
             when=fin + ['arg2 <= -1', 'ghost_ndot_post == 0'], then=['ghost_nul_off_post == ghost_int_end_post']),
        dict(name='rounding uses the table entry of the number of fraction digits printed',
             when=fin + ['ghost_ndot_post == 1'],
             then=['ghost_round_off_post == 8 * ghost_nul_off_post - 8 * ghost_dot_off_post - 8']),
    ]
    run = Run7(it, [])
    run.run(f.name, spec7(setup=setup, post=post))
    import_obligations(rep, 'R-FTOA', it, run)
    rounders_rule(rep, mod, f, A)
