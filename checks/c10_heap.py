"""C10, bare-metal heap (compat/mem/lin_malloc.cpp, lin_realloc.cpp).

Per-operation abstract interpretation on *symbolic heap layouts*.  A layout is a
sequence of segments between the heap start and the break:
    F  free chunk   (header + sz bytes, sz = 8*a symbolic, on the free list)
    L  opaque live region (one or more live chunks the operation must not touch,
       length 8*g symbolic, g >= 2)
    X  the live chunk handed to free()/realloc() (sz = 8*a symbolic)
All positions and sizes are linear forms over the symbols, so one layout stands
for every heap with that segment pattern.  The layouts enumerated are those
satisfying the allocator's own representation invariant INV (free list ordered by
address, no two free chunks adjacent, no free chunk touching the break, every
chunk size >= sizeof(nx) and a multiple of the header size), with a bounded number
of segments.  For every return state of malloc/free/realloc the resulting free
list, break and chunk headers are read back and compared with an independent
interval model (byte conservation: free bytes + returned block partition exactly
the bytes that were free / owned before), INV is re-checked, and every access must
stay inside the explicit chunks (or above the break) and be made with the system
lock held.

The engine's memory model only keeps cells at constant offsets; cells at symbolic
offsets of the arena are kept here (HeapInterp.load/store)."""
import itertools
from lin import Lin
from absval import State, PtrVal, IntVal, CondVal, NULL, TOP, mk_const
from absint import Interp
from irlib import AnalysisBroken
import absint

HDR = 8            # sizeof(size_t): chunk header, checked against the struct layout by R-HDR
MINSZ = 8          # sizeof(struct __freelist) - sizeof(size_t)
UNIT_MAX = 1 << 40

SHARED = ('global:__flp', 'global:__brkval', 'global:__allocation_counter')


class HeapInterp(Interp):
    """Interp + symbolic-offset cells for one arena object + lock/footprint monitors"""

    def __init__(self, mod, arena_id):
        super().__init__(mod, externals={
            'system_lock': self.ext_lock, 'system_unlock': self.ext_unlock,
            'critical_context_level': self.ext_level,
            'memcpy': self.ext_memcpy,
        })
        self.arena = arena_id
        self.viol = {}          # (kind, site) -> detail
        self.access_hook = self.on_access

    # ---- externals -------------------------------------------------------
    def ext_lock(self, interp, st, i, args):
        st.ghost['lock'] = st.ghost.get('lock', 0) + 1
        return [(st, None)]

    def ext_unlock(self, interp, st, i, args):
        if st.ghost.get('lock', 0) <= 0:
            self.violation('lock', i, 'system_unlock() without a matching system_lock()')
        st.ghost['lock'] = st.ghost.get('lock', 0) - 1
        return [(st, None)]

    def ext_level(self, interp, st, i, args):
        return [(st, st.fresh_int(32, True, 'critlevel'))]

    def ext_memcpy(self, interp, st, i, args):
        d, s, n = args[0], args[1], args[2]
        nl = st.force_u(n) if isinstance(n, IntVal) else None
        for p, kind in ((d, 'memcpy-dst'), (s, 'memcpy-src')):
            if isinstance(p, PtrVal) and p.obj == self.arena and nl is not None:
                self.arena_access(st, p, nl, i, kind)
        st.ghost['events'] = st.ghost.get('events', ()) + (('memcpy', d, s, nl),)
        if isinstance(d, PtrVal) and d.obj == self.arena and nl is not None:
            self.drop_overlapping(st, d.off, nl)
        return [(st, d)]

    # ---- monitors ----------------------------------------------------------
    def violation(self, kind, inst, detail):
        if self.recording > 0:
            return
        site = (inst.fn.name, inst.id) if inst is not None else None
        self.viol.setdefault((kind, site), '%s (%s)' % (detail, inst.where() if inst is not None else '?'))

    def on_access(self, interp, st, inst, p, size, kind):
        if isinstance(p, PtrVal) and p.obj in SHARED and st.ghost.get('lock', 0) < 1:
            self.violation('lock', inst, '%s of %s without the system lock held' % (kind, p.obj.split(':')[1]))

    def arena_access(self, st, p, size, inst, kind):
        if st.ghost.get('lock', 0) < 1:
            self.violation('lock', inst, '%s of heap memory without the system lock held' % kind)
        size = size if isinstance(size, Lin) else Lin(size)
        for (lo, hi, name) in st.ghost.get('regions', ()):
            if st.cons.entails_le(lo, p.off) and (hi is None or st.cons.entails_le(p.off + size, hi)):
                return
        self.violation('footprint', inst,
                       '%s of %r byte(s) at heap offset %r is not provably inside a chunk the operation owns '
                       '(explicit free chunks, the argument chunk, or the area above the break)%s'
                       % (kind, size, p.off, self.explain(st, [p.off])))

    # ---- symbolic-offset memory of the arena -----------------------------------
    def drop_overlapping(self, st, off, size):
        keep = []
        for c in st.ghost.get('cells', ()):
            (coff, csz, cv) = c
            if st.cons.entails_le(off + size, coff) or st.cons.entails_le(coff + csz, off):
                keep.append(c)
        st.ghost['cells'] = tuple(keep)

    def load(self, st, p, ty, inst):
        if isinstance(p, PtrVal) and p.obj == self.arena:
            size = ty.get('size')
            if ty.get('k') == 'int':
                size = (ty['bits'] + 7) // 8
            self.arena_access(st, p, size, inst, 'load')
            for (coff, csz, cv) in st.ghost.get('cells', ()):
                if csz == size and st.cons.entails_eq(p.off, coff):
                    return cv
            return self.top_of_type(st, ty, 'heapbyte')
        return super().load(st, p, ty, inst)

    def store(self, st, p, v, size, inst):
        if isinstance(p, PtrVal) and p.obj == self.arena:
            self.arena_access(st, p, size, inst, 'store')
            self.drop_overlapping(st, p.off, Lin(size))
            st.ghost['cells'] = st.ghost.get('cells', ()) + ((p.off, size, v),)
            st.ghost['events'] = st.ghost.get('events', ()) + (('store', p.off, size),)
            return
        return super().store(st, p, v, size, inst)

    # ---- loops: the free-list walks are decided by the layout, never abstracted ----
    def try_peel(self, fn, L, st, frm, rets, max_iter=8, max_states=64):
        header = L['header']
        cur = [(st, frm)]
        out = []
        for k in range(max_iter + 1):
            nxt = []
            for (s, f) in cur:
                self.eval_phis(fn, header, s, f)
                latches, exits = self.run_region(fn, L, [(s, f)], rets)
                nxt.extend(latches)
                out.extend(exits)
            if not nxt:
                return out
            if len(nxt) > max_states:
                break
            cur = nxt
        raise AnalysisBroken('free-list walk in %s not decided by the heap layout (loop at %s)'
                             % (fn.name, header.term.where()))


# --------------------------------------------------------------------------
# layouts
# --------------------------------------------------------------------------
class Seg:
    def __init__(self, kind, start, end, sz):
        self.kind, self.start, self.end, self.sz = kind, start, end, sz

    def __repr__(self):
        return self.kind


class Layout:
    """symbolic heap with the given segment pattern (low addresses first)"""

    def __init__(self, mod, pattern, virgin=False):
        self.mod = mod
        self.pattern = tuple(pattern)
        self.virgin = virgin
        st = State()
        self.st = st
        self.arena = st.new_obj('param', None, 'heap', {'desc': 'heap arena'})
        b0 = st.fresh_int(64, False, 'heapstart')
        st.cons.add_le(b0.u, UNIT_MAX)
        self.h0 = b0.u * 8
        off = self.h0
        self.segs = []
        for n, kind in enumerate(pattern):
            a = st.fresh_int(64, False, '%s%d' % (kind.lower(), n))
            st.cons.add_le(a.u, UNIT_MAX)
            if kind in ('F', 'X'):
                st.cons.add_le(1, a.u)
                sz = a.u * 8
                seg = Seg(kind, off, off + HDR + sz, sz)
            else:
                st.cons.add_le(2, a.u)
                seg = Seg(kind, off, off + a.u * 8, None)
            self.segs.append(seg)
            off = seg.end
        self.brk = off
        cells = []
        frees = [s for s in self.segs if s.kind == 'F']
        for k, s in enumerate(frees):
            cells.append((s.start, 8, IntVal(64, s.sz, None)))
            nx = PtrVal(self.arena.id, frees[k + 1].start) if k + 1 < len(frees) else NULL
            cells.append((s.start + 8, 8, nx))
        self.x = None
        for s in self.segs:
            if s.kind == 'X':
                self.x = s
                cells.append((s.start, 8, IntVal(64, s.sz, None)))
        st.ghost['cells'] = tuple(cells)
        st.ghost['regions'] = tuple((s.start, s.end, s.kind) for s in self.segs if s.kind in ('F', 'X')) + \
            ((self.brk, None, 'above-break'),)
        st.ghost['lock'] = 0
        st.ghost['events'] = ()
        st.mem[('global:__flp', 0, 8)] = PtrVal(self.arena.id, frees[0].start) if frees else NULL
        if virgin:
            if pattern:
                raise ValueError('virgin heap has no segments')
            st.mem[('global:__brkval', 0, 8)] = NULL
        else:
            st.mem[('global:__brkval', 0, 8)] = PtrVal(self.arena.id, self.brk)
        st.mem[('global:__malloc_heap_start', 0, 8)] = PtrVal(self.arena.id, self.h0)
        c = st.fresh_int(32, True, 'live')
        st.cons.add_le(0, c.s)
        st.cons.add_le(c.s, 1 << 20)
        self.counter = c.s
        st.mem[('global:__allocation_counter', 0, 4)] = c

    @property
    def name(self):
        if self.virgin:
            return '[virgin heap]'
        return '[' + ' '.join(self.pattern) + ']'

    def free_extents(self):
        return [(s.start, s.end) for s in self.segs if s.kind == 'F']

    def xptr(self):
        return PtrVal(self.arena.id, self.x.start + HDR)


def inv_ok(pattern):
    """segment patterns satisfying the allocator's representation invariant"""
    for a, b in zip(pattern, pattern[1:]):
        if a == b and a in ('F', 'L'):
            return False
    if pattern and pattern[-1] == 'F':
        return False
    return True


def patterns(max_free, need_x, max_len):
    out = []
    for n in range(0, max_len + 1):
        for p in itertools.product('FLX', repeat=n):
            if p.count('X') != (1 if need_x else 0) or p.count('F') > max_free or not inv_ok(p):
                continue
            out.append(p)
    return out


# --------------------------------------------------------------------------
# reading back a result state
# --------------------------------------------------------------------------
class Unreadable(Exception):
    pass


def cell(T, off, size=8):
    for (coff, csz, cv) in T.ghost.get('cells', ()):
        if csz == size and T.cons.entails_eq(off, coff):
            return cv
    return None


def as_u(T, v, what):
    if not isinstance(v, IntVal):
        raise Unreadable('%s is not a known integer (%r)' % (what, v))
    l = T.as_u(v)
    if l is None:
        l = T.force_u(v)
    return l


def read_freelist(T, arena):
    """[(start, sz)] following __flp through the nx fields"""
    p = T.mem.get(('global:__flp', 0, 8))
    out = []
    for _ in range(12):
        if not isinstance(p, PtrVal):
            raise Unreadable('free-list link is not a pointer (%r)' % (p,))
        if p.is_null:
            return out
        if p.obj != arena:
            raise Unreadable('free-list link points outside the heap')
        sz = as_u(T, cell(T, p.off), 'size field of the free chunk at %r' % p.off)
        out.append((p.off, sz))
        p = cell(T, p.off + 8)
        if p is None:
            raise Unreadable('nx field of the free chunk at %r is unknown' % out[-1][0])
    raise Unreadable('free list does not terminate')


def read_brk(T, arena, lay):
    p = T.mem.get(('global:__brkval', 0, 8))
    if isinstance(p, PtrVal) and p.is_null and lay.virgin:
        return lay.h0
    if not isinstance(p, PtrVal) or p.obj != arena:
        raise Unreadable('__brkval is not a heap address (%r)' % (p,))
    return p.off


def norm_intervals(T, ivs):
    """sort (by provable order), drop empty, merge touching; None when the order is not decided"""
    ivs = [(lo, hi) for (lo, hi) in ivs if not T.cons.entails_eq(lo, hi)]
    out = []
    for iv in ivs:
        pos = None
        for k in range(len(out) + 1):
            before_ok = all(T.cons.entails_le(o[1], iv[0]) for o in out[:k])
            after_ok = all(T.cons.entails_le(iv[1], o[0]) for o in out[k:])
            if before_ok and after_ok:
                pos = k
                break
        if pos is None:
            return None
        out.insert(pos, iv)
    merged = []
    for iv in out:
        if merged and T.cons.entails_eq(merged[-1][1], iv[0]):
            merged[-1] = (merged[-1][0], iv[1])
        else:
            merged.append(iv)
    return merged


def same_bytes(T, a, b):
    """do the interval sets a and b cover exactly the same bytes, each without overlap?"""
    na, nb = norm_intervals(T, a), norm_intervals(T, b)
    if na is None or nb is None:
        return False, 'blocks overlap or their order is not decided: before %r, after %r' % (a, b)
    if len(na) != len(nb):
        return False, 'byte ranges differ: owned before %r, accounted for after %r' % (na, nb)
    for x, y in zip(na, nb):
        if not (T.cons.entails_eq(x[0], y[0]) and T.cons.entails_eq(x[1], y[1])):
            return False, 'byte ranges differ: owned before %r, accounted for after %r' % (na, nb)
    return True, None


def aligned(T, lay, off, extra=()):
    """off - heapstart is a multiple of 8 (syntactically, after substituting exact quotients)"""
    d = off - lay.h0
    if d.divisible(8):
        return True
    for (a, q, k) in extra:
        # a == q*k known: replace a
        if T.cons.entails_eq(a, q * k) and len(a.t) == 1 and a.c == 0:
            sym, coef = next(iter(a.t.items()))
            if coef == 1 and d.subst({sym: q * k}).divisible(8):
                return True
    return False


def check_inv(T, lay, fl, brk):
    """INV on a read-back free list"""
    prev_end = None
    for (start, sz) in fl:
        if not T.cons.entails_le(MINSZ, sz):
            return 'free chunk at %r has size %r < %d: it cannot hold its link field' % (start, sz, MINSZ)
        if not T.cons.entails_le(lay.h0, start):
            return 'free chunk at %r lies below the heap start' % (start,)
        if prev_end is not None and not T.cons.entails_lt(prev_end, start):
            return ('free list not strictly address-ordered / adjacent free chunks not merged '
                    '(chunk at %r follows a chunk ending at %r)' % (start, prev_end))
        prev_end = start + HDR + sz
    if prev_end is not None and not T.cons.entails_lt(prev_end, brk):
        return 'topmost free chunk ends at %r, not provably below the break %r (should have been trimmed)' % (
            prev_end, brk)
    return None
