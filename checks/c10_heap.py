"""C10, bare-metal heap (compat/mem/lin_malloc.cpp, lin_realloc.cpp).

Per-operation abstract interpretation on *symbolic heap layouts*.  A layout is a
sequence of segments between the heap start and the break:
    F  free chunk   (header + sz bytes, sz = 8*a symbolic, on the free list)
    L  opaque live region (one or more live chunks the operation must not touch,
       length 8*g symbolic, g >= 2)
    X  the live chunk handed to free()/realloc() (sz = 8*a symbolic)
All positions and sizes are linear forms over the symbols, so one layout stands
for every heap with that segment pattern.  The layouts enumerated are those
satisfying the allocator's own representation invariant INV (free list ordered by
address, no two free chunks adjacent, no free chunk touching the break, every
chunk size >= sizeof(nx) and a multiple of the header size), with a bounded number
of segments.  For every return state of malloc/free/realloc the resulting free
list, break and chunk headers are read back and compared with an independent
interval model (byte conservation: free bytes + returned block partition exactly
the bytes that were free / owned before), INV is re-checked, and every access must
stay inside the explicit chunks (or above the break) and be made with the system
lock held.

The engine's memory model only keeps cells at constant offsets; cells at symbolic
offsets of the arena are kept here (HeapInterp.load/store)."""
import itertools
from lin import Lin
from absval import State, PtrVal, IntVal, CondVal, NULL, TOP, mk_const
from absint import Interp
from irlib import AnalysisBroken
import absint

HDR = 8            # sizeof(size_t): chunk header, checked against the struct layout by R-HDR
MINSZ = 8          # sizeof(struct __freelist) - sizeof(size_t)
UNIT_MAX = 1 << 40

SHARED = ('global:__flp', 'global:__brkval', 'global:__allocation_counter')


class SymInterp(Interp):
    """Interp + cells at symbolic offsets for the objects in sym_objs (kept in state.ghost['cells'] as
    (offset Lin, size, value); a load returns the cell provably at that offset, a store drops every
    cell not provably disjoint).  Loops must be decided by the configuration (never abstracted), since
    these cells are invisible to the engine's loop-head abstraction."""

    def __init__(self, mod, sym_objs, externals=None):
        super().__init__(mod, externals=externals)
        self.sym_objs = set(sym_objs)

    def sym_access(self, st, p, size, inst, kind):
        self.check_access(st, p, size, inst, kind)

    def drop_overlapping(self, st, obj, off, size):
        keep = []
        for c in st.ghost.get('cells', ()):
            (cobj, coff, csz, cv) = c
            if cobj != obj or st.cons.entails_le(off + size, coff) or st.cons.entails_le(coff + csz, off):
                keep.append(c)
        st.ghost['cells'] = tuple(keep)

    def load(self, st, p, ty, inst):
        if isinstance(p, PtrVal) and p.obj in self.sym_objs:
            size = ty.get('size')
            if ty.get('k') == 'int':
                size = (ty['bits'] + 7) // 8
            self.sym_access(st, p, size, inst, 'load')
            if st.bottom:
                return TOP
            for (cobj, coff, csz, cv) in st.ghost.get('cells', ()):
                if cobj == p.obj and csz == size and st.cons.entails_eq(p.off, coff):
                    return cv
            return self.top_of_type(st, ty, 'symcell')
        return super().load(st, p, ty, inst)

    def store(self, st, p, v, size, inst):
        if isinstance(p, PtrVal) and p.obj in self.sym_objs:
            self.sym_access(st, p, size, inst, 'store')
            if st.bottom:
                return
            self.drop_overlapping(st, p.obj, p.off, Lin(size))
            st.ghost['cells'] = st.ghost.get('cells', ()) + ((p.obj, p.off, size, v),)
            st.ghost['events'] = st.ghost.get('events', ()) + (('store', p.off, size),)
            return
        return super().store(st, p, v, size, inst)

    def try_peel(self, fn, L, st, frm, rets, max_iter=8, max_states=64):
        header = L['header']
        cur = [(st, frm)]
        out = []
        for k in range(max_iter + 1):
            nxt = []
            for (s, f) in cur:
                self.eval_phis(fn, header, s, f)
                latches, exits = self.run_region(fn, L, [(s, f)], rets)
                nxt.extend(latches)
                out.extend(exits)
            if not nxt:
                return out
            if len(nxt) > max_states:
                break
            cur = nxt
        # a loop that walks the free list loads link pointers; a loop that loads no pointer at all (a hand-written copy of the
        # payload, whose trip count is the symbolic block size) is not a walk of the list: not decidable here, and no verdict
        walks_links = any(i.op == 'load' and i.ty.get('k') == 'ptr' for b in L['blocks'] for i in b.insts)
        raise AnalysisBroken('loop in %s not %s (loop at %s)'
                             % (fn.name, 'decided by the configuration' if walks_links else
                                'a free-list walk and not bounded by the layout: a data loop over a symbolic size', header.term.where()))


def cell(T, off, size=8, obj=None):
    for (cobj, coff, csz, cv) in T.ghost.get('cells', ()):
        if (obj is None or cobj == obj) and csz == size and T.cons.entails_eq(off, coff):
            return cv
    return None


class HeapInterp(SymInterp):
    """SymInterp for one arena object + lock/footprint monitors"""

    def __init__(self, mod, arena_id):
        super().__init__(mod, [arena_id], externals={
            'system_lock': self.ext_lock, 'system_unlock': self.ext_unlock,
            'critical_context_level': self.ext_level,
            'memcpy': self.ext_memcpy,
        })
        self.arena = arena_id
        self.viol = {}          # (kind, site) -> detail
        self.access_hook = self.on_access

    # ---- externals -------------------------------------------------------
    def ext_lock(self, interp, st, i, args):
        st.ghost['lock'] = st.ghost.get('lock', 0) + 1
        return [(st, None)]

    def ext_unlock(self, interp, st, i, args):
        if st.ghost.get('lock', 0) <= 0:
            self.violation('lock', i, 'system_unlock() without a matching system_lock()')
        st.ghost['lock'] = st.ghost.get('lock', 0) - 1
        return [(st, None)]

    def ext_level(self, interp, st, i, args):
        return [(st, st.fresh_int(32, True, 'critlevel'))]

    def ext_memcpy(self, interp, st, i, args):
        d, s, n = args[0], args[1], args[2]
        nl = st.force_u(n) if isinstance(n, IntVal) else None
        for p, kind in ((d, 'memcpy-dst'), (s, 'memcpy-src')):
            if isinstance(p, PtrVal) and p.obj == self.arena and nl is not None:
                self.sym_access(st, p, nl, i, kind)
        st.ghost['events'] = st.ghost.get('events', ()) + (('memcpy', d, s, nl),)
        if isinstance(d, PtrVal) and d.obj == self.arena and nl is not None:
            self.drop_overlapping(st, d.obj, d.off, nl)
        return [(st, d)]

    # ---- monitors ----------------------------------------------------------
    def violation(self, kind, inst, detail):
        if self.recording > 0:
            return
        site = (inst.fn.name, inst.id) if inst is not None else None
        self.viol.setdefault((kind, site), '%s (%s)' % (detail, inst.where() if inst is not None else '?'))

    def on_access(self, interp, st, inst, p, size, kind):
        if isinstance(p, PtrVal) and p.obj in SHARED and st.ghost.get('lock', 0) < 1:
            self.violation('lock', inst, '%s of %s without the system lock held' % (kind, p.obj.split(':')[1]))

    def sym_access(self, st, p, size, inst, kind):
        if st.ghost.get('lock', 0) < 1:
            self.violation('lock', inst, '%s of heap memory without the system lock held' % kind)
        size = size if isinstance(size, Lin) else Lin(size)
        for (lo, hi, name) in st.ghost.get('regions', ()):
            if st.cons.entails_le(lo, p.off) and (hi is None or st.cons.entails_le(p.off + size, hi)):
                return
        self.violation('footprint', inst,
                       '%s of %r byte(s) at heap offset %r is not provably inside a chunk the operation owns '
                       '(explicit free chunks, the argument chunk, or the area above the break)%s'
                       % (kind, size, p.off, self.explain(st, [p.off])))


# --------------------------------------------------------------------------
# layouts
# --------------------------------------------------------------------------
class Seg:
    def __init__(self, kind, start, end, sz):
        self.kind, self.start, self.end, self.sz = kind, start, end, sz

    def __repr__(self):
        return self.kind


class Layout:
    """symbolic heap with the given segment pattern (low addresses first)"""

    def __init__(self, mod, pattern, virgin=False):
        self.mod = mod
        self.pattern = tuple(pattern)
        self.virgin = virgin
        st = State()
        self.st = st
        self.arena = st.new_obj('param', None, 'heap', {'desc': 'heap arena'})
        b0 = st.fresh_int(64, False, 'heapstart')
        st.cons.add_le(b0.u, UNIT_MAX)
        self.h0 = b0.u * 8
        off = self.h0
        self.segs = []
        for n, kind in enumerate(pattern):
            a = st.fresh_int(64, False, '%s%d' % (kind.lower(), n))
            st.cons.add_le(a.u, UNIT_MAX)
            if kind in ('F', 'X'):
                st.cons.add_le(1, a.u)
                sz = a.u * 8
                seg = Seg(kind, off, off + HDR + sz, sz)
            else:
                st.cons.add_le(2, a.u)
                seg = Seg(kind, off, off + a.u * 8, None)
            self.segs.append(seg)
            off = seg.end
        self.brk = off
        cells = []
        frees = [s for s in self.segs if s.kind == 'F']
        for k, s in enumerate(frees):
            cells.append((self.arena.id, s.start, 8, IntVal(64, s.sz, None)))
            nx = PtrVal(self.arena.id, frees[k + 1].start) if k + 1 < len(frees) else NULL
            cells.append((self.arena.id, s.start + 8, 8, nx))
        self.x = None
        for s in self.segs:
            if s.kind == 'X':
                self.x = s
                cells.append((self.arena.id, s.start, 8, IntVal(64, s.sz, None)))
        st.ghost['cells'] = tuple(cells)
        st.ghost['regions'] = tuple((s.start, s.end, s.kind) for s in self.segs if s.kind in ('F', 'X')) + \
            ((self.brk, None, 'above-break'),)
        st.ghost['lock'] = 0
        st.ghost['events'] = ()
        st.mem[('global:__flp', 0, 8)] = PtrVal(self.arena.id, frees[0].start) if frees else NULL
        if virgin:
            if pattern:
                raise ValueError('virgin heap has no segments')
            st.mem[('global:__brkval', 0, 8)] = NULL
        else:
            st.mem[('global:__brkval', 0, 8)] = PtrVal(self.arena.id, self.brk)
        st.mem[('global:__malloc_heap_start', 0, 8)] = PtrVal(self.arena.id, self.h0)
        c = st.fresh_int(32, True, 'live')
        st.cons.add_le(0, c.s)
        st.cons.add_le(c.s, 1 << 20)
        self.counter = c.s
        st.mem[('global:__allocation_counter', 0, 4)] = c

    @property
    def name(self):
        if self.virgin:
            return '[virgin heap]'
        return '[' + ' '.join(self.pattern) + ']'

    def free_extents(self):
        return [(s.start, s.end) for s in self.segs if s.kind == 'F']

    def xptr(self):
        return PtrVal(self.arena.id, self.x.start + HDR)


def inv_ok(pattern):
    """segment patterns satisfying the allocator's representation invariant"""
    for a, b in zip(pattern, pattern[1:]):
        if a == b and a in ('F', 'L'):
            return False
    if pattern and pattern[-1] == 'F':
        return False
    return True


def patterns(max_free, need_x, max_len):
    out = []
    for n in range(0, max_len + 1):
        for p in itertools.product('FLX', repeat=n):
            if p.count('X') != (1 if need_x else 0) or p.count('F') > max_free or not inv_ok(p):
                continue
            out.append(p)
    return out


# --------------------------------------------------------------------------
# reading back a result state
# --------------------------------------------------------------------------
class Unreadable(Exception):
    pass


def as_u(T, v, what):
    if not isinstance(v, IntVal):
        raise Unreadable('%s is not a known integer (%r)' % (what, v))
    l = T.as_u(v)
    if l is None:
        l = T.force_u(v)
    return l


def read_freelist(T, arena):
    """[(start, sz)] following __flp through the nx fields"""
    p = T.mem.get(('global:__flp', 0, 8))
    out = []
    for _ in range(12):
        if not isinstance(p, PtrVal):
            raise Unreadable('free-list link is not a pointer (%r)' % (p,))
        if p.is_null:
            return out
        if p.obj != arena:
            raise Unreadable('free-list link points outside the heap')
        sz = as_u(T, cell(T, p.off), 'size field of the free chunk at %r' % p.off)
        out.append((p.off, sz))
        p = cell(T, p.off + 8)
        if p is None:
            raise Unreadable('nx field of the free chunk at %r is unknown' % out[-1][0])
    raise Unreadable('free list does not terminate')


def read_brk(T, arena, lay):
    p = T.mem.get(('global:__brkval', 0, 8))
    if isinstance(p, PtrVal) and p.is_null and lay.virgin:
        return lay.h0
    if not isinstance(p, PtrVal) or p.obj != arena:
        raise Unreadable('__brkval is not a heap address (%r)' % (p,))
    return p.off


def norm_intervals(T, ivs):
    """sort (by provable order), drop empty, merge touching; None when the order is not decided"""
    ivs = [(lo, hi) for (lo, hi) in ivs if not T.cons.entails_eq(lo, hi)]
    out = []
    for iv in ivs:
        pos = None
        for k in range(len(out) + 1):
            before_ok = all(T.cons.entails_le(o[1], iv[0]) for o in out[:k])
            after_ok = all(T.cons.entails_le(iv[1], o[0]) for o in out[k:])
            if before_ok and after_ok:
                pos = k
                break
        if pos is None:
            return None
        out.insert(pos, iv)
    merged = []
    for iv in out:
        if merged and T.cons.entails_eq(merged[-1][1], iv[0]):
            merged[-1] = (merged[-1][0], iv[1])
        else:
            merged.append(iv)
    return merged


def same_bytes(T, a, b):
    """do the interval sets a and b cover exactly the same bytes, each without overlap?"""
    na, nb = norm_intervals(T, a), norm_intervals(T, b)
    if na is None or nb is None:
        return False, 'blocks overlap or their order is not decided: before %r, after %r' % (a, b)
    if len(na) != len(nb):
        return False, 'byte ranges differ: owned before %r, accounted for after %r' % (na, nb)
    for x, y in zip(na, nb):
        if not (T.cons.entails_eq(x[0], y[0]) and T.cons.entails_eq(x[1], y[1])):
            return False, 'byte ranges differ: owned before %r, accounted for after %r' % (na, nb)
    return True, None


def aligned(T, lay, off, extra=()):
    """off - heapstart is a multiple of 8 (syntactically, after substituting exact quotients)"""
    d = off - lay.h0
    if d.divisible(8):
        return True
    for (a, q, k) in extra:
        # a == q*k known: replace a
        if T.cons.entails_eq(a, q * k) and len(a.t) == 1 and a.c == 0:
            sym, coef = next(iter(a.t.items()))
            if coef == 1 and d.subst({sym: q * k}).divisible(8):
                return True
    return False


def check_inv(T, lay, fl, brk):
    """INV on a read-back free list"""
    prev_end = None
    for (start, sz) in fl:
        if not T.cons.entails_le(MINSZ, sz):
            return 'free chunk at %r has size %r < %d: it cannot hold its link field' % (start, sz, MINSZ)
        if not T.cons.entails_le(lay.h0, start):
            return 'free chunk at %r lies below the heap start' % (start,)
        if prev_end is not None and not T.cons.entails_lt(prev_end, start):
            return ('free list not strictly address-ordered / adjacent free chunks not merged '
                    '(chunk at %r follows a chunk ending at %r)' % (start, prev_end))
        prev_end = start + HDR + sz
    if prev_end is not None and not T.cons.entails_lt(prev_end, brk):
        return 'topmost free chunk ends at %r, not provably below the break %r (should have been trimmed)' % (
            prev_end, brk)
    return None


# --------------------------------------------------------------------------
# per-operation verdicts
# --------------------------------------------------------------------------
REASONABLE = 1 << 40     # requests up to 2^40 bytes: all clauses; above: only the size/NULL clauses
HUGE = 1 << 62           # a request this large can never be satisfied: NULL is the only correct answer


class Results:
    """(function, clause) -> [(layout, ok, detail)]"""

    def __init__(self):
        self.r = {}
        self.states = 0
        self.layouts = 0

    def add(self, fn, clause, layout, ok, detail=None):
        self.r.setdefault((fn, clause), []).append((layout, bool(ok), None if ok else detail))


def counter_of(T):
    v = T.mem.get(('global:__allocation_counter', 0, 4))
    if not isinstance(v, IntVal):
        return None
    return T.as_s(v) if T.as_s(v) is not None else T.as_u(v)


def unchanged(T, lay):
    """free list, break and live counter as on entry"""
    try:
        fl = read_freelist(T, lay.arena.id)
        p = T.mem.get(('global:__brkval', 0, 8))
    except Unreadable as e:
        return str(e)
    want = [(s.start, s.sz) for s in lay.segs if s.kind == 'F']
    if len(fl) != len(want) or not all(T.cons.entails_eq(a[0], b[0]) and T.cons.entails_eq(a[1], b[1])
                                       for a, b in zip(fl, want)):
        return 'free list changed: %r' % (fl,)
    if lay.virgin:
        if not (isinstance(p, PtrVal) and (p.is_null or T.cons.entails_eq(p.off, lay.h0))):
            return 'break changed'
    elif not (isinstance(p, PtrVal) and p.obj == lay.arena.id and T.cons.entails_eq(p.off, lay.brk)):
        return 'break changed'
    c = counter_of(T)
    if c is None or not T.cons.entails_eq(c, lay.counter):
        return 'live-block counter changed'
    return None


def quot_of(T, ln):
    q = T.conv.get(('udivrem', 64, ln.key(), 64))
    return [(ln, q, 64)] if q is not None else []


def bounded(T, ln):
    T2 = T.fork()
    T2.cons.add_le(ln, REASONABLE)
    return None if T2.cons.unsat() else T2


def check_alloc_state(res, fn, pre, lay, T, rv, ln, counter_delta=1):
    """clauses of a fresh allocation (malloc, realloc(NULL, n)) at one return state"""
    L = lay.name
    arena = lay.arena.id

    def R(clause, ok, detail=None):
        res.add(fn, pre + clause, L, ok, detail)
    R('lock-released-at-return', T.ghost.get('lock', 0) == 0, 'system lock depth %r at return' % T.ghost.get('lock'))
    if isinstance(rv, PtrVal) and rv.is_null:
        R('null-only-for-unsatisfiable-request', T.cons.entails_le(HUGE, ln),
          'NULL returned although the request is not provably huge (>= 2^62 bytes)' + explain(T, ln))
        u = unchanged(T, lay)
        R('failed-request-leaves-heap-unchanged', u is None, u)
        return
    if not (isinstance(rv, PtrVal) and rv.obj == arena):
        R('returns-heap-address', False, 'returned value %r is not an address inside the heap' % (rv,))
        return
    hdr = rv.off - HDR
    try:
        sz = as_u(T, cell(T, hdr), 'size field of the returned chunk')
    except Unreadable as e:
        R('returned-chunk-has-size-header', False, str(e))
        return
    R('granted-size>=requested-size', T.cons.entails_le(ln, sz),
      'block of %r bytes returned for a request of %r bytes%s' % (sz, ln, explain(T, ln, sz)))
    R('min-chunk-size', T.cons.entails_le(MINSZ, sz),
      'returned chunk has size %r < %d: free() will write its link field past the block' % (sz, MINSZ))
    T2 = bounded(T, ln)
    if T2 is None:
        return
    res.states += 1
    R('payload-aligned', aligned(T2, lay, rv.off, quot_of(T2, ln)) and aligned(T2, lay, sz + lay.h0, quot_of(T2, ln)),
      'returned address %r / size %r not a multiple of the header size above the heap start' % (rv.off, sz))
    try:
        fl = read_freelist(T2, arena)
        brk = read_brk(T2, arena, lay)
    except Unreadable as e:
        R('freelist-readable', False, str(e))
        return
    B = lay.brk
    before = lay.free_extents()
    grown = not T2.cons.entails_eq(brk, B)
    if grown:
        before = before + [(B, brk)]
    after = [(s, s + HDR + z) for (s, z) in fl] + [(hdr, rv.off + sz)]
    ok, d = same_bytes(T2, before, after)
    R('bytes-conserved', ok, d)
    inv = check_inv(T2, lay, fl, brk)
    R('freelist-invariant', inv is None, inv)
    R('break', (not grown) or (T2.cons.entails_eq(hdr, B) and T2.cons.entails_eq(brk, rv.off + sz)),
      'break moved from %r to %r, returned chunk is [%r, %r)' % (B, brk, hdr, rv.off + sz))
    if grown:
        fits = [s for s in lay.segs if s.kind == 'F' and not T2.cons.entails_lt(s.sz, sz)]
        R('reuse-before-grow', not fits, 'break raised although the free chunk at %r (size %r) may fit %r bytes'
          % (fits[0].start if fits else None, fits[0].sz if fits else None, sz))
    c = counter_of(T2)
    R('live-counter', c is not None and T2.cons.entails_eq(c, lay.counter + counter_delta),
      'live-block counter %r after the call, %r + %d expected' % (c, lay.counter, counter_delta))


def explain(T, *lins):
    syms = set()
    for l in lins:
        syms.update(l.t.keys())
    from lin import cone
    c = [l for l in cone(T.cons.items, syms) if len(l.t) <= 3]
    return ' ; path: ' + ', '.join('%r<=0' % l for l in c[:10])


def attach_monitors(res, fn, pre, lay, it):
    fp = [d for (k, s), d in it.viol.items() if k == 'footprint']
    lk = [d for (k, s), d in it.viol.items() if k == 'lock']
    res.add(fn, pre + 'footprint', lay.name, not fp, fp[0] if fp else None)
    res.add(fn, pre + 'lock-held-at-every-heap-access', lay.name, not lk, lk[0] if lk else None)
    if it.unknown_calls:
        raise AnalysisBroken('%s calls functions without a summary: %s' % (fn, sorted(it.unknown_calls)))


def interpret(res, it, f, st, args, fn, pre, lay):
    """run the operation on the layout; a free-list walk that the layout does not decide (cycle, link into
    unmodelled memory) is a verdict against the operation, not an analysis failure: on a heap satisfying the
    invariant every walk visits the explicit chunks only"""
    try:
        rets = it.run_function(f, st, args)
    except AnalysisBroken as e:
        if 'not decided by the configuration' not in str(e) and 'path explosion' not in str(e):
            raise
        res.add(fn, pre + 'freelist-walk-terminates', lay.name, False,
                'the free-list walk does not terminate on the explicit chunks of this layout (cyclic or wild '
                'link after an earlier step of the operation): %s' % e)
        return None
    res.add(fn, pre + 'freelist-walk-terminates', lay.name, True)
    return rets


def run_malloc(res, mod, pattern, virgin=False, fn='malloc', pre='', via_realloc=False):
    lay = Layout(mod, pattern, virgin)
    it = HeapInterp(mod, lay.arena.id)
    st = lay.st
    ln = st.fresh_int(64, False, 'len')
    f = mod.fn('realloc' if via_realloc else 'malloc')
    if f is None or f.decl:
        raise AnalysisBroken('heap function %s not found (anchor vanished)' % fn)
    rets = interpret(res, it, f, st, ([NULL] if via_realloc else []) + [ln], fn, pre, lay)
    res.layouts += 1
    if rets is None:
        return
    if not rets:
        res.add(fn, pre + 'returns', lay.name, False, 'no feasible return')
    for (T, rv) in rets:
        check_alloc_state(res, fn, pre, lay, T, rv, ln.u)
    attach_monitors(res, fn, pre, lay, it)


def model_free(lay):
    """independent interval model of free(X): X becomes free, touching free extents merge, a free
    extent touching the break is given back"""
    ext = []
    prev_free = False
    for s in lay.segs:
        if s.kind in ('F', 'X'):
            if prev_free:
                ext[-1] = (ext[-1][0], s.end)
            else:
                ext.append((s.start, s.end))
            prev_free = True
        else:
            prev_free = False
    brk = lay.brk
    if lay.segs and lay.segs[-1].kind in ('F', 'X'):
        brk = ext.pop()[0]
    return ext, brk


def run_free(res, mod, pattern):
    lay = Layout(mod, pattern)
    it = HeapInterp(mod, lay.arena.id)
    f = mod.fn('free')
    if f is None or f.decl:
        raise AnalysisBroken('heap function free not found (anchor vanished)')
    rets = interpret(res, it, f, lay.st, [lay.xptr()], 'free', '', lay)
    res.layouts += 1
    if rets is None:
        return
    L = lay.name
    want, wbrk = model_free(lay)
    if not rets:
        res.add('free', 'returns', L, False, 'no feasible return')
    for (T, rv) in rets:
        res.states += 1
        res.add('free', 'lock-released-at-return', L, T.ghost.get('lock', 0) == 0,
                'system lock depth %r at return' % T.ghost.get('lock'))
        try:
            fl = read_freelist(T, lay.arena.id)
            brk = read_brk(T, lay.arena.id, lay)
        except Unreadable as e:
            res.add('free', 'freelist-readable', L, False, str(e))
            continue
        got = [(s, s + HDR + z) for (s, z) in fl]
        ok = len(got) == len(want) and all(T.cons.entails_eq(a[0], b[0]) and T.cons.entails_eq(a[1], b[1])
                                           for a, b in zip(got, want))
        res.add('free', 'freelist-equals-merge-model', L, ok,
                'free list after free() is %r, the interval model (insert, merge neighbours, trim top) gives %r'
                % (got, want))
        res.add('free', 'break-lowered-iff-top-chunk-free', L, T.cons.entails_eq(brk, wbrk),
                'break is %r after free(), the model gives %r' % (brk, wbrk))
        inv = check_inv(T, lay, fl, brk)
        res.add('free', 'freelist-invariant', L, inv is None, inv)
        c = counter_of(T)
        res.add('free', 'live-counter', L, c is not None and T.cons.entails_eq(c, lay.counter - 1),
                'live-block counter %r after free(), %r - 1 expected' % (c, lay.counter))
    attach_monitors(res, 'free', '', lay, it)


def run_free_null(res, mod, pattern):
    lay = Layout(mod, pattern)
    it = HeapInterp(mod, lay.arena.id)
    rets = interpret(res, it, mod.fn('free'), lay.st, [NULL], 'free', 'free(NULL):', lay)
    res.layouts += 1
    if rets is None:
        return
    for (T, rv) in rets:
        u = unchanged(T, lay)
        res.add('free', 'free(NULL)-is-a-no-op', lay.name, u is None, u)
    if not rets:
        res.add('free', 'free(NULL)-is-a-no-op', lay.name, False, 'no feasible return')
    attach_monitors(res, 'free', 'free(NULL):', lay, it)


def run_realloc(res, mod, pattern):
    lay = Layout(mod, pattern)
    it = HeapInterp(mod, lay.arena.id)
    st = lay.st
    ln = st.fresh_int(64, False, 'len')
    f = mod.fn('realloc')
    if f is None or f.decl:
        raise AnalysisBroken('heap function realloc not found (anchor vanished)')
    rets = interpret(res, it, f, st, [lay.xptr(), ln], 'realloc', '', lay)
    res.layouts += 1
    if rets is None:
        return
    L = lay.name
    x = lay.x
    arena = lay.arena.id
    ln = ln.u

    def R(clause, ok, detail=None):
        res.add('realloc', clause, L, ok, detail)
    if not rets:
        R('returns', False, 'no feasible return')
    for (T, rv) in rets:
        R('lock-released-at-return', T.ghost.get('lock', 0) == 0, 'system lock depth %r at return' % T.ghost.get('lock'))
        if isinstance(rv, PtrVal) and rv.is_null:
            R('null-only-for-unsatisfiable-request', T.cons.entails_le(HUGE, ln),
              'NULL returned although the request is not provably huge (>= 2^62 bytes)' + explain(T, ln))
            u = unchanged(T, lay)
            if u is None:
                xs = cell(T, x.start)
                if not (isinstance(xs, IntVal) and T.as_u(xs) is not None and T.cons.entails_eq(T.as_u(xs), x.sz)):
                    u = 'size header of the block changed'
            R('failed-request-leaves-heap-unchanged', u is None, u)
            continue
        if not (isinstance(rv, PtrVal) and rv.obj == arena):
            R('returns-heap-address', False, 'returned value %r is not an address inside the heap' % (rv,))
            continue
        hdr = rv.off - HDR
        try:
            sz = as_u(T, cell(T, hdr), 'size field of the returned chunk')
        except Unreadable as e:
            R('returned-chunk-has-size-header', False, str(e))
            continue
        R('granted-size>=requested-size', T.cons.entails_le(ln, sz),
          'block of %r bytes returned for a request of %r bytes%s' % (sz, ln, explain(T, ln, sz)))
        R('min-chunk-size', T.cons.entails_le(MINSZ, sz),
          'returned chunk has size %r < %d: a later free() writes its link field past the block, into the '
          'header of the following chunk%s' % (sz, MINSZ, explain(T, ln, sz)))
        T2 = bounded(T, ln)
        if T2 is None:
            continue
        res.states += 1
        q = quot_of(T2, ln)
        R('payload-aligned', aligned(T2, lay, rv.off, q) and aligned(T2, lay, sz + lay.h0, q),
          'returned address %r / size %r not a multiple of the header size above the heap start' % (rv.off, sz))
        try:
            fl = read_freelist(T2, arena)
            brk = read_brk(T2, arena, lay)
        except Unreadable as e:
            R('freelist-readable', False, str(e))
            continue
        B = lay.brk
        before = lay.free_extents() + [(x.start, x.end)]
        after = [(s, s + HDR + z) for (s, z) in fl] + [(hdr, rv.off + sz)]
        if T2.cons.entails_le(B, brk):
            before.append((B, brk))
        elif T2.cons.entails_le(brk, B):
            after.append((brk, B))
        else:
            R('break-decided', False, 'direction of the break move %r -> %r not decided' % (B, brk))
            continue
        ok, d = same_bytes(T2, before, after)
        R('bytes-conserved', ok, d)
        inv = check_inv(T2, lay, fl, brk)
        R('freelist-invariant', inv is None, inv)
        events = T2.ghost.get('events', ())
        px = x.start + HDR
        inplace = T2.cons.entails_eq(rv.off, px)
        c = counter_of(T2)
        R('live-counter', c is not None and T2.cons.entails_eq(c, lay.counter),
          'live-block counter %r after realloc() of a live block, %r expected (one block before, one after)'
          % (c, lay.counter))
        if inplace:
            bad = None
            for ev in events:
                if ev[0] == 'memcpy':
                    bad = 'memcpy during an in-place realloc'
                    break
                (_, off, size) = ev
                if not (T2.cons.entails_le(off + size, px) or T2.cons.entails_le(px + x.sz, off)
                        or T2.cons.entails_le(px + sz, off)):
                    bad = 'store of %d bytes at %r inside the preserved prefix [%r, +min(%r, %r))' % (size, off, px, x.sz, sz)
                    break
            R('prefix-preserved-in-place', bad is None, bad)
        else:
            moved = T2.cons.entails_le(x.end, hdr) or T2.cons.entails_le(rv.off + sz, x.start)
            bad = None
            if not moved:
                bad = 'returned block [%r, %r) neither the old block nor disjoint from it' % (hdr, rv.off + sz)
            copies = [e for e in events if e[0] == 'memcpy']
            if bad is None and not copies:
                # the payload is moved by something other than a memcpy call (memmove, a copy loop, a helper): that the first
                # min(old, new) bytes arrive is decided by byte identity in c10_content (R-HEAP-HIST:prefix); this clause describes
                # the memcpy form only
                continue
            if bad is None and len(copies) != 1:
                bad = '%d memcpy calls on the move path' % len(copies)
            if bad is None:
                (_, d_, s_, n_) = copies[0]
                if not (isinstance(d_, PtrVal) and d_.obj == arena and T2.cons.entails_eq(d_.off, rv.off)
                        and isinstance(s_, PtrVal) and s_.obj == arena and T2.cons.entails_eq(s_.off, px)
                        and n_ is not None and T2.cons.entails_eq(n_, x.sz)):
                    bad = 'memcpy(%r, %r, %r) is not (new block, old block, old size %r)' % (d_, s_, n_, x.sz)
                elif not T2.cons.entails_le(x.sz, sz):
                    bad = 'old size %r copied into a block of %r bytes' % (x.sz, sz)
            if bad is None:
                seen_copy = False
                for ev in events:
                    if ev[0] == 'memcpy':
                        seen_copy = True
                        continue
                    (_, off, size) = ev
                    lo, hi = (rv.off, rv.off + x.sz) if seen_copy else (px, px + x.sz)
                    if not (T2.cons.entails_le(off + size, lo) or T2.cons.entails_le(hi, off)):
                        bad = ('store of %d bytes at %r into the %s before/after the copy'
                               % (size, off, 'copied data' if seen_copy else 'old block'))
                        break
            R('prefix-preserved-on-move', bad is None, bad)
    attach_monitors(res, 'realloc', '', lay, it)
