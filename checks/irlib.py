"""irlib: load the JSON rendering of LLVM IR produced by bin/irdump and offer
CFG utilities (preds/succs, dominators, post-dominators, natural loops,
def-use), plus the front-end drivers that turn /repo sources (or /verif
witness units that include /repo headers) into that JSON on every run.

Nothing here executes igris code; clang is used as a parser/lowering only.
"""
import json
import os
import shutil
import re
import subprocess
import sys
import tempfile
import atexit
from concurrent.futures import ThreadPoolExecutor

VERIF = os.path.dirname(os.path.dirname(os.path.abspath(__file__)))
IRDUMP = os.path.join(VERIF, 'bin', 'irdump')


def tyname(s):
    """'%"class.igris::ring"*' -> 'class.igris::ring'"""
    return s.rstrip('*').lstrip('%').strip('"')


class AnalysisBroken(Exception):
    """Raised when the analysis cannot be carried out (anchor vanished, tool
    failure, unsupported construct).  Mapped to exit code 2, never to a pass
    and never to a VIOLATION."""


# --------------------------------------------------------------------------
# Values
# --------------------------------------------------------------------------
class V:
    """Operand value. kind in: ci, cf, null, undef, func, global, arg, bb,
    inst, cexpr, cagg, meta, asm, unknown"""
    __slots__ = ('k', 'd')

    def __init__(self, d):
        self.k = d['k']
        self.d = d

    @property
    def is_const_int(self):
        return self.k == 'ci'

    @property
    def ival(self):
        if 'v' in self.d:
            return self.d['v']
        return int(self.d['big'])

    @property
    def uval(self):
        if 'u' in self.d:
            return int(self.d['u'])
        v = int(self.d['big'])
        return v if v >= 0 else v + (1 << self.d['w'])

    @property
    def width(self):
        return self.d.get('w')

    @property
    def id(self):
        return self.d['id']

    @property
    def name(self):
        return self.d.get('name')

    @property
    def argno(self):
        return self.d['i']

    def key(self):
        if self.k == 'inst':
            return ('i', self.d['id'])
        if self.k == 'arg':
            return ('a', self.d['i'])
        if self.k == 'ci':
            return ('c', self.d['w'], self.ival)
        if self.k in ('global', 'func'):
            return ('g', self.d['name'])
        if self.k == 'null':
            return ('null',)
        return (self.k, id(self.d))

    def __repr__(self):
        if self.k == 'ci':
            return str(self.ival)
        if self.k == 'inst':
            return '%%%d' % self.d['id']
        if self.k == 'arg':
            return 'arg%d' % self.d['i']
        if self.k in ('global', 'func'):
            return '@' + self.d['name']
        return self.k


class Inst:
    __slots__ = ('id', 'op', 'd', 'ops', 'block', 'fn', 'idx')

    def __init__(self, d, block, fn):
        self.d = d
        self.id = d['id']
        self.op = d['op']
        self.block = block
        self.fn = fn
        self.idx = 0
        if self.op == 'phi':
            self.ops = [V(x['v']) for x in d['incoming']]
        elif self.op in ('call', 'invoke', 'callbr'):
            self.ops = [V(x) for x in d['args']]
        elif self.op == 'dbg':
            self.ops = [V(d['val'])] if 'val' in d else []
        else:
            self.ops = [V(x) for x in d.get('ops', [])]

    @property
    def ty(self):
        return self.d.get('ty', {})

    @property
    def bits(self):
        return self.ty.get('bits')

    @property
    def name(self):
        return self.d.get('name')

    @property
    def line(self):
        loc = self.d.get('loc')
        return loc['line'] if loc else 0

    @property
    def file(self):
        loc = self.d.get('loc')
        return loc.get('file', '') if loc else ''

    def where(self):
        loc = self.d.get('loc')
        if not loc:
            return '%s:?' % (self.fn.file or '?')
        return '%s:%d' % (loc.get('file', self.fn.file or '?'), loc['line'])

    @property
    def callee(self):
        """name of directly called function, or None for indirect calls"""
        c = self.d.get('callee')
        if c and c['k'] == 'func':
            return c['name']
        return None

    @property
    def callee_v(self):
        return V(self.d['callee'])

    @property
    def pred(self):
        return self.d.get('pred')

    @property
    def incoming(self):
        return [(x['bb'], V(x['v'])) for x in self.d['incoming']]

    def __repr__(self):
        return '<%%%d %s %s>' % (self.id, self.op, self.name or '')


class Block:
    def __init__(self, d, fn, idx):
        self.name = d['name']
        self.fn = fn
        self.idx = idx
        self.insts = [Inst(i, self, fn) for i in d['insts']]
        for n, i in enumerate(self.insts):
            i.idx = n
        self.succs = []
        self.preds = []

    @property
    def term(self):
        return self.insts[-1]

    def real_insts(self):
        return [i for i in self.insts if i.op != 'dbg']

    def __repr__(self):
        return '<bb %s>' % self.name


class Function:
    def __init__(self, d, mod):
        self.d = d
        self.mod = mod
        self.name = d['name']
        self.decl = d['decl']
        self.srcname = d.get('srcname', '')
        self.scope = d.get('scope', '')
        self.file = d.get('file', '')
        self.line = d.get('line', 0)
        self.params = d['params']
        self.ret = d['ret']
        self.varargs = d.get('varargs', False)
        self.blocks = []
        self.bmap = {}
        self.insts = {}
        self._dom = None
        self._pdom = None
        self._loops = None
        self._uses = None
        if not self.decl:
            for n, b in enumerate(d['blocks']):
                blk = Block(b, self, n)
                self.blocks.append(blk)
                self.bmap[blk.name] = blk
                for i in blk.insts:
                    self.insts[i.id] = i
            for b in self.blocks:
                t = b.term
                names = []
                if t.op == 'br':
                    names = [t.d['t']] + ([t.d['f']] if 'f' in t.d else [])
                elif t.op == 'switch':
                    names = [t.d['default']] + [c['bb'] for c in t.d['cases']]
                elif t.op == 'invoke':
                    names = [t.d['normal'], t.d['unwind']]
                seen = []
                for n in names:
                    if n not in seen:
                        seen.append(n)
                b.succs = [self.bmap[n] for n in seen]
            for b in self.blocks:
                for s in b.succs:
                    s.preds.append(b)

    @property
    def qualname(self):
        return (self.scope or '') + (self.srcname or self.name)

    @property
    def entry(self):
        return self.blocks[0]

    def all_insts(self):
        for b in self.blocks:
            for i in b.insts:
                if i.op != 'dbg':
                    yield i

    def inst_of(self, v):
        return self.insts[v.id] if v.k == 'inst' else None

    # ---------------- dominators (Cooper/Harvey/Kennedy) ----------------
    def _compute_dom(self, entry_blocks, succs_of, preds_of, blocks):
        # generic; supports virtual root for postdom
        order = []
        seen = set()

        def dfs(b):
            stack = [(b, iter(succs_of(b)))]
            seen.add(b)
            while stack:
                n, it = stack[-1]
                for s in it:
                    if s not in seen:
                        seen.add(s)
                        stack.append((s, iter(succs_of(s))))
                        break
                else:
                    order.append(n)
                    stack.pop()
        ROOT = '<root>'
        for e in entry_blocks:
            if e not in seen:
                dfs(e)
        rpo = list(reversed(order))
        idx = {b: i + 1 for i, b in enumerate(rpo)}
        idx[ROOT] = 0
        idom = {ROOT: ROOT}
        eset = set(entry_blocks)

        def preds(b):
            ps = [p for p in preds_of(b) if p in idx]
            if b in eset:
                ps = ps + [ROOT]
            return ps

        def intersect(a, b):
            while a != b:
                while idx[a] > idx[b]:
                    a = idom[a]
                while idx[b] > idx[a]:
                    b = idom[b]
            return a
        changed = True
        while changed:
            changed = False
            for b in rpo:
                new = None
                for p in preds(b):
                    if p in idom:
                        new = p if new is None else intersect(p, new)
                if new is not None and idom.get(b) != new:
                    idom[b] = new
                    changed = True
        return idom, rpo

    @property
    def idom(self):
        if self._dom is None:
            self._dom, self._rpo = self._compute_dom(
                [self.entry], lambda b: b.succs, lambda b: b.preds, self.blocks)
        return self._dom

    @property
    def rpo(self):
        self.idom
        return self._rpo

    @property
    def ipdom(self):
        if self._pdom is None:
            exits = [b for b in self.blocks if not b.succs]
            self._pdom, _ = self._compute_dom(
                exits, lambda b: b.preds, lambda b: b.succs, self.blocks)
        return self._pdom

    def dominates_block(self, a, b):
        """block a dominates block b (reflexive)"""
        idom = self.idom
        if b not in idom:
            return False  # unreachable
        while True:
            if a is b:
                return True
            n = idom.get(b)
            if n is None or n == '<root>' or n is b:
                return False
            b = n

    def dominates(self, i1, i2):
        """instruction i1 dominates instruction i2 (strictly before it on
        every path from entry)"""
        if i1.block is i2.block:
            return i1.idx < i2.idx
        return self.dominates_block(i1.block, i2.block)

    def postdominates_block(self, a, b):
        ip = self.ipdom
        if b not in ip:
            return False
        while True:
            if a is b:
                return True
            n = ip.get(b)
            if n is None or n == '<root>' or n is b:
                return False
            b = n

    def edges_implying(self, cond, outcome=True):
        """CFG edges (block, successor) on which the i1 value `cond` is known to equal `outcome`: direct conditional
        branches, and branches on and/or/select/xor combinations of it (a && chain that simplifycfg folded into a
        select, a negation)"""
        out = []
        work = [(cond, outcome)]
        seen = set()
        while work:
            x, want = work.pop()
            if (x.id, want) in seen:
                continue
            seen.add((x.id, want))
            for u in self.users(x):
                if u.op == 'br' and 'f' in u.d and u.ops[0].k == 'inst' and u.ops[0].id == x.id:
                    out.append((u.block, self.bmap[u.d['t'] if want else u.d['f']]))
                elif u.op == 'and' and want:
                    work.append((u, True))          # (x & y) true  => x true
                elif u.op == 'or' and not want:
                    work.append((u, False))         # (x | y) false => x false
                elif u.op == 'xor' and any(o.k == 'ci' and o.uval == 1 for o in u.ops):
                    work.append((u, not want))
                elif u.op == 'select' and u.ops[0].k == 'inst' and u.ops[0].id == x.id:
                    # select x, y, false == x && y ; select x, true, y == x || y
                    if want and u.ops[2].k == 'ci' and u.ops[2].uval == 0:
                        work.append((u, True))
                    if not want and u.ops[1].k == 'ci' and u.ops[1].uval == 1:
                        work.append((u, False))
                elif u.op == 'select' and want and len(u.ops) == 3 and u.ops[1].k == 'inst' and u.ops[1].id == x.id \
                        and u.ops[2].k == 'ci' and u.ops[2].uval == 0:
                    work.append((u, True))          # select c, x, false true => x true
                elif u.op == 'select' and not want and len(u.ops) == 3 and u.ops[2].k == 'inst' and u.ops[2].id == x.id \
                        and u.ops[1].k == 'ci' and u.ops[1].uval == 1:
                    work.append((u, False))
        return out

    def only_through_edges(self, edges, target):
        """every path from the entry to block `target` uses one of the given CFG edges"""
        es = set((a.name, b.name) for a, b in edges)
        seen = set()
        st = [self.entry]
        while st:
            b = st.pop()
            if b.name in seen:
                continue
            seen.add(b.name)
            if b is target:
                return False
            for s_ in b.succs:
                if (b.name, s_.name) not in es:
                    st.append(s_)
        return True

    def reachable_blocks(self, start, avoid=()):
        """blocks reachable from block 'start' (inclusive) without passing
        through blocks in avoid"""
        seen = set()
        st = [start]
        while st:
            b = st.pop()
            if b in seen or b in avoid:
                continue
            seen.add(b)
            st.extend(b.succs)
        return seen

    # ---------------- loops ----------------
    @property
    def loops(self):
        """natural loops: list of dict(header, blocks(set), latches, exits
        [(from,to)])"""
        if self._loops is None:
            res = {}
            for b in self.blocks:
                for s in b.succs:
                    if self.dominates_block(s, b):  # back edge b->s
                        L = res.setdefault(s, {'header': s, 'blocks': {s}, 'latches': []})
                        L['latches'].append(b)
                        st = [b]
                        while st:
                            n = st.pop()
                            if n in L['blocks']:
                                continue
                            L['blocks'].add(n)
                            st.extend(n.preds)
            out = []
            for h, L in res.items():
                L['exits'] = [(b, s) for b in L['blocks'] for s in b.succs
                              if s not in L['blocks']]
                out.append(L)
            self._loops = out
        return self._loops

    def returns_flag(self):
        """every returned value is a 0/1 truth value (a predicate helper)"""
        r = getattr(self, '_returns_flag', None)
        if r is None:
            self._returns_flag = False          # recursion guard

            def b(v, seen):
                if v.k == 'ci':
                    return v.ival in (0, 1) or v.width == 1
                if v.k != 'inst' or v.id in seen:
                    return v.k == 'inst'
                i = self.insts[v.id]
                seen = seen | {v.id}
                if i.bits == 1 and i.op in ('icmp', 'fcmp', 'and', 'or', 'xor'):
                    return True
                if i.op in ('zext', 'trunc', 'freeze'):
                    return b(i.ops[0], seen)
                if i.op in ('select',):
                    return b(i.ops[1], seen) and b(i.ops[2], seen)
                if i.op == 'phi':
                    return all(b(o, seen) for o in i.ops)
                return False
            rets = [x for x in self.returns() if x.ops]
            r = self._returns_flag = bool(rets) and all(b(x.ops[0], frozenset()) for x in rets)
        return r

    def sentinel_loops(self):
        """loops with an exit test `byte loaded in the loop ==/!= 0` (scan or copy up to a terminator) -> list of loops"""
        r = getattr(self, '_sentinel_loops', None)
        if r is not None:
            return r
        r = []
        for L in self.loops:
            for (b, _) in L['exits']:
                t = b.term
                if t.op != 'br' or 'f' not in t.d or not t.ops or t.ops[0].k != 'inst':
                    continue
                c = self.insts[t.ops[0].id]
                if c.op != 'icmp' or c.pred not in ('eq', 'ne'):
                    continue
                z = [o for o in c.ops if o.k == 'ci' and o.ival == 0]
                o_ = [o for o in c.ops if not (o.k == 'ci' and o.ival == 0)]
                if len(z) != 1 or len(o_) != 1:
                    continue
                v = o_[0]
                for _k in range(3):
                    i = self.inst_of(v)
                    if i is not None and i.op in ('sext', 'zext', 'trunc'):
                        v = i.ops[0]
                i = self.inst_of(v)
                if i is not None and i.op == 'load' and i.bits == 8 and i.block in L['blocks']:
                    r.append(L)
                    break
        self._sentinel_loops = r
        return r

    def flag_loops(self):
        """loops one of whose exit tests reads a header phi that carries a 0/1 FLAG computed in the previous iteration
        (`done = is_end(p[i])` ... `while (!done)`).  The fact the flag stands for ("not done => p[i] is not the terminator")
        is a disjunctive invariant; the conjunctive numeric domain of the interpreter loses it, so an obligation that fails
        inside such a loop is not a verdict.  -> list of (loop, phi)"""
        r = getattr(self, '_flag_loops', None)
        if r is not None:
            return r
        def is_bool(v, seen):
            if v.k == 'ci':
                return v.ival in (0, 1) or (v.width == 1)
            if v.k != 'inst':
                return False
            if v.id in seen:
                return True
            seen = seen | {v.id}
            i = self.insts[v.id]
            if i.bits == 1 and i.op in ('icmp', 'fcmp', 'and', 'or', 'xor'):
                return True
            if i.op in ('zext', 'trunc', 'sext', 'freeze'):
                return is_bool(i.ops[0], seen)
            if i.op in ('and', 'or', 'xor'):
                return all(is_bool(o, seen) for o in i.ops)
            if i.op == 'select':
                return is_bool(i.ops[1], seen) and is_bool(i.ops[2], seen)
            if i.op == 'phi':
                return all(is_bool(o, seen) for o in i.ops)
            if i.op == 'call' and i.callee:
                g = self.mod.fn(i.callee)
                if g is not None and not g.decl and g is not self:
                    return g.returns_flag()
            return False

        def reads(v, target, depth=0):
            if v.k != 'inst' or depth > 8:
                return False
            if v.id == target:
                return True
            i = self.insts[v.id]
            if i.op in ('icmp', 'zext', 'trunc', 'sext', 'and', 'or', 'xor', 'select', 'freeze'):
                return any(reads(o, target, depth + 1) for o in i.ops)
            return False
        r = []
        for L in self.loops:
            phis = [i for i in L['header'].insts if i.op == 'phi' and i.ty.get('k') == 'int' and (i.bits or 64) <= 32]
            flags = []
            for ph in phis:
                inc = [v for (bb, v) in ph.incoming]
                if any(v.k == 'inst' for v in inc) and all(is_bool(v, frozenset([ph.id])) for v in inc):
                    flags.append(ph)
            for (b, _) in L['exits']:
                t = b.term
                if t.op == 'br' and 'f' in t.d and t.ops:
                    for ph in flags:
                        if reads(t.ops[0], ph.id):
                            r.append((L, ph))
        self._flag_loops = r
        return r

    # ---------------- uses ----------------
    @property
    def uses(self):
        if self._uses is None:
            u = {}
            for i in self.all_insts():
                for o in i.ops:
                    if o.k in ('inst', 'arg'):
                        u.setdefault(o.key(), []).append(i)
            self._uses = u
        return self._uses

    def users(self, v):
        return self.uses.get(v.key() if isinstance(v, V) else ('i', v.id), [])

    def calls(self, name=None, pred=None):
        out = []
        for i in self.all_insts():
            if i.op in ('call', 'invoke'):
                c = i.callee
                if name is not None and c != name:
                    continue
                if pred is not None and not pred(c):
                    continue
                out.append(i)
        return out

    def returns(self):
        return [b.term for b in self.blocks if b.term.op == 'ret']

    def var_name(self, v):
        """source-level variable name bound to SSA value v by llvm.dbg.value,
        if any"""
        if v.k == 'arg':
            return self.params[v.argno]['name']
        for b in self.blocks:
            for i in b.insts:
                if i.op == 'dbg' and i.ops and i.ops[0].key() == v.key():
                    return i.d['var']
        ins = self.inst_of(v)
        return ins.name if ins is not None else None


class Module:
    def __init__(self, d, path=None):
        self.d = d
        self.path = path
        self.source = d.get('source')
        self.structs = d['structs']
        self.ditypes = d['ditypes']
        self.globals = {g['name']: g for g in d['globals']}
        self.functions = {}
        for f in d['functions']:
            self.functions[f['name']] = Function(f, self)
        self._dinames = None

    def defined(self):
        return [f for f in self.functions.values() if not f.decl]

    def fn(self, name):
        return self.functions.get(name)

    def find(self, srcname=None, scope_contains=None, file_endswith=None):
        """defined functions by source-level name"""
        out = []
        for f in self.defined():
            if srcname is not None and f.srcname != srcname:
                continue
            if scope_contains is not None and scope_contains not in f.scope:
                continue
            if file_endswith is not None and not f.file.endswith(file_endswith):
                continue
            out.append(f)
        return out

    def di_for_struct(self, sname):
        """debug-info composite type matching an LLVM struct name such as
        'struct.sline' or 'class.igris::static_vector.3'"""
        st = self.structs.get(sname)
        if st is None:
            return None
        base = sname.split('.', 1)[1] if '.' in sname else sname
        # strip trailing .N uniquifier
        parts = base.rsplit('.', 1)
        if len(parts) == 2 and parts[1].isdigit():
            base = parts[0]
        short = base.split('::')[-1]
        # strip template args from short
        cands = []
        for d in self.ditypes:
            n = d['name']
            n0 = n.split('<', 1)[0]
            if n0 == short and d['size'] == st['size']:
                cands.append(d)
        if not cands:
            return None
        # prefer same number of top-level members offsets subset
        offs = set(f['off'] for f in st['fields'])
        best = None
        for d in cands:
            moffs = set(m['off'] for m in d['members'])
            score = len(moffs & offs) - len(moffs - offs)
            if best is None or score > best[0]:
                best = (score, d)
        return best[1]

    def flat_fields(self, sname, prefix='', base=0, depth=0):
        """flattened scalar/pointer fields of an LLVM struct, nested structs
        expanded with dotted names taken from debug info:
        [dict(name, off, size, ty, signed)]"""
        st = self.structs.get(sname)
        if st is None:
            return []
        di = self.di_for_struct(sname)
        names = {}
        signed = {}
        if di:
            for m in di['members']:
                names.setdefault(m['off'], m['name'])
                signed.setdefault(m['off'], m.get('signed', -1))
        out = []
        for n, f in enumerate(st['fields']):
            nm = names.get(f['off'])
            if nm is None or nm == '<base>':
                nm_eff = None
            else:
                nm_eff = prefix + nm
            ty = f['ty']
            if ty['k'] == 'struct' and depth < 6:
                sub = tyname(ty['s'])
                subprefix = (nm_eff + '.') if nm_eff else prefix
                out.extend(self.flat_fields(sub, subprefix, base + f['off'], depth + 1))
            elif nm_eff is not None:
                out.append({'name': nm_eff, 'off': base + f['off'], 'size': ty.get('size', 0),
                            'ty': ty, 'signed': signed.get(f['off'], -1)})
        return out

    def field_name(self, sname, off):
        d = self.di_for_struct(sname)
        if not d:
            return None
        for m in d['members']:
            if m['off'] == off and m['name'] != '<base>':
                return m['name']
        return None

    def field_off(self, sname, fname):
        d = self.di_for_struct(sname)
        if not d:
            return None
        for m in d['members']:
            if m['name'] == fname:
                return m['off']
        return None


# --------------------------------------------------------------------------
# Front end
# --------------------------------------------------------------------------
_scratch = None


def scratch():
    """one scratch directory per process, removed at exit"""
    global _scratch
    if _scratch is None:
        base = os.environ.get('TMPDIR', '/tmp')
        _scratch = tempfile.mkdtemp(prefix='igris-verif-', dir=base)
        atexit.register(lambda: shutil.rmtree(_scratch, ignore_errors=True))
    return _scratch


C_FLAGS = ['-std=gnu11']
CXX_FLAGS = ['-std=gnu++20', '-fno-exceptions', '-fstandalone-debug']
IR_FLAGS = ['-O0', '-Xclang', '-disable-O0-optnone', '-fno-discard-value-names',
            '-g', '-S', '-emit-llvm', '-UNDEBUG', '-w',
            '-fno-inline', '-fno-builtin']
OPT_PASSES = 'mem2reg,instsimplify,simplifycfg'


UNROLL_PASSES = ('mem2reg,instsimplify,simplifycfg,loop-simplify,loop-rotate,indvars,loop-unroll,'
                 'instsimplify,early-cse,gvn,simplifycfg,instsimplify')
UNROLL_ARGS = ('-unroll-threshold=4000', '-two-entry-phi-node-folding-threshold=1000',
               '-phi-node-folding-threshold=1000')



def _prepare_inlining(ll, inline, passes, opt_args):
    """Rewrites the textual IR so that LLVM's inliner folds helper functions into their callers before the analysis
    passes run.  clang -O0 marks every function noinline; the attribute is dropped from the attribute groups and put back
    on the define line of every function the caller wants to KEEP as a function:
      inline=True            nothing is kept (everything defined in the unit is inlined where it is called)
      inline=callable        keep(mangled_name, demangled_name, is_internal, defined_in_main_file) -> True keeps it
    Inlining is semantics preserving; it only makes a rule see the same straight-line code whether a step is written in
    place or in a (new) helper function."""
    with open(ll) as fh:
        txt = fh.read()
    txt = re.sub(r'(?m)^(attributes #\d+ = \{.*)$', lambda m: m.group(1).replace(' noinline', ''), txt)
    if callable(inline):
        lines = txt.split('\n')
        # debug info: in which file is each function defined (main file of the unit or a header)?
        difile = dict(re.findall(r'(?m)^!(\d+) = !DIFile\(filename: "([^"]*)"', txt))
        dsub = dict(re.findall(r'(?m)^!(\d+) = distinct !DISubprogram\([^\n]*?file: !(\d+)', txt))
        main = re.search(r'(?m)^source_filename = "([^"]*)"', txt)
        main = os.path.basename(main.group(1)) if main else None
        defs = []
        for k, line in enumerate(lines):
            if line.startswith('define '):
                m = re.search(r'@("(?:[^"\\]|\\.)*"|[\w.$]+)\(', line)
                if m:
                    dbg = re.search(r'!dbg !(\d+)', line)
                    fn_file = difile.get(dsub.get(dbg.group(1), ''), '') if dbg else ''
                    defs.append((k, m.group(1).strip('"'), ' internal ' in line[:m.start()] or ' private ' in line[:m.start()],
                                 bool(main) and os.path.basename(fn_file) == main))
        dem = demangle([d[1] for d in defs])
        for (k, name, internal, in_main), d in zip(defs, dem):
            if inline(name, d, internal, in_main):
                line = lines[k]
                # function attributes may precede the group reference: "... @f(i32 %0) noinline #0 {"
                # j = closing parenthesis of the parameter list (the one matching the '(' after the name)
                mm = re.search(r'@("(?:[^"\\]|\\.)*"|[\w.$]+)\(', line)
                j, depth = mm.end() - 1, 0
                while j < len(line):
                    if line[j] == '(':
                        depth += 1
                    elif line[j] == ')':
                        depth -= 1
                        if depth == 0:
                            break
                    j += 1
                g = re.search(r' #\d+', line[j:])
                pos = j + g.start() if g else line.rfind(' {')
                if ' personality ' in line[j:]:
                    pos = min(pos, j + line[j:].find(' personality '))
                lines[k] = line[:pos] + ' noinline' + line[pos:]
        txt = '\n'.join(lines)
    with open(ll, 'w') as fh:
        fh.write(txt)
    return ('function(mem2reg),cgscc(inline),function(%s)' % passes, list(opt_args) + ['-inline-threshold=100000'])


def keep_all_but_new_helpers(known_internal=()):
    """inline predicate: every function with external/linkonce linkage stays a function, and so does every static
    function that comes from a header (those are the library's API: sline_*, ring_*, argvc_*, hex2half ...).  A static
    function defined in the unit's own source file stays only when a rule anchors on it (known_internal, by source
    name); any other one - i.e. a file-local helper, typically introduced by refactoring - is folded into its callers"""
    known = set(known_internal)

    def keep(name, dem, internal, in_main):
        if not internal or not in_main:
            return True
        base = dem.split('(')[0].split('::')[-1]
        return name in known or base in known
    return keep


def keep_known_members(class_prefixes, known):
    """inline predicate for class templates in witness units: member functions of the given classes (demangled name
    starts with one of class_prefixes) stay functions only when their source name is in `known`; any other member - a
    helper introduced by refactoring - is folded into its callers.  Everything outside those classes is kept."""
    known = set(known)

    def keep(name, dem, internal, in_main):
        # cut the parameter list: first '(' at template depth 0
        depth, cut = 0, len(dem)
        for k, ch in enumerate(dem):
            if ch == '<':
                depth += 1
            elif ch == '>':
                depth -= 1
            elif ch == '(' and depth == 0 and not dem[:k].endswith('operator'):
                cut = k
                break
        head = dem[:cut]
        # template functions carry their return type in front ("It ns::C<..>::f<It>"): the qualified name starts after the
        # last space at template depth 0
        depth, start = 0, 0
        for k, ch in enumerate(head):
            depth += {'<': 1, '>': -1}.get(ch, 0)
            if ch == ' ' and depth == 0:
                start = k + 1
        q = head[start:]
        for cp in class_prefixes:
            if q.startswith(cp):
                depth, last = 0, 0
                for k, ch in enumerate(q):
                    depth += {'<': 1, '>': -1}.get(ch, 0)
                    if ch == ':' and depth == 0:
                        last = k + 1
                base = q[last:].split('<')[0] if not q[last:].startswith('operator') else q[last:]
                if '{lambda' in dem or base.startswith('~'):
                    return True
                return base in known
        return True
    return keep


def compile_ir(src, repo, extra_flags=(), out_name=None, passes=OPT_PASSES,
               lang=None, exceptions=False, opt_args=(), inline=False):
    """src -> JSON module (clang -> opt -> irdump). Raises AnalysisBroken on
    tool failure.  inline=True lets LLVM inline the unit's own helper functions into their callers first (clang -O0 marks
    every function noinline; the attribute is dropped), so that a rule sees the same straight-line code whether a step is
    written in place or in a static helper."""
    if not os.path.exists(IRDUMP):
        raise AnalysisBroken('bin/irdump missing: run MANIFEST.setup_cmd (sh tools/setup.sh)')
    sd = scratch()
    base = out_name or (os.path.relpath(src, '/').replace('/', '_'))
    ll = os.path.join(sd, base + '.ll')
    oll = os.path.join(sd, base + '.opt.ll')
    js = os.path.join(sd, base + '.json')
    is_c = (lang == 'c') or (lang is None and src.endswith('.c'))
    cc = ['clang'] + C_FLAGS if is_c else ['clang++'] + [f for f in CXX_FLAGS if not (exceptions and f == '-fno-exceptions')]
    cmd = cc + IR_FLAGS + ['-I' + repo] + list(extra_flags) + [src, '-o', ll]
    r = subprocess.run(cmd, capture_output=True, text=True)
    if r.returncode != 0:
        raise AnalysisBroken('clang failed on %s:\n%s' % (src, r.stderr[-3000:]))
    if inline:
        passes, opt_args = _prepare_inlining(ll, inline, passes, opt_args)
    r = subprocess.run(['opt-14', '-passes=' + passes] + list(opt_args) + ['-S', ll, '-o', oll],
                       capture_output=True, text=True)
    if r.returncode != 0:
        raise AnalysisBroken('opt failed on %s:\n%s' % (src, r.stderr[-2000:]))
    r = subprocess.run([IRDUMP, oll, js], capture_output=True, text=True)
    if r.returncode != 0:
        raise AnalysisBroken('irdump failed on %s:\n%s' % (src, r.stderr[-2000:]))
    with open(js) as f:
        d = json.load(f)
    for p in (ll, oll, js):
        try:
            os.unlink(p)
        except OSError:
            pass
    return Module(d, src)


def compile_many(jobs, repo, workers=None):
    """jobs: list of dict(src=..., flags=[...], name=...) -> list of Module,
    compiled in parallel"""
    workers = workers or min(16, os.cpu_count() or 4)

    def one(j):
        return compile_ir(j['src'], repo, j.get('flags', ()), j.get('name'),
                          lang=j.get('lang'), exceptions=j.get('exceptions', False), inline=j.get('inline', False))
    with ThreadPoolExecutor(max_workers=workers) as ex:
        return list(ex.map(one, jobs))


_demangle_cache = {}


def demangle(names):
    names = list(names)
    todo = [n for n in names if n not in _demangle_cache]
    if todo:
        r = subprocess.run(['c++filt'], input='\n'.join(todo) + '\n',
                           capture_output=True, text=True)
        outs = r.stdout.split('\n')
        for n, o in zip(todo, outs):
            _demangle_cache[n] = o
    return [_demangle_cache.get(n, n) for n in names]


def demangle1(name):
    return demangle([name])[0]
