"""C09 R-FRESH: a reader that ACCUMULATES into its target (std::vector / std::map helpers append to the object they are
given) must be handed a freshly constructed object for every value it reads.

Why this is a necessary condition of the round trip: serialize_helper<vector<T>>::deserialize and the map helper
push_back / insert into the target without clearing it.  That is fine for the object the entry point has just
default-constructed, and for a per-iteration temporary `T value;` inside the element loop.  If the temporary is
constructed once and re-used for every element (hoisted out of the loop), the second element of a vector<vector<..>>
starts from the contents of the first: {{1,2},{3}} decodes as {{1,2},{1,2,3}} although every byte is consumed correctly.

Decided on the IR of the witness instantiations:
  accumulates(g)  g passes (part of) its target parameter as `this` to a growing libstdc++ member (push_back,
                  emplace_back, insert, emplace, operator[]) with no dominating clear()/operator=/assign on it, or
                  hands (part of) it to a reader h with accumulates(h)                      [least fixed point]
  R-FRESH         every call of a reader h with accumulates(h) whose target is a LOCAL object of the caller is dominated
                  by a constructor call on that object, and when the call sits in a loop the constructor runs in the
                  same (innermost) loop, i.e. once per value read.
Readers that overwrite their target completely (scalars: load_data over sizeof(T); std::string: resize + load) do not
accumulate, so re-using a temporary for them is (correctly) not reported."""
from irlib import AnalysisBroken, demangle
from c01 import trace_const

GROW = ('push_back', 'emplace_back', 'insert', 'emplace', 'emplace_hint', 'operator[]', 'insert_or_assign', 'try_emplace')
RESET = ('clear', 'operator=', 'assign', 'swap')


def _member(d):
    """'std::vector<...>::push_back(...)' -> 'push_back' (template arguments skipped)"""
    depth = 0
    cut = len(d)
    for k, ch in enumerate(d):
        if ch in '<':
            depth += 1
        elif ch == '>':
            depth -= 1
        elif ch == '(' and depth == 0:
            cut = k
            break
    head = d[:cut]
    depth = 0
    last = 0
    k = 0
    while k < len(head) - 1:
        ch = head[k]
        if ch == '<':
            depth += 1
        elif ch == '>':
            depth -= 1
        elif ch == ':' and head[k + 1] == ':' and depth == 0:
            last = k + 2
            k += 1
        k += 1
    name = head[last:]
    scope = head[:max(last - 2, 0)]
    return scope, name.split('<')[0] if not name.startswith('operator') else name


def _is_ctor(d):
    scope, name = _member(d)
    if not scope:
        return False
    cls = _member(scope + '(')[1] if '::' in scope else scope.split('<')[0]
    return name == cls


def _same(a, b):
    return a[0].key() == b[0].key() and a[1] == b[1]


def _is_reader(d):
    return ('serialize_helper<' in d and '::deserialize(' in d) or d.startswith('void igris::deserialize<') \
        or d.startswith('igris::deserialize<') or ('::reflect<' in d and 'deserial' in d)


def fresh_rule(rep, mod, rule='R-FRESH', min_sites=4):
    fns = [f for f in mod.functions.values() if not f.decl]
    dn = dict(zip([f.name for f in fns], demangle([f.name for f in fns])))
    callee_names = set(i.callee for f in fns for i in f.all_insts() if i.op in ('call', 'invoke') and i.callee)
    dn.update(dict(zip(callee_names, demangle(list(callee_names)))))
    igris_fns = {f.name: f for f in fns if not dn[f.name].startswith('std::') and '__gnu_cxx' not in dn[f.name]}
    readers = [f for f in igris_fns.values() if _is_reader(dn[f.name])]
    if len(readers) < 20:
        raise AnalysisBroken('R-FRESH: only %d reader functions instantiated (anchor/witness changed)' % len(readers))

    def param_of(f, v):
        root, _ = trace_const(f, v)
        return root.argno if root.k == 'arg' else None

    # least fixed point of accumulates(function, parameter index)
    acc = {}
    changed = True
    while changed:
        changed = False
        for name, f in igris_fns.items():
            for i in f.all_insts():
                if i.op not in ('call', 'invoke') or not i.callee or not i.ops:
                    continue
                d = dn.get(i.callee, i.callee)
                if i.callee in igris_fns:
                    for j, o in enumerate(i.ops[:len(igris_fns[i.callee].params)]):
                        if (i.callee, j) in acc:
                            k = param_of(f, o)
                            if k is not None and (name, k) not in acc:
                                acc[(name, k)] = acc[(i.callee, j)]
                                changed = True
                elif d.startswith('std::') and _member(d)[1] in GROW:
                    k = param_of(f, i.ops[0])
                    if k is None or (name, k) in acc:
                        continue
                    resets = [c for c in f.all_insts() if c.op in ('call', 'invoke') and c.callee and c.ops and
                              _member(dn.get(c.callee, ''))[1] in RESET and param_of(f, c.ops[0]) == k and
                              f.dominates(c, i)]
                    if not resets:
                        scope = _member(d)[0].split('<')[0]
                        acc[(name, k)] = 'appends with %s::%s()' % (scope, _member(d)[1])
                        changed = True
    acc = {k: v for k, v in acc.items() if _is_reader(dn[k[0]]) or 'reflect' in dn[k[0]] or 'operator&' in dn[k[0]]
           or 'deserial' in dn[k[0]] or 'load' in dn[k[0]]}
    if not any(_is_reader(dn[k[0]]) for k in acc):
        raise AnalysisBroken('R-FRESH: no accumulating reader found (vector/map helpers no longer append?)')
    sites = 0
    for f in igris_fns.values():
        for i in f.all_insts():
            if i.op not in ('call', 'invoke') or not i.callee:
                continue
            for j, o in enumerate(i.ops):
                if (i.callee, j) not in acc:
                    continue
                root, off = trace_const(f, o)
                if root.k != 'inst' or f.insts[root.id].op != 'alloca':
                    continue            # the caller's own target (propagated) or a member of another object
                sites += 1
                ctors = [c for c in f.all_insts() if c.op in ('call', 'invoke') and c.callee and c.ops and
                         _is_ctor(dn.get(c.callee, '')) and _same(trace_const(f, c.ops[0]), (root, off)) and f.dominates(c, i)]
                loops = [L for L in f.loops if i.block in L['blocks']]
                inner = min(loops, key=lambda L: len(L['blocks'])) if loops else None
                ok = bool(ctors) and (inner is None or any(c.block in inner['blocks'] for c in ctors))
                from c09 import pretty
                what = pretty(dn[i.callee]).split('(')[0]
                what = what[what.find('deserialize'):] if 'deserialize' in what else what
                detail = None
                if not ok:
                    detail = ('the object handed to a reader that %s is %s: each value read starts from what the previous '
                              'one left in it (e.g. {{1,2},{3}} decodes as {{1,2},{1,2,3}})'
                              % (acc[(i.callee, j)], 'constructed outside the loop that reads the values' if ctors
                                 else 'not constructed before the call'))
                fq = pretty(dn[f.name]).split('(')[0]
                rep.inst(rule, fq, 'fresh-target:%s' % what, ok, i.where(), detail,
                         fact={'reader': what, 'accumulates': acc[(i.callee, j)], 'in_loop': inner is not None})
    if sites < min_sites:
        raise AnalysisBroken('R-FRESH: only %d call sites with a local target (witness out of date?)' % sites)
    rep.floor(rule, min_sites)
