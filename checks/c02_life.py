"""C02, element-lifetime clause of igris::vector<T>:
"every element object it constructs is destroyed exactly once, and no operation assigns to, moves from or reads an
unconstructed or already destroyed element".

Slot typestate (life_core.py) over the heap blocks of the vector, by trace partitioning on the entry state
(m_size, m_capacity, m_data null or not) and on the positions / counts / aliasing of the arguments.  Entry: the block in
m_data has [0,m_size) LIVE and [m_size,m_capacity) RAW; at every return the block then stored in m_data must again be
[0,m_size') LIVE, [m_size',cap') RAW; every block handed to operator delete has no LIVE slot and is not touched
afterwards; a block that is no longer referenced at return has been deallocated and holds no LIVE object (reallocation
paths: elements moved to the new block, old ones destroyed before deallocate)."""
import os

from common import *
from contracts import StructSpec
import life_core as L
from life_core import Part, Member
from life_core import ext_vtr, CXX_EXT

RULE = 'R-LIFE-VEC'
REQUIRED = {'vector': 8, '~vector': 1, 'operator=': 2, 'invalidate': 1, 'reserve': 1, 'changeBuffer': 1, 'clear': 1,
            'push_back': 1, 'emplace_back': 3, 'pop_back': 1, 'emplace': 2, 'insert': 3, 'resize': 1, 'erase': 2}
VT = '%struct.VTr*'

# members that exist today (a member outside this list that other members call is a helper split off by a refactoring)
TODAY = ('at', 'back', 'begin', 'capacity', 'changeBuffer', 'clear', 'data', 'emplace', 'emplace_back', 'empty', 'end', 'erase',
         'front', 'insert', 'insert_sorted', 'invalidate', 'operator!=', 'operator<', 'operator=', 'operator==', 'operator[]',
         'pop_back', 'push_back', 'rbegin', 'rend', 'reserve', 'resize', 'size', 'vector', '~vector')


def pnames(f):
    return [p['name'] for p in f.params]


def states(sz):
    """entry states of one vector: (m_size, m_capacity, m_data == nullptr)"""
    return [(0, 0, True)] + [(s, c, False) for s in range(sz + 1) for c in range(s, sz + 2)]


def lab(cs, pre=''):
    s, c, null = cs
    return '%sm_size=%d,%sm_capacity=%d%s' % (pre, s, pre, c, (',%sm_data=nullptr' % pre) if null else '')


def value_parts(ST, a, extra=None, extra_label=''):
    """value argument: an element owned by the caller, or an element of *this (v.push_back(v[j]))"""
    out = []
    for cs in ST:
        for (al, av) in [('', ('foreign',))] + [(',%s=(*this)[%d]' % (a, j), ('slot', j)) for j in range(cs[0])]:
            for (xl, xa) in (extra(cs) if extra else [('', {})]):
                args = {a: av}
                args.update(xa)
                out.append(Part(lab(cs) + xl + al, this=cs, args=args))
    return out


def member_for(f, sz, tier):
    b = base_name(f)
    P = pnames(f)
    ST = states(sz)
    counts = range(sz + 2)
    ptr = [p for p in f.params if p['ty']['k'] == 'ptr' and p['name'] != 'this']
    pty = [p['ty']['s'] for p in ptr]
    if b == 'vector':
        if P == ['this', 'alloc']:
            return Member([Part('-')], ctor=True)
        if P == ['this', 'initializers']:
            return Member([Part('initializer_list of %d' % k, args={'initializers': ('ilist', k)}) for k in counts], ctor=True)
        if P == ['this', 'other']:
            return Member([Part(lab(o, 'other.'), other=o) for o in ST], ctor=True)
        if P == ['this', 'sz']:
            return Member([Part('sz=%d' % k, args={'sz': ('int', k)}) for k in counts], ctor=True)
        if P in (['this', 'a', 'b'], ['this', 'first', 'last']):
            return Member([Part('range of %d' % k, args={P[1]: ('range', k, P[2])}) for k in counts], ctor=True)
        return None
    if b == '~vector':
        return Member([Part(lab(cs), this=cs) for cs in ST], dtor=True)
    if b == 'operator=' and P == ['this', 'other']:
        parts = [Part(lab(cs) + ',' + lab(o, 'other.'), this=cs, other=o) for cs in ST for o in ST]
        parts += [Part(lab(cs) + ',self-assignment', this=cs, other=cs, same=True) for cs in ST]
        return Member(parts)
    if b in ('front', 'back') and P == ['this']:
        return Member([Part(lab(cs), this=cs) for cs in ST if cs[0] >= 1], result_ref=True, note='precondition m_size >= 1')
    if b in ('at', 'operator[]') and P == ['this', 'num']:
        return Member([Part(lab(cs) + ',num=%d' % k, this=cs, args={'num': ('int', k)}) for cs in ST for k in range(cs[0])],
                      result_ref=True, note='precondition num < m_size')
    if b == 'changeBuffer' and P == ['this', 'sz']:
        return Member([Part(lab(cs) + ',sz=%d' % k, this=cs, args={'sz': ('int', k)}) for cs in ST
                       for k in range(cs[1] + 1, sz + 4)],
                      note='protected; precondition sz > m_capacity (its only caller is reserve)')
    if b in ('reserve', 'resize') and len(P) == 2 and not ptr:
        return Member([Part(lab(cs) + ',%s=%d' % (P[1], k), this=cs, args={P[1]: ('int', k)}) for cs in ST
                       for k in range(sz + 3)])
    if b in ('push_back', 'emplace_back') and len(P) == 2 and pty == [VT]:
        return Member(value_parts(ST, P[1]))
    if b == 'pop_back' and P == ['this']:
        return Member([Part(lab(cs), this=cs) for cs in ST if cs[0] >= 1], note='precondition m_size >= 1')
    if b in ('emplace', 'insert') and len(P) == 3 and P[1] == 'pos':
        if pty == [VT, VT]:
            pos = lambda cs: [(',pos=begin()+%d' % k, {'pos': ('slot', k)}) for k in range(cs[0] + 1)]
        elif pty == [VT]:
            pos = lambda cs: [(',pos=%d' % k, {'pos': ('int', k)}) for k in range(cs[0] + 1)]
        else:
            return None
        return Member(value_parts(ST, P[2], pos), note='precondition begin() <= pos <= end()')
    if b == 'insert' and P == ['this', 'pos', 'first', 'last'] and pty == [VT, VT, VT]:
        parts = [Part(lab(cs) + ',pos=begin()+%d,first=begin()+%d,last=begin()+%d' % (k, a, c), this=cs,
                      args={'pos': ('slot', k), 'first': ('slot', a), 'last': ('slot', c)})
                 for cs in ST for k in range(cs[0] + 1) for a in range(cs[0] + 1) for c in range(a, cs[0] + 1)]
        parts += [Part(lab(cs) + ',pos=begin()+%d,[first,last)=foreign range of %d' % (k, n), this=cs,
                       args={'pos': ('slot', k), 'first': ('range', n, 'last')})
                  for cs in ST for k in range(cs[0] + 1) for n in counts]
        return Member(parts, note='begin() <= pos <= end(); [first,last) is a range of *this or a range owned by the caller')
    if b == 'erase' and P == ['this', 'newend'] and pty == [VT]:
        return Member([Part(lab(cs) + ',newend=begin()+%d' % k, this=cs, args={'newend': ('slot', k)})
                       for cs in ST for k in range(cs[0] + 1)], note='precondition begin() <= newend <= end()')
    if b == 'erase' and P == ['this', 'first', 'last'] and pty == [VT, VT]:
        return Member([Part(lab(cs) + ',first=begin()+%d,last=begin()+%d' % (a, c), this=cs,
                            args={'first': ('slot', a), 'last': ('slot', c)})
                       for cs in ST for a in range(cs[0] + 1) for c in range(a, cs[0] + 1)],
                      note='precondition begin() <= first <= last <= end()')
    if any(t == VT for t in pty) or any(p['ty']['elem'] == f.params[0]['ty']['elem'] for p in ptr):
        return None         # a new member with element/container arguments: needs a contract here
    ints = [p for p in f.params if p['ty']['k'] == 'int' and p['ty']['bits'] > 1]
    if len(ints) > 1:
        return None
    if ints:
        return Member([Part(lab(cs) + ',%s=%d' % (ints[0]['name'], k), this=cs, args={ints[0]['name']: ('int', k)})
                       for cs in ST for k in range(sz + 3)])
    return Member([Part(lab(cs), this=cs) for cs in ST])


def layout_for(mod, f):
    sname = L.tyname(f.params[0]['ty']['elem'])
    fields = {m['name']: m for m in mod.flat_fields(sname)}
    for k in ('m_data', 'm_size', 'm_capacity'):
        if k not in fields:
            raise AnalysisBroken('igris::vector field %s not found in %s' % (k, mod.path))

    def spec(cs):
        fixed = {} if cs is None else {'m_size': cs[0], 'm_capacity': cs[1]}
        return StructSpec('igris::vector<VTr>', owns={'m_data': 'm_capacity * %d' % L.ESZ}, nullable=('m_data',), fixed=fixed)
    return {'kind': 'heap', 'data_ptr_off': fields['m_data']['off'], 'spec': spec, 'externals': dict(CXX_EXT)}


def run_life(rep, repo, tier):
    rep.explanation = (rep.explanation or '') + EXPLANATION
    rep.assumptions += ['lifetime rules: element special members and operator new do not throw (only the normal edge of an '
                        'invoke is followed)', 'lifetime rules: iterator arguments point into the vector at positions <= '
                        'size(); operator[]/at below size(); front/back/pop_back on a non-empty vector']
    sz = 4 if tier != 'thorough' else 7
    mod = compile_ir(os.path.join(WIT, 'w_life_vector.cpp'), repo, exceptions=True)
    label = 'igris::vector<VTr> sizes 0..%d' % sz
    rep.units.append('witness/w_life_vector.cpp -> igris/container/vector.h, igris/util/ctrdtr.h')
    L.check_probe(mod)
    fns = class_methods(mod, 'igris::vector<VTr')
    have = {}
    for f in fns:
        have[base_name(f)] = have.get(base_name(f), 0) + 1
    for k, c in REQUIRED.items():
        if have.get(k, 0) < c:
            raise AnalysisBroken('igris::vector<VTr>: member %s instantiated %d time(s), expected >= %d (anchor vanished or '
                                 'witness out of date)' % (k, have.get(k, 0), c))
    members = []
    helpers = []
    for f in fns:
        if base_name(f) not in TODAY and any(c.callee == f.name for g in fns if g is not f for c in g.calls()):
            # a member that did not exist when the contracts were written and that other members call: a helper split off
            # by a refactoring; it is analysed, typestate included, in the context of each caller
            helpers.append(f.qualname)
            continue
        mb = member_for(f, sz, tier)
        if mb is None:
            # a member without a contract of its own (a helper introduced by a refactoring) is covered when members that
            # have one call it: callees are analysed in the caller's context, typestate included
            callers = [g for g in fns if g is not f and any(c.callee == f.name for c in g.calls())]
            if callers:
                helpers.append(f.qualname)
                continue
            raise AnalysisBroken('igris::vector<VTr>: no lifetime contract for member %s%s' % (f.qualname, sig_suffix(f)))
        members.append((f, mb))
    lay = layout_for(mod, fns[0])
    st = L.run_members(rep, RULE, repo, mod, members, lay, ext_vtr, peel=2 * sz + 6, label=label, cls='igris::vector<')
    rep.floor(RULE + ':analysed', len(members))
    rep.floor(RULE + ':event', 40)
    rep.floor(RULE + ':return', 90)
    rep.floor(RULE + ':block', 60)
    rep.floor(RULE + ':result', 8)
    if st['partitions'] < (3000 if tier != 'thorough' else 12000):
        raise AnalysisBroken('lifetime rules: only %d (member, partition) pairs analysed' % st['partitions'])


EXPLANATION = (
    ' Element lifetimes (rule R-LIFE-VEC): slot typestate RAW/LIVE over every heap block of igris::vector<VTr>, decided '
    'by trace partitioning: every member is interpreted once per entry state with m_size in 0..4 and m_capacity in '
    'm_size..5 plus the block-less state m_data == nullptr (0..7 / ..8 in the thorough tier), per position 0..m_size of '
    'its iterator/index arguments, per count 0..6, for a value argument owned by the caller as well as one that is an '
    'element of the vector itself, for source ranges inside the vector and owned by the caller, and in the two-vector '
    'members per state of the other vector and for self-assignment; growth paths are covered because every state with '
    'm_size == m_capacity is in the partition. Loops then run on concrete bounds and every slot index is a constant; '
    'element contents stay abstract. Decided per (member, partition): constructor calls hit RAW slots; destructor calls, '
    'assignments and reads as a copy/move source hit LIVE slots; no event touches a deallocated block; operator delete '
    'receives a block without LIVE slots, once; references returned by at/operator[]/front/back designate LIVE slots; '
    'at every return the block in m_data is [0,m_size) LIVE / rest RAW and has one owner (constructors start without a '
    'block, after the destructor no block holds a LIVE slot), and a block that is no longer referenced was deallocated '
    'and holds no LIVE object. Together with the induction over the history this is "constructed elements are destroyed '
    'exactly once, nothing unconstructed or destroyed is assigned, moved from or read". Lifetimes are decided for these '
    'sizes only; for larger sizes the claim rests on the uniformity of the code: the element loops of vector.h, ctrdtr.h '
    'and of the std::move/move_backward helpers have no size-dependent case other than empty/non-empty range, '
    'm_size == m_capacity (growth) and position == end(), all of which the partition covers. Not decided: exception '
    'paths, the std_portable.h vector twin, the int instantiation (no lifetime events).')
