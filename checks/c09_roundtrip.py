"""C09 extension: the ROUND TRIP of the serialization layer, decided by byte identity on small concrete shapes.

For every serializer / deserializer pair the existing check pairs up (witness/w_c09_serialize.cpp: archive.h family,
witness/w_c09_archive20.cpp: serializer / binary_protocol / storage family) and for every shape of a small family
(container lengths 0..3 at every level, strings of 0..3 characters, nested as the type says) a value is laid out in
memory whose every byte is its own symbol, the WRITER is interpreted on it into a real archive object (a
binary_string_writer bound to a std::string, resp. a serializer over a string_storage), the READER is interpreted on
exactly the bytes the writer produced (binary_buffer_reader / deserializer over a deserialize_buffer_storage) into a
blank object, and the reconstructed object is compared with the original symbol by symbol.  Interpretation is the
concrete-shape / symbolic-content machine of c09_roundtrip_vm.py: nothing is executed, contents are never numbers.

Rules (function = the pair label of c09.py, e.g. "std::vector<int> [binary_string_writer/binary_buffer_reader]"; the
key is the clause; every type is analysed on four shapes - eight in the thorough tier - each alone and all in one
archive)
  R-RT:completes  completes            writer and reader run to their return on every shape (no access outside an
                                       object, nothing thrown, no released object touched)
  R-RT:value      value-identity       every scalar byte, every container length, every element in order, every map
                                       entry of the rebuilt object is the written one
  R-RT:cursor     cursor-at-end        after a value has been read the cursor is exactly where the writer's output for
                                       that value ended
  R-RT:reads      reads-only-own-bytes the reader touched no byte outside the encoding of the value it decoded (and none
                                       beyond the end of the archive)
  R-RT:sequence   sequence             four values written one after the other are read back in order (the clauses above
                                       for the 2nd..4th value, whose bytes start where the previous value ended);
                  mixed-sequence       the same with one value of every paired type of a unit in one archive
  R-RT:image      encoding-is-determined-by-the-value  every byte of the archive is a count or a byte of the written
                                       value: no indeterminate memory (an uninitialised local) and no part of an address
                                       reaches the archive.  The padding of a scalar's native image is don't-care: for a
                                       scalar whose IR store size is smaller than its alloc size (x86_fp80: 10 of 16, read
                                       off the IR signatures, not off a name) the bytes [store size, alloc size) behind its
                                       value bytes may hold anything
  R-RT:writer     buffer-writer-same-bytes  through a binary_buffer_writer over an exactly sized buffer the same bytes
                                       arrive and the write cursor ends at the end (binary_serializer_basic pairs)
  R-RT:api        api:completes / api:reads-only-own-bytes / api:value-identity   the functional entry points:
                                       deserialize<T>(serialize(v)) == v, through igris::serialize(const T&) and
                                       igris::deserialize<T>(const igris::buffer&) resp. (const std::string&)
  R-RT-BLOCK (counted blocks of the archive API: dump(const char*,n) / dump(buffer) / dump(string_view) against
        load(char*,max) / load(writable_buffer&) / load_set_buffer; payload 0..3 bytes, destination 0..4 bytes)
        completes, block-is-u16-length-then-payload, delivers-first-min(len,max), rest-of-destination-untouched,
        buffer-becomes-(data,min(len,max)), view-is-the-payload, block-skipped-completely (the cursor stands behind the
        block and the int that follows decodes)
A scenario that cannot be interpreted exactly (unmodelled external, control that depends on contents and whose pinned
representatives pass, indeterminate branch) is deferred as analysis-broken for its pair, never a verdict.
"""
import re

from common import *
from irlib import tyname, demangle
import c09_roundtrip_vm as vm
from c09_roundtrip_vm import Stop, Machine, Program, NULL, UNDEF, Sym

WIT_A = 'w_c09_serialize.cpp'
WIT_B = 'w_c09_archive20.cpp'
RULE = 'R-RT'
RULE_BLOCK = 'R-RT-BLOCK'


# ----------------------------------------------------------------------------------------------------------------
# C++ types from debug info
# ----------------------------------------------------------------------------------------------------------------
def nrm(s):
    s = s.replace('std::__cxx11::', '').replace('std::', '').replace('__gnu_cxx::', '')
    s = re.sub(r'\s+', ' ', s).strip()
    while '> >' in s:
        s = s.replace('> >', '>>')
    s = s.replace(' >', '>').replace(' ,', ',')
    return s


def targs(s):
    """'a<b, c<d, e>>' -> ['b', 'c<d, e>']"""
    i = s.find('<')
    if i < 0:
        return []
    depth, cur, out = 0, '', []
    for ch in s[i + 1:]:
        if ch == '<':
            depth += 1
        elif ch == '>':
            if depth == 0:
                break
            depth -= 1
        if ch == ',' and depth == 0:
            out.append(cur.strip())
            cur = ''
        else:
            cur += ch
    if cur.strip():
        out.append(cur.strip())
    return out


def strip_cvref(s):
    s = s.strip()
    while s.endswith('&'):
        s = s[:-1].strip()
    while s.startswith('const '):
        s = s[6:].strip()
    if s.endswith(' const'):
        s = s[:-6].strip()
    return s


SCALARS = {'char': 1, 'signed char': 1, 'unsigned char': 1, 'bool': 1, 'short': 2, 'unsigned short': 2, 'int': 4,
           'unsigned int': 4, 'long': 8, 'unsigned long': 8, 'long long': 8, 'unsigned long long': 8, 'float': 4,
           'double': 8, 'long double': 16,
           'int8_t': 1, 'uint8_t': 1, 'int16_t': 2, 'uint16_t': 2, 'int32_t': 4, 'uint32_t': 4, 'int64_t': 8, 'uint64_t': 8,
           'size_t': 8}
STRING_NAMES = ('string', 'basic_string<char, char_traits<char>, allocator<char>>')


class Desc:
    kind = '?'
    size = 0
    name = ''


class Scalar(Desc):
    kind = 'scalar'

    def __init__(self, name, size, valbytes=None):
        self.name = name
        self.size = size
        # bytes a load / store of the scalar's IR type touches; the rest of the object is padding of its native image
        self.valbytes = size if valbytes is None else valbytes


class Str(Desc):
    kind = 'str'

    def __init__(self, size, o_ptr, o_len, o_buf):
        self.name = 'std::string'
        self.size = size
        self.o_ptr, self.o_len, self.o_buf = o_ptr, o_len, o_buf


class Vec(Desc):
    kind = 'vec'

    def __init__(self, name, size, elem, o_start, o_finish, o_eos):
        self.name = name
        self.size = size
        self.elem = elem
        self.o_start, self.o_finish, self.o_eos = o_start, o_finish, o_eos


class Map(Desc):
    kind = 'map'

    def __init__(self, name, size, key, val, pair, o_header, o_count, node_size, o_value):
        self.name = name
        self.size = size
        self.key, self.val, self.pair = key, val, pair
        self.o_header, self.o_count, self.node_size, self.o_value = o_header, o_count, node_size, o_value


class Struct(Desc):
    kind = 'struct'

    def __init__(self, name, size, fields):
        self.name = name
        self.size = size
        self.fields = fields        # [(member name, offset, Desc)]


class Types:
    def __init__(self, mod):
        self.mod = mod
        self.by_name = {}
        self.by_scoped = {}
        for d in mod.ditypes:
            self.by_name.setdefault(nrm(d['name']), []).append(d)
            self.by_scoped.setdefault(nrm(d['scope'] + d['name']), []).append(d)
        self.cache = {}
        self.scalar_ir = self._scalar_ir_types(mod)
        nb = self.di('_Rb_tree_node_base', need=False)
        if nb is not None:
            offs = {m['name']: m['off'] for m in nb['members']}
            for k, n in (('color', '_M_color'), ('parent', '_M_parent'), ('left', '_M_left'), ('right', '_M_right')):
                if n not in offs:
                    raise AnalysisBroken('member %s of std::_Rb_tree_node_base not found in the debug info' % n)
                vm.RB_OFF[k] = offs[n]

    @staticmethod
    def _scalar_ir_types(mod):
        """C++ scalar type name -> (store size, alloc size) of the IR type it is lowered to, read off the signatures of the
        unit (a parameter 'T' / 'const T&' / 'T*' next to its IR type).  A scalar whose store size is smaller than its
        alloc size (x86_fp80: 10 of 16) has padding bytes in its native image"""
        import c09_roundtrip_vm as _vm
        lay = _vm.Layout(mod)
        out = {}
        for f in mod.functions.values():
            dt = f.d.get('ditypes')
            if not dt:
                continue
            ps = f.params
            names = dt[1:]
            if ps and ps[0].get('sret') and len(names) == len(ps) - 1:
                ps = ps[1:]
            if len(names) != len(ps):
                continue
            for d, p in zip(names, ps):
                tn = d['type']
                ty = p['ty']
                ref = tn.rstrip().endswith(('&', '*'))
                base = nrm(strip_cvref(tn.rstrip().rstrip('*').rstrip('&')))
                if base not in SCALARS:
                    continue
                if ref and ty.get('k') == 'ptr' and ty.get('elemsize'):
                    irs, alloc = ty['elem'], ty['elemsize']
                elif not ref and ty.get('k') in ('int', 'fp') and ty.get('size'):
                    irs, alloc = ty['s'], ty['size']
                else:
                    continue
                if irs.startswith(('%', '{', '[')) or irs.endswith('*'):
                    continue
                try:
                    st = lay.load_size(irs)
                except AnalysisBroken:
                    continue
                prev = out.get(base)
                if prev is not None and prev != (st, alloc):
                    out[base] = (alloc, alloc)       # contradictory signatures: no padding assumed (strict)
                else:
                    out[base] = (st, alloc)
        return out

    def di(self, name, scoped=False, need=True, size=None):
        c = (self.by_scoped if scoped else self.by_name).get(name, [])
        if size is not None:
            c = [d for d in c if d['size'] == size] or c
        if not c:
            if need:
                raise AnalysisBroken('no debug info for type %s in the witness unit' % name)
            return None
        return c[0]

    def member(self, d, name):
        for m in d['members']:
            if m['name'] == name:
                return m
        raise AnalysisBroken('member %s of %s not found in the debug info' % (name, d['name']))

    def parse(self, tname, size_hint=None):
        n = nrm(strip_cvref(tname))
        key = (n, size_hint if n not in self.by_name else None)
        if key in self.cache:
            return self.cache[key]
        d = self._parse(n, size_hint)
        self.cache[key] = d
        return d

    def _parse(self, n, size_hint):
        if n in SCALARS:
            st = self.scalar_ir.get(n)
            if st is not None and st[1] == SCALARS[n] and 0 < st[0] <= st[1]:
                return Scalar(n, SCALARS[n], st[0])
            return Scalar(n, SCALARS[n])
        if n in STRING_NAMES:
            d = self.di(STRING_NAMES[1])
            o_ptr = self.member(d, '_M_dataplus')['off']
            o_len = self.member(d, '_M_string_length')['off']
            rest = [m for m in d['members'] if m['name'] not in ('_M_dataplus', '_M_string_length') and m['name'] != '<base>']
            if len(rest) != 1:
                raise AnalysisBroken('unexpected layout of std::string in the debug info')
            return Str(d['size'], o_ptr, o_len, rest[0]['off'])
        if n.startswith('vector<'):
            ta = targs(n)
            elem = self.parse(ta[0])
            d = self.di(n)
            impl = self.di('_Vector_base<%s>::_Vector_impl_data' % ', '.join(ta[:2]), scoped=True)
            return Vec(n, d['size'], elem, self.member(impl, '_M_start')['off'], self.member(impl, '_M_finish')['off'],
                       self.member(impl, '_M_end_of_storage')['off'])
        if n.startswith('map<'):
            ta = targs(n)
            d = self.di(n)
            if len(ta) < 4:
                raise AnalysisBroken('std::map without its default arguments in the debug info: %s' % n)
            pname = targs(ta[3])[0]
            pair = self.parse(pname)
            key = pair.fields[0][2]
            val = pair.fields[1][2]
            node = self.di('_Rb_tree_node<%s>' % pname)
            o_value = self.member(node, '_M_storage')['off']
            tree = [k for k in self.by_name if k.startswith('_Rb_tree<%s, %s, ' % (ta[0], pname))]
            if len(tree) != 1:
                raise AnalysisBroken('red-black tree type of %s not found in the debug info' % n)
            impl = [dd for k, v in self.by_scoped.items() for dd in v
                    if k.startswith(tree[0] + '::_Rb_tree_impl<')]
            if not impl:
                raise AnalysisBroken('_Rb_tree_impl of %s not found in the debug info' % n)
            hb = [m for m in impl[0]['members'] if m['name'] == '<base>' and nrm(m['type']) == '_Rb_tree_header']
            if len(hb) != 1:
                raise AnalysisBroken('_Rb_tree_header base of %s not found in the debug info' % n)
            hdr = self.di('_Rb_tree_header')
            o_t = self.member(d, '_M_t')['off'] + self.member(self.di(tree[0]), '_M_impl')['off']
            return Map(n, d['size'], key, val, pair, o_t + hb[0]['off'] + self.member(hdr, '_M_header')['off'],
                       o_t + hb[0]['off'] + self.member(hdr, '_M_node_count')['off'], node['size'], o_value)
        d = self.di(n, need=False)
        if d is None:
            if size_hint in (1, 2, 4, 8) and '<' not in n:
                return Scalar(n, size_hint)       # a typedef of an arithmetic type
            raise AnalysisBroken('type %s is not described by the debug info of the witness unit' % n)
        fields = []
        self._walk(d, 0, fields)
        if not fields:
            raise AnalysisBroken('type %s has no data members in the debug info' % n)
        fields.sort(key=lambda f: (f[0].startswith('get<'), f[0] if f[0].startswith('get<') else '', f[1]))
        return Struct(n, d['size'], fields)

    def _walk(self, d, base, out, depth=0):
        if depth > 12:
            raise AnalysisBroken('inheritance chain too deep in %s' % d['name'])
        dn = nrm(d['name'])
        for m in d['members']:
            if m['name'] == '<base>':
                b = self.di(nrm(m['type']), need=False)
                if b is not None:
                    self._walk(b, base + m['off'], out, depth + 1)
                continue
            name = m['name']
            if dn.startswith('_Head_base<') and name == '_M_head_impl':
                name = 'get<%s>' % targs(dn)[0].rstrip('ULul')
            out.append((name, base + m['off'], self.parse(m['type'], m['size'])))


# ----------------------------------------------------------------------------------------------------------------
# shapes
# ----------------------------------------------------------------------------------------------------------------
TOP_LEN = [2, 0, 3, 1]       # length of the outermost container in variant 0..3
SUB_LEN = [1, 2, 0, 3]


def make_shape(desc, v, depth=0, salt=None, in_key=False):
    if salt is None:
        salt = 2 * (v // 4) + (v // 8)
    k = desc.kind
    if k == 'scalar':
        return None
    if k == 'str':
        if in_key:
            return 1 + (v + salt) % 3
        return (TOP_LEN[v % 4] if depth == 0 else SUB_LEN[(v + salt) % 4])
    if k == 'vec':
        n = TOP_LEN[v % 4] if depth == 0 else SUB_LEN[(v + salt) % 4]
        return [make_shape(desc.elem, v, depth + 1, salt + 1 + 2 * i) for i in range(n)]
    if k == 'map':
        n = TOP_LEN[v % 4] if depth == 0 else SUB_LEN[(v + salt) % 4]
        out = []
        for i in range(n):
            ks = make_shape(desc.key, v, depth + 1, salt + i, in_key=True)
            if desc.key.kind == 'str' and depth == 0 and i == 0 and v == 2:
                ks = 0              # the empty string as a key (it is the smallest key)
            out.append((ks, make_shape(desc.val, v, depth + 1, salt + 1 + i)))
        return out
    if k == 'struct':
        return [make_shape(f[2], v, depth + 1 if depth else 1, salt + 3 * i) for i, f in enumerate(desc.fields)]
    raise AnalysisBroken('no shape for %s' % desc.name)


def shape_text(desc, sh):
    k = desc.kind
    if k == 'scalar':
        return desc.name
    if k == 'str':
        return 'string[%d]' % sh
    if k == 'vec':
        return 'vector{%s}' % ', '.join(shape_text(desc.elem, s) for s in sh)
    if k == 'map':
        return 'map{%s}' % ', '.join('%s: %s' % (shape_text(desc.key, a), shape_text(desc.val, b)) for a, b in sh)
    return '(%s)' % ', '.join(shape_text(f[2], s) for f, s in zip(desc.fields, sh))


# ----------------------------------------------------------------------------------------------------------------
# laying out / reading back typed objects in the machine's memory
# ----------------------------------------------------------------------------------------------------------------
class Malformed(Exception):
    pass


KEY_SYMBOLS = set()      # byte symbols that belong to map keys (never pinned)


PTR = {'k': 'ptr'}
U64 = {'k': 'int', 'bits': 64}


class Heap:
    """builder / reader of typed objects.  Specs are nested tuples: ('sc', cells) ('str', cells) ('vec', items)
    ('map', ((k, v), ...)) ('st', items)"""

    def __init__(self, m, assume=None):
        self.m = m
        self.assume = assume or {}
        m.key_rank = {}
        m.padded = {}          # value bytes of a scalar with padding -> number of padding bytes of its native image
        m.key_syms = set()
        m.next_rank = 0
        m.foreign_keys = []

    def sym(self, name):
        v = self.assume.get(name)
        return Sym(name) if v is None else v

    def padd(self, p, off):
        return ('p', p[1], p[2] + off)

    def build(self, desc, sh, p, path):
        m = self.m
        k = desc.kind
        if k == 'scalar':
            cells = [self.sym('%s#%d' % (path, j)) for j in range(desc.valbytes)]
            m.write_cells(p, cells + [None] * (desc.size - desc.valbytes))
            if desc.size > desc.valbytes:
                m.padded[tuple(cells)] = desc.size - desc.valbytes
            return ('sc', tuple(cells))
        if k == 'str':
            n = sh
            if n > 15:
                raise AnalysisBroken('string shape longer than the small-string buffer')
            cells = [self.sym('%s[%d]' % (path, j)) for j in range(n)]
            m.store(self.padd(p, desc.o_ptr), 8, self.padd(p, desc.o_buf))
            m.store(self.padd(p, desc.o_len), 8, n)
            m.write_cells(self.padd(p, desc.o_buf), cells + [0])
            return ('str', tuple(cells))
        if k == 'vec':
            n = len(sh)
            spare = (0, 2, 1)[(n + len(path)) % 3]       # capacity beyond the size (indeterminate storage)
            if n + spare == 0:
                for o in (desc.o_start, desc.o_finish, desc.o_eos):
                    m.store(self.padd(p, o), 8, NULL)
                return ('vec', ())
            es = desc.elem.size
            blk = m.new_obj((n + spare) * es, 'heap', 'element block of %s' % path)
            b = ('p', blk.id, 0)
            items = tuple(self.build(desc.elem, sh[i], self.padd(b, i * es), '%s[%d]' % (path, i)) for i in range(n))
            m.store(self.padd(p, desc.o_start), 8, b)
            m.store(self.padd(p, desc.o_finish), 8, self.padd(b, n * es))
            m.store(self.padd(p, desc.o_eos), 8, self.padd(b, (n + spare) * es))
            return ('vec', items)
        if k == 'map':
            n = len(sh)
            hdr = self.padd(p, desc.o_header)
            R = vm.RB_OFF
            m.write_cells(self.padd(p, 0), [0] * desc.o_header)
            m.store(self.padd(hdr, R['color']), 4, 0)
            m.store(self.padd(p, desc.o_count), 8, n)
            nodes = []
            items = []
            for i in range(n):
                nd = m.new_obj(desc.node_size, 'heap', 'tree node of %s' % path)
                np_ = ('p', nd.id, 0)
                nodes.append(np_)
                kv = self.build(desc.pair, [sh[i][0], sh[i][1]], self.padd(np_, desc.o_value), '%s{%d}' % (path, i))
                key, val = kv[1][0], kv[1][1]
                self.register_key(key)
                items.append((key, val))
            # a right-leaning chain is a valid search tree for keys in ascending order
            for i, np_ in enumerate(nodes):
                m.store(self.padd(np_, R['color']), 4, 1 if i == 0 else 0)
                m.store(self.padd(np_, R['parent']), 8, hdr if i == 0 else nodes[i - 1])
                m.store(self.padd(np_, R['left']), 8, NULL)
                m.store(self.padd(np_, R['right']), 8, nodes[i + 1] if i + 1 < n else NULL)
            m.store(self.padd(hdr, R['parent']), 8, nodes[0] if n else NULL)
            m.store(self.padd(hdr, R['left']), 8, nodes[0] if n else hdr)
            m.store(self.padd(hdr, R['right']), 8, nodes[-1] if n else hdr)
            return ('map', tuple(items))
        if k == 'struct':
            return ('st', tuple(self.build(f[2], s, self.padd(p, f[1]), '%s.%s' % (path, f[0]))
                                for f, s in zip(desc.fields, sh)))
        raise AnalysisBroken('cannot lay out %s' % desc.name)

    def raw_string(self, desc, p, cells):
        """a std::string object holding the given bytes (small-string buffer up to 15, a heap block beyond)"""
        m = self.m
        n = len(cells)
        if n <= 15:
            m.store(self.padd(p, desc.o_ptr), 8, self.padd(p, desc.o_buf))
            m.store(self.padd(p, desc.o_len), 8, n)
            m.write_cells(self.padd(p, desc.o_buf), list(cells) + [0])
            return
        blk = m.new_obj(n + 1, 'heap', 'character block of a string of %d bytes' % n)
        blk.cells[:] = list(cells) + [0]
        m.store(self.padd(p, desc.o_ptr), 8, ('p', blk.id, 0))
        m.store(self.padd(p, desc.o_len), 8, n)
        m.store(self.padd(p, desc.o_buf), 8, n)          # capacity shares the storage of the small-string buffer

    def register_key(self, key):
        m = self.m
        if key == ('str', ()):
            m.key_rank[key] = -1
            return
        if key in m.key_rank:
            raise AnalysisBroken('two written map keys coincide (pinned symbols)')
        m.key_rank[key] = m.next_rank
        m.next_rank += 1
        m.key_syms.update(vm.symbols_of(key))
        KEY_SYMBOLS.update(vm.symbols_of(key))

    def blank(self, desc, p):
        """a default-constructed object (scalars indeterminate)"""
        m = self.m
        k = desc.kind
        if k == 'scalar':
            return
        if k == 'str':
            m.store(self.padd(p, desc.o_ptr), 8, self.padd(p, desc.o_buf))
            m.store(self.padd(p, desc.o_len), 8, 0)
            m.write_cells(self.padd(p, desc.o_buf), [0])
        elif k == 'vec':
            for o in (desc.o_start, desc.o_finish, desc.o_eos):
                m.store(self.padd(p, o), 8, NULL)
        elif k == 'map':
            self.build(desc, [], p, '')
        elif k == 'struct':
            for f in desc.fields:
                self.blank(f[2], self.padd(p, f[1]))

    # -- reading back -----------------------------------------------------------------------------------------
    def ptr_at(self, p, what):
        v = self.m.load(p, 8, PTR)
        if not (isinstance(v, tuple) and v[0] == 'p'):
            raise Malformed('%s is not a pointer (%s)' % (what, show_val(v)))
        return v

    def int_at(self, p, what):
        v = self.m.load(p, 8, U64)
        if not isinstance(v, int):
            raise Malformed('%s is not a number (%s)' % (what, show_val(v)))
        return v

    def extract(self, desc, p, path='value'):
        m = self.m
        k = desc.kind
        try:
            if k == 'scalar':
                return ('sc', tuple(m.read_cells(p, desc.valbytes)))
            if k == 'str':
                d = self.ptr_at(self.padd(p, desc.o_ptr), 'data pointer of ' + path)
                n = self.int_at(self.padd(p, desc.o_len), 'length of ' + path)
                if n > 4096:
                    raise Malformed('length of %s is %d' % (path, n))
                return ('str', tuple(m.read_cells(d, n)))
            if k == 'vec':
                a = self.ptr_at(self.padd(p, desc.o_start), 'begin of ' + path)
                b = self.ptr_at(self.padd(p, desc.o_finish), 'end of ' + path)
                if a == b:
                    return ('vec', ())
                if a[1] != b[1] or (b[2] - a[2]) % desc.elem.size or b[2] < a[2]:
                    raise Malformed('begin / end of %s do not delimit elements' % path)
                n = (b[2] - a[2]) // desc.elem.size
                return ('vec', tuple(self.extract(desc.elem, self.padd(a, i * desc.elem.size), '%s[%d]' % (path, i))
                                     for i in range(n)))
            if k == 'map':
                hdr = self.padd(p, desc.o_header)
                n = self.int_at(self.padd(p, desc.o_count), 'node count of ' + path)
                cur = self.ptr_at(self.padd(hdr, vm.RB_OFF['left']), 'leftmost node of ' + path)
                items = []
                while cur != hdr:
                    if len(items) > n + 8:
                        raise Malformed('%s: more nodes than its count %d' % (path, n))
                    kv = self.extract(desc.pair, self.padd(cur, desc.o_value), '%s{%d}' % (path, len(items)))
                    items.append((kv[1][0], kv[1][1]))
                    cur = vm.rb_increment(m, cur)
                if len(items) != n:
                    raise Malformed('%s: %d nodes reachable but node count %d' % (path, len(items), n))
                return ('map', tuple(items))
            if k == 'struct':
                return ('st', tuple(self.extract(f[2], self.padd(p, f[1]), '%s.%s' % (path, f[0])) for f in desc.fields))
        except Stop as e:
            raise Malformed('%s cannot be read back: %s' % (path, e.text))
        raise AnalysisBroken('cannot read back %s' % desc.name)


def show_cell(c):
    if c is None:
        return '<indeterminate>'
    if isinstance(c, int):
        return '0x%02x' % c
    if isinstance(c, str):
        return c
    if isinstance(c, tuple) and c[0] == 'pf':
        return '<byte %d of a pointer>' % c[2]
    if isinstance(c, tuple) and c[0] == 'xb':
        return '<byte %d of a value computed from %s>' % (c[2], ', '.join(vm.symbols_of(c)[:3]) or '?')
    return str(c)


def show_val(v):
    if isinstance(v, int):
        return str(v)
    if v == UNDEF:
        return 'indeterminate'
    if isinstance(v, tuple) and v[0] == 's':
        return 'bytes ' + ' '.join(show_cell(c) for c in v[1])
    if isinstance(v, tuple) and v[0] == 'p':
        return 'null' if v == NULL else 'pointer'
    return str(v)[:80]


def diff(desc, want, got, path='value'):
    """first difference between two specs, as text; None when identical"""
    k = desc.kind
    if k == 'scalar':
        for j, (a, b) in enumerate(zip(want[1], got[1])):
            if a != b:
                return '%s (%s): byte %d is %s, written was %s' % (path, desc.name, j, show_cell(b), show_cell(a))
        return None
    if k == 'str':
        if len(want[1]) != len(got[1]):
            return '%s: string of length %d, written was length %d' % (path, len(got[1]), len(want[1]))
        for j, (a, b) in enumerate(zip(want[1], got[1])):
            if a != b:
                return '%s: character %d is %s, written was %s' % (path, j, show_cell(b), show_cell(a))
        return None
    if k == 'vec':
        if len(want[1]) != len(got[1]):
            return '%s: %d element(s), written were %d' % (path, len(got[1]), len(want[1]))
        for i, (a, b) in enumerate(zip(want[1], got[1])):
            d = diff(desc.elem, a, b, '%s[%d]' % (path, i))
            if d:
                return d
        return None
    if k == 'map':
        if len(want[1]) != len(got[1]):
            return '%s: %d entr(ies), written were %d' % (path, len(got[1]), len(want[1]))
        for i, (a, b) in enumerate(zip(want[1], got[1])):
            d = diff(desc.key, a[0], b[0], '%s{%d}.key' % (path, i)) or diff(desc.val, a[1], b[1], '%s{%d}.mapped' % (path, i))
            if d:
                return d
        return None
    if k == 'struct':
        for f, a, b in zip(desc.fields, want[1], got[1]):
            d = diff(f[2], a, b, '%s.%s' % (path, f[0]))
            if d:
                return d
        return None
    raise AnalysisBroken('cannot compare %s' % desc.name)


# ----------------------------------------------------------------------------------------------------------------
# the key ordering oracle
# ----------------------------------------------------------------------------------------------------------------
def install_less(m, heap, types):
    """std::less<K>::operator() on map keys: K arithmetic or std::string.  Keys that were written are ordered by the
    scenario (ascending in the written map); two concrete keys are compared by value; anything else is a key that was
    never written (recorded, the scenario fails on it)"""
    def key_desc(f):
        dt = f.d.get('ditypes') or []
        if len(dt) != 4 or '*' in dt[2]['type']:
            return None
        try:
            kd = types.parse(dt[2]['type'])
        except AnalysisBroken:
            return None
        return kd if kd.kind in ('scalar', 'str') else None

    def is_less(f):
        return f.scope.startswith('std::less<') and f.srcname == 'operator()' and len(f.params) == 3 and key_desc(f) is not None

    def concrete(key):
        return all(isinstance(c, int) for c in key[1])

    def number(key, signed):
        v = 0
        for j, c in enumerate(key[1]):
            v |= c << (8 * j)
        n = 8 * len(key[1])
        return v - (1 << n) if signed and v >= (1 << (n - 1)) else v

    def hook(mm, args, x):
        f = mm.mod.fn(x.a) if x.a else None
        if f is None:
            raise AnalysisBroken('indirect call of a comparator')
        kd = key_desc(f)
        try:
            a = heap.extract(kd, args[1], 'key')
            b = heap.extract(kd, args[2], 'key')
        except Malformed as e:
            raise Stop('undef', 'a map key that is compared is not a well-formed object: %s' % e)
        ca, cb = concrete(a), concrete(b)
        if ca and cb and not (a in mm.key_rank and b in mm.key_rank):
            if kd.kind == 'str':
                return 1 if list(a[1]) < list(b[1]) else 0
            if kd.name in ('float', 'double', 'long double'):
                raise AnalysisBroken('ordering of concrete floating-point keys')
            sg = f.d['ditypes'][2].get('signed') == 1
            return 1 if number(a, sg) < number(b, sg) else 0
        if (ca and a not in mm.key_rank) or (cb and b not in mm.key_rank):
            # a constant against a key of the written value: the outcome depends on the contents
            raise Stop('symbolic', 'a written map key is compared with a constant', vm.symbols_of((a, b)))
        ra, rb = rank(mm, a), rank(mm, b)
        return 1 if ra < rb else 0

    def rank(mm, key):
        r = mm.key_rank.get(key)
        if r is None:
            if key[0] == 'str' and not key[1]:
                return -1
            mm.foreign_keys.append(key)
            r = 1000000 + len(mm.foreign_keys)
            mm.key_rank[key] = r
        return r
    m.hook_preds.append((is_less, hook))


# ----------------------------------------------------------------------------------------------------------------
# scenario outcome
# ----------------------------------------------------------------------------------------------------------------
class Fail(Exception):
    """a clause fails on a concrete shape (for every content of it, or for the pinned contents named in the text)"""

    def __init__(self, clause, text, where=None, culprit=None):
        Exception.__init__(self, text)
        self.clause = clause
        self.text = text
        self.where = where
        self.culprit = culprit


def chain_text(chain):
    seen = []
    for c in chain:
        n = c if isinstance(c, str) else c[0]
        if n not in seen:
            seen.append(n)
    return ' > '.join(short(n) for n in seen[-3:])


def short(q):
    q = q.replace('std::__cxx11::basic_string<char, std::char_traits<char>, std::allocator<char> >', 'std::string')
    for w in ('std::allocator<', 'std::less<', 'std::char_traits<'):
        while True:
            i = q.find(', ' + w)
            if i < 0:
                break
            j = i + 2 + len(w)
            depth = 1
            while j < len(q) and depth:
                depth += {'<': 1, '>': -1}.get(q[j], 0)
                j += 1
            q = q[:i] + q[j:]
    q = re.sub(r'\s+>', '>', q).replace('igris::archive::', '')
    return q if len(q) < 150 else q[:147] + '...'


def stop_to_fail(e, phase, wire=None):
    """a Stop raised while the writer / reader was interpreted"""
    ch = chain_text(e.chain or [])
    where = e.where
    if e.kind == 'oob' and wire is not None and e.obj is wire:
        return Fail('reads-only-own-bytes', 'the reader reads beyond the bytes the writer produced: %s (in %s)' % (e.text, ch),
                    where, ch)
    if e.kind == 'budget':
        # shapes are concrete and tiny: a run that is still going after millions of interpreted instructions does not end
        return Fail('completes', 'the %s does not terminate on this shape: %s (in %s)' % (phase, e.text, ch), where, ch)
    if e.kind in ('oob', 'dead', 'null', 'throw'):
        return Fail('completes', 'the %s does not run to completion: %s (in %s)' % (phase, e.text, ch), where, ch)
    return None


class Ctx:
    """per module: program, types, anchors"""

    def __init__(self, mod, repo):
        self.mod = mod
        self.repo = repo.rstrip('/') + '/'
        self.prog = Program(mod, (self.repo, WIT + '/'))
        self.types = Types(mod)
        self.buf = self.types.di('buffer', need=False)

    def machine(self, assume=None):
        m = Machine(self.prog)
        m.hooks.update(vm.BASE_HOOKS)
        h = Heap(m, assume)
        install_less(m, h, self.types)
        return m, h

    def ctor(self, cls, nparams, ptype=None):
        c = [f for f in self.mod.defined() if f.scope == cls + '::' and f.srcname == cls.split('::')[-1]
             and len(f.params) == nparams and (ptype is None or ptype(f))]
        if len(c) != 1:
            raise AnalysisBroken('constructor of %s with %d parameter(s): %d candidates in the unit' % (cls, nparams - 1, len(c)))
        return c[0].name

    def field(self, cls, name):
        d = self.types.di(cls)
        return self.types.member(d, name)['off']

    def size(self, cls):
        return self.types.di(cls)['size']


def with_pins(run, max_depth=3):
    """run(assume) -> None | raises Fail / Stop.  Control that depends on the contents is explored with the symbols
    involved pinned to a few representative numbers: a pinned run that fails is a concrete counterexample; when every
    pinned run passes nothing is known (AnalysisBroken)."""
    def go(assume, depth):
        try:
            run(assume)
            return None
        except Stop as e:
            if e.kind != 'symbolic':
                raise
            syms = [s for s in e.symbols if s not in assume]
            if any(s in KEY_SYMBOLS for s in syms):
                # the bytes of a map key are never pinned: the written map is laid out for keys in ascending order
                raise AnalysisBroken('control depends on the bytes of a map key: %s at %s (%s)'
                                     % (e.text, e.where, chain_text(e.chain or [])))
            if not syms or depth >= max_depth:
                raise AnalysisBroken('control depends on the contents of the value: %s at %s (%s)'
                                     % (e.text, e.where, chain_text(e.chain or [])))
            last = e
            for vals in ([0] * len(syms), [1] + [0] * (len(syms) - 1), [2] + [0] * (len(syms) - 1)):
                a2 = dict(assume)
                a2.update(dict(zip(syms, vals)))
                try:
                    go(a2, depth + 1)
                except Fail as f:
                    pins = ', '.join('%s = %d' % (s, v) for s, v in sorted(a2.items()))
                    f.text = '%s  [counterexample contents: %s; found because %s at %s]' % (f.text, pins, e.text, e.where)
                    if f.culprit is None:
                        f.culprit = chain_text(e.chain or [])
                    raise f
            raise AnalysisBroken('control depends on the contents of the value and the representative contents pass: %s at %s (%s)'
                                 % (last.text, last.where, chain_text(last.chain or [])))
    return go({}, 0)


# ----------------------------------------------------------------------------------------------------------------
# family A: binary_string_writer / binary_buffer_reader
# ----------------------------------------------------------------------------------------------------------------
class ArchiveA:
    name = 'A'

    def __init__(self, ctx):
        self.ctx = ctx
        t = ctx.types
        self.W = 'igris::archive::binary_string_writer'
        self.R = 'igris::archive::binary_buffer_reader'
        self.w_ctor = ctx.ctor(self.W, 2)
        self.r_ctor = ctx.ctor(self.R, 3)
        self.w_size = ctx.size('binary_string_writer')
        self.r_size = ctx.size('binary_buffer_reader')
        self.o_ptr = ctx.field('binary_buffer_reader', 'ptr')
        self.o_end = ctx.field('binary_buffer_reader', '_end')
        self.strd = t.parse('string')
        # the memcpy based writer, when the unit instantiates it
        self.bw_ctor = None
        if t.di('binary_buffer_writer', need=False) is not None:
            c = [f for f in ctx.mod.defined() if f.scope == 'igris::archive::binary_buffer_writer::'
                 and f.srcname == 'binary_buffer_writer' and len(f.params) == 3 and f.params[1]['ty']['k'] == 'ptr'
                 and f.params[2]['ty']['k'] == 'int']
            if len(c) == 1:
                self.bw_ctor = c[0].name
                self.bw_size = ctx.size('binary_buffer_writer')
                self.bw_ptr = ctx.field('binary_buffer_writer', 'ptr')

    def writer(self, m, h):
        out = m.new_obj(self.strd.size, 'param', 'output string of the writer')
        outp = ('p', out.id, 0)
        h.blank(self.strd, outp)
        w = m.new_obj(self.w_size, 'param', 'binary_string_writer')
        wp = ('p', w.id, 0)
        m.call(self.w_ctor, [wp, outp])
        return wp, outp

    def written(self, m, h, st):
        return list(h.extract(self.strd, st, 'output string')[1])

    def reader(self, m, h, wire):
        r = m.new_obj(self.r_size, 'param', 'binary_buffer_reader')
        rp = ('p', r.id, 0)
        m.call(self.r_ctor, [rp, ('p', wire.id, 0), wire.size])
        return rp

    def cursor(self, m, rp, wire):
        v = m.load(('p', rp[1], rp[2] + self.o_ptr), 8, PTR)
        if isinstance(v, tuple) and v[0] == 'p' and v[1] == wire.id:
            return v[2]
        return v

    def call_w(self, m, root, wp, src):
        m.call(root['w'].name, [wp, src])

    def call_r(self, m, root, rp, dst):
        m.call(root['r'].name, [rp, dst])


class ArchiveB:
    name = 'B'

    def __init__(self, ctx):
        self.ctx = ctx
        t = ctx.types
        mod = ctx.mod
        self.strd = t.parse('string')
        ser = [f for f in mod.defined() if f.scope.startswith('igris::serializer<') and f.srcname == 'serializer' and len(f.params) == 2]
        des = [f for f in mod.defined() if f.scope.startswith('igris::deserializer<') and f.srcname == 'deserializer' and len(f.params) == 2]
        sto = [f for f in mod.defined() if f.scope == 'igris::deserialize_buffer_storage::' and f.srcname == 'deserialize_buffer_storage'
               and len(f.params) == 2]
        if len(ser) != 1 or len(des) != 1 or len(sto) != 1:
            raise AnalysisBroken('constructors of serializer / deserializer / deserialize_buffer_storage: %d / %d / %d in the unit'
                                 % (len(ser), len(des), len(sto)))
        self.ser_ctor, self.des_ctor, self.sto_ctor = ser[0].name, des[0].name, sto[0].name
        self.ser_size = tsize(ser[0].params[0])
        self.des_size = tsize(des[0].params[0])
        self.sto_size = tsize(sto[0].params[0])
        self.wsto_size = tsize(ser[0].params[1])
        sd = t.di('appendable_storage<%s>' % STRING_NAMES[1])
        self.o_wstr = t.member(sd, '_storage')['off']
        rd = t.di('deserialize_buffer_storage')
        self.o_cursor = t.member(rd, 'cursor')['off']
        bd = t.di('buffer')
        self.o_buf, self.o_sz, self.buf_size = t.member(bd, 'buf')['off'], t.member(bd, 'sz')['off'], bd['size']

    def writer(self, m, h):
        sto = m.new_obj(self.wsto_size, 'param', 'string_storage of the writer')
        sp = ('p', sto.id, 0)
        m.write_cells(sp, [0] * self.wsto_size)
        h.blank(self.strd, ('p', sto.id, self.o_wstr))
        w = m.new_obj(self.ser_size, 'param', 'serializer')
        wp = ('p', w.id, 0)
        m.call(self.ser_ctor, [wp, sp])
        return wp, ('p', sto.id, self.o_wstr)

    def written(self, m, h, st):
        return list(h.extract(self.strd, st, 'storage string')[1])

    def reader(self, m, h, wire):
        b = m.new_obj(self.buf_size, 'param', 'igris::buffer over the written bytes')
        bp = ('p', b.id, 0)
        m.store(('p', b.id, self.o_buf), 8, ('p', wire.id, 0))
        m.store(('p', b.id, self.o_sz), 8, wire.size)
        sto = m.new_obj(self.sto_size, 'param', 'deserialize_buffer_storage')
        sp = ('p', sto.id, 0)
        m.call(self.sto_ctor, [sp, bp])
        r = m.new_obj(self.des_size, 'param', 'deserializer')
        rp = ('p', r.id, 0)
        m.call(self.des_ctor, [rp, sp])
        self._sto = sp
        return rp

    def cursor(self, m, rp, wire):
        return m.load(('p', self._sto[1], self._sto[2] + self.o_cursor), 8, U64)

    def call_w(self, m, root, wp, src):
        m.call(root['w'].name, [wp, src])

    def call_r(self, m, root, rp, dst):
        m.call(root['r'].name, [rp, dst])


def tsize(param):
    s = param['ty'].get('elemsize')
    if not s:
        raise AnalysisBroken('size of %s unknown' % param['ty'].get('s'))
    return s


def root_desc(ctx, root):
    dt = root['w'].d.get('ditypes') or []
    if len(dt) < 3:
        raise AnalysisBroken('no debug-info signature for %s' % root['w'].name)
    return ctx.types.parse(dt[-1]['type'], root['elem'].get('elemsize'))


def run_values(ctx, arch, root, desc, variants, assume, stats):
    return run_items(ctx, arch, [(root, desc, v) for v in variants], assume, stats)


def run_items(ctx, arch, items, assume, stats, check_image=True):
    """write the values (root, type, variant) one after the other through one writer, read them back in order
    through one reader.  Raises Fail(clause, ...) / Stop / AnalysisBroken; returns facts on success"""
    m, h = ctx.machine(assume)
    wp, outstr = arch.writer(m, h)
    specs, ends = [], []
    for n, (root, desc, v) in enumerate(items):
        sh = make_shape(desc, v)
        src = m.new_obj(desc.size, 'param', 'the value that is written')
        sp = ('p', src.id, 0)
        specs.append((h.build(desc, sh, sp, 'v%d' % v if len(set(id(i[1]) for i in items)) == 1 else 'v%d_%d' % (n, v)), sh))
        try:
            arch.call_w(m, root, wp, sp)
        except Stop as e:
            f = stop_to_fail(e, 'writer')
            if f is None:
                raise
            f.text = '%s: %s' % (shape_text(desc, sh), f.text)
            raise f
        ends.append(len(arch.written(m, h, outstr)))
    cells = arch.written(m, h, outstr)
    who = None
    try:
        d = h.ptr_at(('p', outstr[1], outstr[2] + arch.strd.o_ptr), 'data pointer')
        who = m.objs[d[1]].who[d[2]:d[2] + len(cells)]
    except Exception:
        who = None
    wire = m.new_obj(len(cells), 'wire', 'the bytes the writer produced')
    wire.cells[:] = cells
    wire.ro = True
    wire.watch = [None, None]
    rp = arch.reader(m, h, wire)
    wire.watch = [None, None]
    begin = 0
    for n, (root, desc, v) in enumerate(items):
        spec, sh = specs[n]
        st = shape_text(desc, sh)
        seq = '' if n == 0 else ' (value %d of a sequence, its bytes start at offset %d)' % (n + 1, begin)
        dst = m.new_obj(desc.size, 'param', 'the object that is read into')
        dp = ('p', dst.id, 0)
        h.blank(desc, dp)
        wire.watch = [None, None]
        try:
            arch.call_r(m, root, rp, dp)
        except Stop as e:
            f = stop_to_fail(e, 'reader', wire)
            if f is None:
                raise
            f.text = '%s%s: %s' % (st, seq, f.text)
            f.clause = f.clause if n == 0 else 'sequence'
            raise f
        try:
            got = h.extract(desc, dp)
        except Malformed as e:
            raise Fail('value-identity' if n == 0 else 'sequence', '%s%s: the object read back is not well formed: %s' % (st, seq, e))
        df = diff(desc, spec, got)
        if df:
            culprit, wh = blame(m, h, desc, dp, spec, got, wire, who)
            raise Fail('value-identity' if n == 0 else 'sequence', '%s%s: %s%s' % (st, seq, df, culprit), wh, culprit)
        cur = arch.cursor(m, rp, wire)
        if cur != ends[n]:
            raise Fail('cursor-at-end' if n == 0 else 'sequence', '%s%s: after the value was read the cursor is at %s but its encoding '
                       'ends at offset %d of the written bytes (%s)' % (st, seq, cur if isinstance(cur, int) else show_val(cur), ends[n],
                                                                      'the value that follows is decoded from the wrong place'))
        lo, hi = wire.watch
        if lo is not None and (lo < begin or hi > ends[n]):
            raise Fail('reads-only-own-bytes' if n == 0 else 'sequence', '%s%s: the reader touched bytes [%d, %d) of the archive, the '
                       'encoding of the value is [%d, %d)' % (st, seq, lo, hi, begin, ends[n]))
        begin = ends[n]
    # every byte of the archive is a constant (a count) or a byte of the written value - never indeterminate memory (an
    # uninitialised local), never part of an address; the padding of a scalar's native image (IR store size < alloc size)
    # has no prescribed content and is skipped
    pad = padding_positions(m, cells)
    bad = [k for k, c in enumerate(cells) if not isinstance(c, (int, Sym)) and k not in pad] if (check_image and not assume) else []
    if bad:
        k = bad[0]
        n = [i for i, e in enumerate(ends) if k < e][0]
        root, desc, v = items[n]
        tag = m.tags[who[k]] if who is not None and k < len(who) else ()
        wh = None
        for fr in reversed(tag):
            # the innermost function above the byte-moving leaves (dump_data / storage dump)
            if fr[0].endswith('::dump_data') or fr[0].endswith('>::dump'):
                continue
            wh = '%s:%d' % (fr[1], fr[2])
            break
        raise Fail('encoding-is-determined-by-the-value',
                   '%s: byte %d of its encoding (offset %d of the archive, %d such byte(s) in all) is %s, which is neither a count nor a byte of '
                   'the value nor padding of a scalar\'s native image%s'
                   % (shape_text(desc, specs[n][1]), k - (ends[n - 1] if n else 0), k, len(bad), show_cell(cells[k]),
                      ('; the byte was put there by %s' % chain_text(tag)) if tag else ''), wh)
    note_stats(stats, m)
    return {'bytes': ends[-1] if ends else 0, 'cells': cells, 'pad': pad}


def padding_positions(m, cells):
    """archive offsets that hold the padding of a scalar's native image: a scalar whose IR store size is smaller than
    its alloc size (x86_fp80: 10 of 16) is written as its whole object, the bytes behind its value bytes have no
    prescribed content (they may be anything, also stack or heap garbage) and no clause looks at them"""
    out = set()
    if not m.padded:
        return out
    first = {}
    for vb, npad in m.padded.items():
        first.setdefault(vb[0], []).append((vb, npad))
    for k, c in enumerate(cells):
        for vb, npad in first.get(c, ()) if isinstance(c, Sym) else ():
            if tuple(cells[k:k + len(vb)]) == vb:
                out.update(range(k + len(vb), min(len(cells), k + len(vb) + npad)))
    return out


def note_stats(stats, m):
    stats['steps'] = stats.get('steps', 0) + m.steps
    stats['calls'] = stats.get('calls', 0) + m.calls
    stats['scenarios'] = stats.get('scenarios', 0) + 1
    stats.setdefault('fns', set()).update(m.seen_fns)


def run_buffer_writer(ctx, arch, root, desc, variants, assume, stats, want):
    """the same values through a binary_buffer_writer over an exactly sized buffer: the same bytes arrive, the write
    cursor ends at the end of the buffer"""
    m, h = ctx.machine(assume)
    buf = m.new_obj(len(want), 'param', 'output buffer of the binary_buffer_writer (%d bytes)' % len(want))
    w = m.new_obj(arch.bw_size, 'param', 'binary_buffer_writer')
    wp = ('p', w.id, 0)
    m.call(arch.bw_ctor, [wp, ('p', buf.id, 0), len(want)])
    for v in variants:
        sh = make_shape(desc, v)
        src = m.new_obj(desc.size, 'param', 'the value that is written')
        sp = ('p', src.id, 0)
        h.build(desc, sh, sp, 'v%d' % v)
        try:
            arch.call_w(m, root, wp, sp)
        except Stop as e:
            f = stop_to_fail(e, 'writer')
            if f is None:
                raise
            f.clause = 'buffer-writer-same-bytes'
            f.text = '%s through a binary_buffer_writer over a buffer of exactly the %d bytes the string writer produced: %s' % (
                shape_text(desc, sh), len(want), f.text)
            raise f
    pad = padding_positions(m, want)
    diffs = [k for k in range(len(want)) if buf.cells[k] != want[k] and k not in pad]
    if diffs:
        j = diffs[0]
        raise Fail('buffer-writer-same-bytes', 'byte %d written through a binary_buffer_writer is %s, through the '
                   'binary_string_writer it is %s' % (j, show_cell(buf.cells[j]), show_cell(want[j])))
    cur = m.load(('p', w.id, arch.bw_ptr), 8, PTR)
    if cur != ('p', buf.id, len(want)):
        raise Fail('buffer-writer-same-bytes', 'after %d bytes were written the write cursor of the binary_buffer_writer is %s'
                   % (len(want), ('at offset %d' % cur[2]) if isinstance(cur, tuple) and cur[0] == 'p' and cur[1] == buf.id
                      else show_val(cur)))
    note_stats(stats, m)


def blame(m, h, desc, dp, want, got, wire, who):
    """who delivered the first differing byte, and who wrote the byte that should have arrived there"""
    loc = first_diff_loc(h, desc, dp, want, got)
    if loc is None:
        return '', None
    (p, wcell, gcell) = loc
    txt = ''
    wh = None
    try:
        o = m.objs.get(p[1])
        if o is not None:
            tag = m.tags[o.who[p[2]]]
            if tag:
                txt += '; the byte was stored by %s' % chain_text(tag)
    except Exception:
        pass
    if isinstance(wcell, str):
        pos = [j for j, c in enumerate(wire.cells) if c == wcell]
        if not pos:
            txt += '; the written byte %s never reached the archive' % wcell
        else:
            txt += '; the written byte %s is at offset %d of the archive' % (wcell, pos[0])
            if who is not None and pos[0] < len(who):
                tag = m.tags[who[pos[0]]]
                if tag:
                    txt += ' (put there by %s)' % chain_text(tag)
    return txt, wh


def first_diff_loc(h, desc, p, want, got):
    k = desc.kind
    try:
        if k == 'scalar':
            for j, (a, b) in enumerate(zip(want[1], got[1])):
                if a != b:
                    return (h.padd(p, j), a, b)
            return None
        if k == 'str':
            d = h.ptr_at(h.padd(p, desc.o_ptr), 'data')
            for j, (a, b) in enumerate(zip(want[1], got[1])):
                if a != b:
                    return (h.padd(d, j), a, b)
            return None
        if k == 'vec':
            a0 = h.ptr_at(h.padd(p, desc.o_start), 'begin')
            for i, (a, b) in enumerate(zip(want[1], got[1])):
                r = first_diff_loc(h, desc.elem, h.padd(a0, i * desc.elem.size), a, b)
                if r:
                    return r
            return None
        if k == 'struct':
            for f, a, b in zip(desc.fields, want[1], got[1]):
                r = first_diff_loc(h, f[2], h.padd(p, f[1]), a, b)
                if r:
                    return r
            return None
        if k == 'map':
            hdr = h.padd(p, desc.o_header)
            cur = h.ptr_at(h.padd(hdr, vm.RB_OFF['left']), 'leftmost')
            for (a, b) in zip(want[1], got[1]):
                r = first_diff_loc(h, desc.pair, h.padd(cur, desc.o_value), ('st', a), ('st', b))
                if r:
                    return r
                cur = vm.rb_increment(h.m, cur)
            return None
    except (Stop, Malformed):
        return None
    return None


CLAUSES = ('completes', 'value-identity', 'cursor-at-end', 'reads-only-own-bytes', 'sequence',
           'encoding-is-determined-by-the-value')


def helper_of(ctx, f):
    """the type specific helper a root function hands its work to (first callee defined in the library / witness)"""
    for c in f.calls():
        g = ctx.mod.fn(c.callee) if c.callee else None
        if g is not None and not g.decl and g.file.startswith((ctx.repo, WIT + '/')):
            return g
    return f


def helpers_text(ctx, w, r):
    hw, hr = helper_of(ctx, w), helper_of(ctx, r)
    return ('  [writer: %s (%s:%d); reader: %s (%s:%d)]' % (short(hw.qualname), relpath(ctx.repo, hw.file), hw.line,
                                                            short(hr.qualname), relpath(ctx.repo, hr.file), hr.line),
            '%s:%d' % (hr.file, hr.line))


SUBRULE = {'completes': 'completes', 'value-identity': 'value', 'cursor-at-end': 'cursor', 'reads-only-own-bytes': 'reads',
           'sequence': 'sequence', 'mixed-sequence': 'sequence', 'buffer-writer-same-bytes': 'writer',
           'encoding-is-determined-by-the-value': 'image'}


def evaluate(rep, rule, fn, clauses, plans, where0, suffix, fact=None, prefix=''):
    """plans: callables(assume) that raise Fail / Stop / AnalysisBroken.  One instance per clause; the clauses behind
    the first failing one are not reported (a run stops at its first failing clause)"""
    failed = {}
    broken = None
    for plan in plans:
        try:
            with_pins(plan)
        except Fail as f:
            failed.setdefault(f.clause, f)
        except Stop as e:
            broken = AnalysisBroken('%s: %s at %s (%s)' % (fn, e.text, e.where, chain_text(e.chain or [])))
        except AnalysisBroken as e:
            broken = AnalysisBroken('%s: %s' % (fn, e))
        except (KeyError, IndexError, TypeError, ValueError, AttributeError, RecursionError) as e:
            broken = AnalysisBroken('%s: the interpreter cannot follow this code (%s: %s)' % (fn, type(e).__name__, e))
    if broken is not None and not failed:
        rep.defer_broken(broken)
        return False
    first = min([clauses.index(c) for c in failed if c in clauses] or [len(clauses)])
    for n, c in enumerate(clauses):
        f = failed.get(c)
        if f is None and n > first:
            continue
        rep.inst(rule + ':' + ('api' if prefix else SUBRULE[c]), fn, prefix + c, f is None,
                 (f.where if f is not None and f.where else where0), None if f is None else f.text + suffix, fact=fact)
    for c, f in failed.items():
        if c not in clauses:
            rep.inst(rule + ':' + ('api' if prefix else SUBRULE.get(c, 'completes')), fn, prefix + c, False, f.where or where0,
                     f.text + suffix, fact=fact)
    return not failed


def roundtrip_rule(rep, ctx, arch, roots, variants, stats, done):
    for root in roots:
        fn = '%s [%s]' % (root['label'], root['via'])
        if fn in done:
            continue
        done.add(fn)
        suffix, where0 = helpers_text(ctx, root['w'], root['r'])
        desc = root_desc(ctx, root)
        last = {}

        def plan(vs, keep=False):
            def go(assume):
                r = run_values(ctx, arch, root, desc, vs, assume, stats)
                if keep and not assume:
                    last['cells'] = r['cells']
            return go
        plans = [plan([v]) for v in variants] + [plan(list(variants), True)]
        fact = {'shapes': [shape_text(desc, make_shape(desc, v)) for v in variants]}
        ok = evaluate(rep, RULE, fn, CLAUSES, plans, where0, suffix, fact)
        if ok and root.get('basic') and getattr(arch, 'bw_ctor', None) and 'cells' in last:
            evaluate(rep, RULE, fn, ('buffer-writer-same-bytes',),
                     [lambda assume: run_buffer_writer(ctx, arch, root, desc, list(variants), assume, stats, last['cells'])],
                     where0, suffix, fact)


def mixed_rule(rep, ctx, arch, roots, stats, unit):
    """values of DIFFERENT types written one after the other through one archive are read back in order"""
    by_via = {}
    for root in roots:
        by_via.setdefault(root['via'], []).append(root)
    for via, rs in sorted(by_via.items()):
        items = [(r, root_desc(ctx, r), k % 4) for k, r in enumerate(rs)]
        if len(items) < 2:
            continue
        fn = 'every paired type of %s, one after the other [%s]' % (unit, via)
        where0 = '%s:%d' % (rs[0]['r'].file, rs[0]['r'].line)

        def plan(assume):
            try:
                run_items(ctx, arch, items, assume, stats, check_image=False)
            except Fail as f:
                f.clause = 'mixed-sequence'
                raise
        evaluate(rep, RULE, fn, ('mixed-sequence',), [plan], where0, '', fact={'values': len(items)})


# ----------------------------------------------------------------------------------------------------------------
# the functional entry points: deserialize<T>(serialize(v)) == v
# ----------------------------------------------------------------------------------------------------------------
def api_pairs(mod):
    ws, rs = {}, {}
    for f in mod.defined():
        if f.scope == '' and f.srcname.startswith('igris_verif_w_') and len(f.params) == 2 and f.params[0].get('sret'):
            ws[f.srcname[len('igris_verif_w_'):]] = f
        elif f.scope == '' and f.srcname.startswith('igris_verif_r_'):
            rs[f.srcname[len('igris_verif_r_'):]] = f
    return [(t, ws[t], rs[t]) for t in sorted(set(ws) & set(rs))]


def api_rule(rep, ctx, family, variants, stats, done):
    import c09
    t = ctx.types
    strd = t.parse('string')
    bd = t.di('buffer')
    o_buf, o_sz, bsize = t.member(bd, 'buf')['off'], t.member(bd, 'sz')['off'], bd['size']
    n = 0
    for (tag, w, r) in api_pairs(ctx.mod):
        sret = bool(r.params and r.params[0].get('sret'))
        if len(r.params) != (2 if sret else 1):
            continue        # not a (bytes) -> T function
        callee = [ctx.mod.fn(c.callee) for c in w.calls() if c.callee]
        callee = [g for g in callee if g is not None and g.scope == 'igris::' and g.srcname.startswith('serialize<')]
        if len(callee) != 1:
            raise AnalysisBroken('%s does not call exactly one igris::serialize<T>' % w.srcname)
        label = c09.pretty(c09.split_targs(callee[0].srcname)[-1])
        fn = '%s [serialize(obj)/deserialize<T>(bytes)%s]' % (label, '' if family == 'A' else ', serializer/deserializer')
        if fn in done:
            continue
        done.add(fn)
        dt = w.d.get('ditypes') or []
        desc = t.parse(dt[-1]['type'], w.params[1]['ty'].get('elemsize'))
        rcallee = [ctx.mod.fn(c.callee) for c in r.calls() if c.callee]
        rcallee = [g for g in rcallee if g is not None and g.scope == 'igris::' and g.srcname.startswith('deserialize<')]
        if len(rcallee) != 1:
            raise AnalysisBroken('%s does not call exactly one igris::deserialize<T>' % r.srcname)
        suffix = '  [writer: %s (%s:%d); reader: %s (%s:%d)]' % (short(callee[0].qualname), relpath(ctx.repo, callee[0].file), callee[0].line,
                                                                 short(rcallee[0].qualname), relpath(ctx.repo, rcallee[0].file), rcallee[0].line)
        where0 = '%s:%d' % (rcallee[0].file, rcallee[0].line)

        def scenario(v, assume):
            m, h = ctx.machine(assume)
            sh = make_shape(desc, v)
            stx = shape_text(desc, sh)
            src = m.new_obj(desc.size, 'param', 'the value that is serialized')
            spec = h.build(desc, sh, ('p', src.id, 0), 'v%d' % v)
            out = m.new_obj(strd.size, 'param', 'the string serialize() returns')
            try:
                m.call(w.name, [('p', out.id, 0), ('p', src.id, 0)])
            except Stop as e:
                f = stop_to_fail(e, 'writer')
                if f is None:
                    raise
                f.text = '%s: %s' % (stx, f.text)
                raise f
            try:
                cells = list(h.extract(strd, ('p', out.id, 0), 'returned string')[1])
            except Malformed as e:
                raise Fail('completes', '%s: serialize() does not return a well-formed string: %s' % (stx, e))
            if family == 'A':
                wire = m.new_obj(len(cells), 'wire', 'the bytes serialize() returned')
                wire.cells[:] = cells
                wire.ro = True
                inp = m.new_obj(bsize, 'param', 'igris::buffer over the returned bytes')
                m.store(('p', inp.id, o_buf), 8, ('p', wire.id, 0))
                m.store(('p', inp.id, o_sz), 8, len(cells))
            else:
                wire = None
                inp = m.new_obj(strd.size, 'param', 'the string handed to deserialize<T>()')
                h.raw_string(strd, ('p', inp.id, 0), cells)
            args = [('p', inp.id, 0)]
            dst = None
            if sret:
                dst = m.new_obj(desc.size, 'param', 'the object deserialize<T>() returns')
                args = [('p', dst.id, 0)] + args
            try:
                rv = m.call(r.name, args)
            except Stop as e:
                f = stop_to_fail(e, 'reader', wire)
                if f is None:
                    raise
                f.text = '%s: %s' % (stx, f.text)
                raise f
            if sret:
                try:
                    got = h.extract(desc, ('p', dst.id, 0))
                except Malformed as e:
                    raise Fail('value-identity', '%s: the object deserialize<T>() returns is not well formed: %s' % (stx, e))
            else:
                # returned in registers: the value's object representation (a small trivially copyable type)
                tmp = m.new_obj(desc.size, 'param', 'the value deserialize<T>() returns')
                tmp.cells[:] = m.to_cells(rv, desc.size)
                try:
                    got = h.extract(desc, ('p', tmp.id, 0))
                except Malformed as e:
                    raise Fail('value-identity', '%s: the value deserialize<T>() returns is not well formed: %s' % (stx, e))
            df = diff(desc, spec, got, 'deserialize<T>(serialize(v))')
            if df:
                raise Fail('value-identity', '%s: %s' % (stx, df))
            note_stats(stats, m)
        plans = [(lambda assume, v=v: scenario(v, assume)) for v in variants]
        evaluate(rep, RULE, fn, ('completes', 'reads-only-own-bytes', 'value-identity') if family == 'A' else
                 ('completes', 'value-identity'), plans, where0, suffix, prefix='api:')
        n += 1
    return n


# ----------------------------------------------------------------------------------------------------------------
# counted blocks of the archive API
# ----------------------------------------------------------------------------------------------------------------
def block_rules(rep, ctx, arch, stats):
    mod = ctx.mod
    t = ctx.types

    def wfn(name):
        return mod.fn(fn_named(mod, name))
    bd = t.di('buffer')
    o_buf, o_sz, bsize = t.member(bd, 'buf')['off'], t.member(bd, 'sz')['off'], bd['size']
    # a scalar that follows the block: its decoding shows that the block was skipped completely
    sent = [r for r in ROOTS_CACHE[id(mod)] if r['basic'] and '%' not in r['type'] and (r['elem'].get('elemsize') or 0) >= 2]
    if not sent:
        raise AnalysisBroken('no serialize<binary_serializer_basic, scalar> instantiation to follow a counted block')
    sent = sorted(sent, key=lambda r: (r['type'] != 'i32', r['label']))[0]       # an int when there is one
    sdesc = root_desc(ctx, sent)
    if sdesc.kind != 'scalar':
        raise AnalysisBroken('the value chosen to follow a counted block is not a scalar: %s' % sent['label'])
    writers = [('igris_verif_w_cbuf', 'binary_serializer_basic::dump(const char*,uint16_t)', 'cbuf'),
               ('igris_verif_w_buffer', 'binary_serializer_basic::dump(igris::buffer)', 'buffer'),
               ('igris_verif_w_sv', 'binary_serializer_basic::dump(std::string_view)', 'sv')]
    readers = [('igris_verif_r_cbuf', 'binary_deserializer_basic::load(char*,uint16_t)', 'cbuf'),
               ('igris_verif_r_wrbuffer', 'binary_deserializer_basic::load(writable_buffer&)', 'wr'),
               ('igris_verif_r_setbuffer', 'binary_deserializer_basic::load(settable_buffer&)', 'set')]
    for (_n, _l, _k) in writers + readers:
        wfn(_n)

    def scenario(wname, wkind, rname, rkind, ln, cap, assume):
        m, h = ctx.machine(assume)
        wp, outstr = arch.writer(m, h)
        pay = m.new_obj(ln, 'param', 'payload of %d byte(s)' % ln)
        cells = [h.sym('payload[%d]' % j) for j in range(ln)]
        pay.cells[:] = cells
        pp = ('p', pay.id, 0)
        try:
            if wkind == 'cbuf':
                m.call(wfn(wname).name, [wp, pp, ln])
            elif wkind == 'buffer':
                b = m.new_obj(bsize, 'param', 'igris::buffer argument')
                m.store(('p', b.id, o_buf), 8, pp)
                m.store(('p', b.id, o_sz), 8, ln)
                m.call(wfn(wname).name, [wp, ('p', b.id, 0)])
            else:
                m.call(wfn(wname).name, [wp, ln, pp])
        except Stop as e:
            f = stop_to_fail(e, 'writer')
            if f is None:
                raise
            f.clause = 'W:completes'
            raise f
        end_block = len(arch.written(m, h, outstr))
        s_src = m.new_obj(sdesc.size, 'param', 'the value that follows the block')
        s_spec = h.build(sdesc, None, ('p', s_src.id, 0), 'next')
        arch.call_w(m, sent, wp, ('p', s_src.id, 0))
        wcells = arch.written(m, h, outstr)
        # writer clause: the block is u16 length + the payload bytes in order
        want = [ln & 0xff, ln >> 8] + cells
        if wcells[:end_block] != want:
            raise Fail('W:block-is-u16-length-then-payload', 'a payload of %d byte(s) is written as [%s], expected [%s]'
                       % (ln, ' '.join(show_cell(c) for c in wcells[:end_block]), ' '.join(show_cell(c) for c in want)))
        wire = m.new_obj(len(wcells), 'wire', 'the bytes the writer produced')
        wire.cells[:] = wcells
        wire.ro = True
        rp = arch.reader(m, h, wire)
        old = ['old[%d]' % j for j in range(cap)]
        dst = m.new_obj(cap, 'param', 'destination of %d byte(s)' % cap)
        dst.cells[:] = old
        dp = ('p', dst.id, 0)
        k = min(ln, cap)
        pre = 'payload of %d byte(s) into a destination of %d: ' % (ln, cap)
        bobj = None
        try:
            if rkind == 'cbuf':
                m.call(wfn(rname).name, [rp, dp, cap])
            else:
                bobj = m.new_obj(bsize, 'param', 'buffer object handed to load')
                m.store(('p', bobj.id, o_buf), 8, dp if rkind == 'wr' else NULL)
                m.store(('p', bobj.id, o_sz), 8, cap if rkind == 'wr' else 0)
                m.call(wfn(rname).name, [rp, ('p', bobj.id, 0)])
        except Stop as e:
            f = stop_to_fail(e, 'reader', wire)
            if f is None:
                raise
            f.clause = 'R:completes'
            f.text = pre + f.text
            raise f
        if rkind == 'set':
            bp = m.load(('p', bobj.id, o_buf), 8, PTR)
            bs = m.load(('p', bobj.id, o_sz), 8, U64)
            if bp != ('p', wire.id, 2) and not (ln == 0 and bs == 0):
                raise Fail('R:view-is-the-payload', pre + 'the buffer does not point at the payload inside the archive (offset 2): %s'
                           % (('offset %d' % bp[2]) if isinstance(bp, tuple) and bp[0] == 'p' and bp[1] == wire.id else show_val(bp)))
            if bs != ln:
                raise Fail('R:view-is-the-payload', pre + 'the buffer has size %s, the payload has %d byte(s)' % (show_val(bs), ln))
        else:
            got = dst.cells[:k]
            if got != cells[:k]:
                j = [i for i in range(k) if got[i] != cells[i]][0]
                raise Fail('R:delivers-first-min(len,max)', pre + 'destination byte %d is %s, expected %s' % (j, show_cell(got[j]), show_cell(cells[j])))
            if dst.cells[k:] != old[k:]:
                j = [i for i in range(k, cap) if dst.cells[i] != old[i]][0]
                raise Fail('R:rest-of-destination-untouched', pre + 'destination byte %d was overwritten with %s' % (j, show_cell(dst.cells[j])))
            if rkind == 'wr':
                bp = m.load(('p', bobj.id, o_buf), 8, PTR)
                bs = m.load(('p', bobj.id, o_sz), 8, U64)
                if bp != dp or bs != k:
                    raise Fail('R:buffer-becomes-(data,min(len,max))', pre + 'the writable buffer is left as (%s, %s), expected (its data, %d)'
                               % ('its data' if bp == dp else show_val(bp), show_val(bs), k))
        cur = arch.cursor(m, rp, wire)
        if cur != end_block:
            raise Fail('R:block-skipped-completely', pre + 'the cursor is at %s after the load, the block ends at offset %d'
                       % (cur if isinstance(cur, int) else show_val(cur), end_block))
        s_dst = m.new_obj(sdesc.size, 'param', 'object the following value is read into')
        try:
            arch.call_r(m, sent, rp, ('p', s_dst.id, 0))
        except Stop as e:
            f = stop_to_fail(e, 'reader of the value that follows', wire)
            if f is None:
                raise
            f.clause = 'R:block-skipped-completely'
            f.text = pre + f.text
            raise f
        df = diff(sdesc, s_spec, h.extract(sdesc, ('p', s_dst.id, 0)), 'the %s that follows the block' % sdesc.name)
        if df:
            raise Fail('R:block-skipped-completely', pre + df)
        stats['steps'] = stats.get('steps', 0) + m.steps

    W_CL = ('W:completes', 'W:block-is-u16-length-then-payload')
    R_CL = {'cbuf': ('R:completes', 'R:delivers-first-min(len,max)', 'R:rest-of-destination-untouched', 'R:block-skipped-completely'),
            'wr': ('R:completes', 'R:delivers-first-min(len,max)', 'R:rest-of-destination-untouched',
                   'R:buffer-becomes-(data,min(len,max))', 'R:block-skipped-completely'),
            'set': ('R:completes', 'R:view-is-the-payload', 'R:block-skipped-completely')}
    # writers (each against the char* reader with a destination that is large enough), readers (each against dump(buffer))
    plans = []
    for (wname, wlabel, wkind) in writers:
        plans.append((wlabel, W_CL, 'W:', [(wname, wkind, 'igris_verif_r_cbuf', 'cbuf', ln, 4) for ln in range(4)]))
    for (rname, rlabel, rkind) in readers:
        caps = [0] if rkind == 'set' else list(range(5))
        plans.append((rlabel, R_CL[rkind], 'R:', [('igris_verif_w_buffer', 'buffer', rname, rkind, ln, cap)
                                                   for ln in range(4) for cap in caps]))
    for (label, clauses, side, scen) in plans:
        failed = {}
        broken = None
        for sc in scen:
            try:
                with_pins(lambda assume: scenario(*sc, assume))
            except Fail as f:
                if f.clause.startswith(side):
                    failed.setdefault(f.clause, f)
                # a failure of the other side is reported with that side's function
            except Stop as e:
                broken = AnalysisBroken('%s: %s at %s (%s)' % (label, e.text, e.where, chain_text(e.chain or [])))
            except AnalysisBroken as e:
                broken = AnalysisBroken('%s: %s' % (label, e))
            except (KeyError, IndexError, TypeError, ValueError, AttributeError, RecursionError) as e:
                broken = AnalysisBroken('%s: the interpreter cannot follow this code (%s: %s)' % (label, type(e).__name__, e))
        if broken is not None and not failed:
            rep.defer_broken(broken)
            continue
        f0 = wfn(scen[0][0] if side == 'W:' else scen[0][2])
        where0 = '%s:%d' % (f0.file, f0.line)
        for c in clauses:
            f = failed.get(c)
            if f is None and failed and clauses.index(c) > min(clauses.index(x) for x in failed):
                continue
            rep.inst(RULE_BLOCK, label, c[2:], f is None, (f.where if f is not None and f.where else where0),
                     None if f is None else f.text)


ROOTS_CACHE = {}
WIT_RT_A = 'w_c09_roundtrip_a.cpp'
WIT_RT_B = 'w_c09_roundtrip_b.cpp'


def compile_units(repo, names):
    from concurrent.futures import ThreadPoolExecutor
    with ThreadPoolExecutor(max_workers=len(names)) as ex:
        return list(ex.map(lambda n: witness(n, repo), names))


# ----------------------------------------------------------------------------------------------------------------
def run_ext(rep, repo, tier):
    import c09
    stats = {}
    variants = list(range(8)) if tier == 'thorough' else [0, 1, 2, 3]
    moda, modra, modb, modrb = compile_units(repo, [WIT_A, WIT_RT_A, WIT_B, WIT_RT_B])
    done = set()
    n_roots = {}
    for mod, wit in ((moda, WIT_A), (modra, WIT_RT_A)):
        ctx = Ctx(mod, repo)
        roots = c09.roots_a(mod)
        ROOTS_CACHE[id(mod)] = roots
        arch = ArchiveA(ctx)
        before = len(done)
        roundtrip_rule(rep, ctx, arch, roots, variants, stats, done)
        mixed_rule(rep, ctx, arch, roots, stats, wit)
        if wit == WIT_A:
            block_rules(rep, ctx, arch, stats)
        api_rule(rep, ctx, 'A', variants, stats, done)
        n_roots[wit] = len(done) - before
        rep.units.append('witness/%s -> igris/serialize/archive.h, helper.h, stdtypes.h, igris/buffer.h (round trip)' % wit)
    for mod, wit in ((modb, WIT_B), (modrb, WIT_RT_B)):
        ctx = Ctx(mod, repo)
        roots = c09.roots_b(mod)
        arch = ArchiveB(ctx)
        before = len(done)
        roundtrip_rule(rep, ctx, arch, roots, variants, stats, done)
        mixed_rule(rep, ctx, arch, roots, stats, wit)
        api_rule(rep, ctx, 'B', variants, stats, done)
        n_roots[wit] = len(done) - before
        rep.units.append('witness/%s -> igris/serialize/serializer.h, serialize_protocol.h, serialize_storage.h, '
                         'serialize_archive.h (round trip)' % wit)
    for wit, floor in ((WIT_A, 55), (WIT_RT_A, 30), (WIT_B, 24), (WIT_RT_B, 12)):
        if n_roots.get(wit, 0) < floor:
            raise AnalysisBroken('only %d serializer/deserializer pairs and entry points analysed in %s (floor %d)'
                                 % (n_roots.get(wit, 0), wit, floor))
    for sub, floor in (('completes', 75), ('value', 75), ('cursor', 75), ('reads', 75), ('sequence', 80), ('image', 75), ('writer', 12),
                       ('api', 140)):
        rep.floor(RULE + ':' + sub, floor)
    rep.floor(RULE_BLOCK, 18)
    rep.explanation += (
        ' ROUND TRIP BY BYTE IDENTITY (c09_roundtrip.py): for every paired type of both archive families, of the deeper '
        'nestings of witness/w_c09_roundtrip_*.cpp (containers of containers to depth 3, maps of containers, containers of '
        'pairs/tuples, reflectable structs of reflectable structs) and for the functional entry points '
        'serialize(obj)/deserialize<T>(bytes), a value is laid out on %d small concrete shapes per type (every container '
        'length 0..3 at every level, spare vector capacity, the empty string as a map key) with one symbol per byte; the '
        'writer is interpreted into a real archive object, the reader on exactly the bytes written, and the rebuilt object '
        'is compared symbol by symbol (scalar bytes, lengths, element order, map entries), the read cursor must stand at '
        'the end of the value\'s own encoding, the reader must not touch a byte outside it, four values (and all paired '
        'types of a unit) written one after the other must come back in order, a binary_buffer_writer must produce the '
        'same bytes as the string writer, every archive byte is a count or a byte of the value (the padding of a scalar\'s '
        'native image - IR store size below alloc size, x86_fp80 - is don\'t-care); counted blocks: payload 0..3 into destinations 0..4 deliver exactly '
        'min(len,max) bytes, leave the rest of the destination alone, skip the remainder (the int that follows decodes), '
        'shrink the writable buffer / aim the settable buffer at the payload. libstdc++ is interpreted from its own IR on '
        'these shapes; nothing is executed and contents are never numbers (control that depends on contents is explored '
        'with pinned representatives: a failing pinned run is a counterexample, passing ones prove nothing -> analysis '
        'broken).' % len(variants))
    rep.assumptions += [
        'round trip: shapes are small (lengths 0..3); larger lengths rely on the uniformity of the loops (counts near the '
        '16-bit limit are decided by R-COUNT16 / R-WIRE)',
        'round trip: map keys of the written value are distinct and ascending in the map\'s order (std::less is an oracle '
        'on key identities); operator new / delete, memcpy & co and the three out-of-line red-black-tree primitives of '
        'libstdc++.so are modelled, the header part of libstdc++ is interpreted']
    rep.trusted = list(rep.trusted) + ['checks/c09_roundtrip_vm.py concrete-shape / symbolic-content IR interpreter',
                                       'debug-info type descriptions (member offsets) of libstdc++ containers']
    rep.extra.setdefault('roundtrip', {}).update({
        'scenarios': stats.get('scenarios', 0), 'instructions_interpreted': stats.get('steps', 0),
        'calls_interpreted': stats.get('calls', 0), 'library_functions_interpreted': len(stats.get('fns', ())),
        'shapes_per_type': len(variants)})
