"""C03 ring buffers: statically decided clauses (DESIGN.md 5/C03)."""
from common import *

RING = StructSpec('struct.ring_head',
                  inv=['head >= 0', 'tail >= 0', 'head <= size - 1', 'tail <= size - 1', 'size >= 2',
                       'size <= 2147483647'])
RCNT = StructSpec('struct.ring_counter',
                  inv=['counter >= 0', 'counter <= size - 1', 'size >= 1'])

UNCH = ['head_post == head', 'tail_post == tail', 'size_post == size']


def step(var):
    o = 'tail' if var == 'head' else 'head'
    return [dict(name='advance', when=['%s <= size - 2' % var], then=['%s_post == %s + 1' % (var, var), '%s_post == %s' % (o, o)]),
            dict(name='wrap', when=['%s == size - 1' % var], then=['%s_post == 0' % var, '%s_post == %s' % (o, o)])]


RING_FNS = {
    'ring_init': FnSpec(pre=['r_size >= 2', 'r_size <= 2147483647'],
                        post=[dict(name='empty', then=['head_post == 0', 'tail_post == 0', 'size_post == r_size'])]),
    'ring_clean': FnSpec(post=[dict(name='empty', then=['head_post == 0', 'tail_post == 0', 'size_post == size'])]),
    'ring_empty': FnSpec(post=[dict(name='empty', when=['head == tail'], then=['ret == 1'] + UNCH),
                               dict(name='nonempty', when=['head != tail'], then=['ret == 0'] + UNCH)]),
    'ring_full': FnSpec(post=[
        dict(name='full-a', when=['tail >= 1', 'head == tail - 1'], then=['ret == 1'] + UNCH),
        dict(name='full-b', when=['tail == 0', 'head == size - 1'], then=['ret == 1'] + UNCH),
        dict(name='notfull-a', when=['tail >= 1', 'head != tail - 1'], then=['ret == 0'] + UNCH),
        dict(name='notfull-b', when=['tail == 0', 'head != size - 1'], then=['ret == 0'] + UNCH)]),
    'ring_avail': FnSpec(post=[
        dict(name='nowrap', when=['head >= tail'], then=['ret == head - tail'] + UNCH),
        dict(name='wrap', when=['head < tail'], then=['ret == head - tail + size'] + UNCH)]),
    'ring_room': FnSpec(post=[
        dict(name='nowrap', when=['head >= tail'], then=['ret == size - 1 - (head - tail)'] + UNCH),
        dict(name='wrap', when=['head < tail'], then=['ret == size - 1 - (head - tail + size)'] + UNCH)]),
    'ring_move_head_one': FnSpec(post=step('head')),
    'ring_move_tail_one': FnSpec(post=step('tail')),
    'ring_move_head': FnSpec(pre=['bias <= size'], post=[
        dict(name='nowrap', when=['head + bias <= size - 1'], then=['head_post == head + bias', 'tail_post == tail']),
        dict(name='other', then=['tail_post == tail', 'size_post == size'])]),
    'ring_move_tail': FnSpec(pre=['bias <= size'], post=[
        dict(name='nowrap', when=['tail + bias <= size - 1'], then=['tail_post == tail + bias', 'head_post == head']),
        dict(name='other', then=['head_post == head', 'size_post == size'])]),
    'ring_fixup_head': FnSpec(),
    'ring_fixup_tail': FnSpec(),
    'ring_fixup_index': FnSpec(post=[dict(name='range', then=['ret >= 0', 'ret <= size - 1']),
                                     dict(name='identity', when=['index >= 0', 'index <= size - 1'], then=['ret == index']),
                                     dict(name='wrap-below', when=['index <= -1', 'index >= 1 - size'], then=['ret == index + size']),
                                     dict(name='wrap-above', when=['index >= size', 'index <= 2 * size - 1'], then=['ret == index - size'])]),
    'ring_putc': FnSpec(extents={'buffer': 'size'}, post=[
        dict(name='full-a', when=['tail >= 1', 'head == tail - 1'], then=['ret == 0'] + UNCH),
        dict(name='full-b', when=['tail == 0', 'head == size - 1'], then=['ret == 0'] + UNCH),
        dict(name='store-a', when=['tail >= 1', 'head != tail - 1', 'head <= size - 2'],
             then=['ret == 1', 'head_post == head + 1', 'tail_post == tail']),
        dict(name='store-b', when=['tail == 0', 'head <= size - 2'],
             then=['ret == 1', 'head_post == head + 1', 'tail_post == tail']),
        dict(name='store-wrap', when=['tail >= 1', 'head == size - 1', 'head != tail - 1'],
             then=['ret == 1', 'head_post == 0', 'tail_post == tail'])]),
    'ring_getc': FnSpec(extents={'buffer': 'size'}, post=[
        dict(name='empty', when=['head == tail'], then=['ret == -1'] + UNCH),
        dict(name='byte', when=['head != tail'], then=['ret >= 0', 'ret <= 255', 'head_post == head']),
        dict(name='advance', when=['head != tail', 'tail <= size - 2'], then=['tail_post == tail + 1']),
        dict(name='wrap', when=['head != tail', 'tail == size - 1'], then=['tail_post == 0'])]),
    'ring_read': FnSpec(extents={'buffer': 'r.size', 'data': 'size'}, post=[
        dict(name='count', then=['ret >= 0', 'ret <= size'])]),
    'ring_write': FnSpec(extents={'buffer': 'r.size', 'data': 'size'}, post=[
        dict(name='count', then=['ret >= 0', 'ret <= size'])]),
}

RCNT_FNS = {
    'ring_counter_init': FnSpec(pre=['size >= 1'], structs=None),
    'ring_counter_fixup': FnSpec(),
    'ring_counter_fixup_pos': FnSpec(post=[dict(name='range', then=['ret >= 0', 'ret <= size - 1']),
                                           dict(name='identity', when=['pos >= 0', 'pos <= size - 1'], then=['ret == pos'])]),
    'ring_counter_set': FnSpec(pre=['val >= 0']),
    'ring_counter_increment': FnSpec(pre=['arg >= 0', 'arg <= size']),
    'ring_counter_get': FnSpec(post=[dict(name='value', then=['ret == counter'])]),
    'ring_counter_prev': FnSpec(pre=['i >= 0', 'i <= size'], post=[dict(name='range', then=['ret >= 0', 'ret <= size - 1']),
                                                     dict(name='nowrap', when=['i <= counter'], then=['ret == counter - i'])]),
    'ring_counter_last': FnSpec(pre=['no >= 0', 'no <= size'], post=[dict(name='range', then=['ret >= 0', 'ret <= size - 1'])]),
}


RINGXX_INV = ['r.head >= 0', 'r.tail >= 0', 'r.head <= r.size - 1', 'r.tail <= r.size - 1', 'r.size >= 2',
              'r.size <= 1073741824', 'buffer.m_size == r.size']
# igris::ring<T>: the ring_head indexes 'buffer', so its size must equal the element count of the buffer
RINGXX_INT = StructSpec('class.igris::ring', inv=RINGXX_INV, owns={'buffer.m_data': 'buffer.m_size * 4'})
RINGXX_CHAR = StructSpec('class.igris::ring.char', inv=RINGXX_INV, owns={'buffer.m_data': 'buffer.m_size'})
CYCLIC = StructSpec('class.igris::cyclic_buffer',
                    inv=['counter.counter >= 0', 'counter.counter <= counter.size - 1', 'counter.size >= 1',
                         'counter.size <= 1073741824', 'data.m_size == counter.size'],
                    owns={'data.m_data': 'data.m_size * 4'})


def ringxx_specs(mod):
    R = 'igris::ring<int'
    s = {
        cxx(mod, R, 'ring'): FnSpec(ctor=True, pre=['bufsize >= 1', 'bufsize <= 1073741822']),
        cxx(mod, R, 'resize'): FnSpec(pre=['sz >= 2', 'sz <= 1073741822']),
        cxx(mod, R, 'reset'): FnSpec(),
        cxx(mod, R, 'push'): FnSpec(),
        cxx(mod, R, 'emplace'): FnSpec(),
        cxx(mod, R, 'pop'): FnSpec(),
        cxx(mod, R, 'clear'): FnSpec(),
        cxx(mod, R, 'move_head_one'): FnSpec(),
        cxx(mod, R, 'avail'): FnSpec(),
        cxx(mod, R, 'room'): FnSpec(),
        cxx(mod, R, 'size'): FnSpec(post=[dict(name='value', then=['ret == r.size'])]),
        cxx(mod, R, 'get'): FnSpec(pre=['index >= 0', 'index <= r.size - 1']),
        cxx(mod, R, 'tail_index'): FnSpec(post=[dict(name='value', then=['ret == r.tail'])]),
        cxx(mod, R, 'head_index'): FnSpec(post=[dict(name='value', then=['ret == r.head'])]),
        cxx(mod, R, 'set_last_index'): FnSpec(pre=['idx >= 0', 'idx <= r.size - 1']),
        cxx(mod, R, 'fixup_index'): FnSpec(post=[
            dict(name='range', then=['ret >= 0', 'ret <= r.size - 1']),
            dict(name='identity', when=['index >= 0', 'index <= r.size - 1'], then=['ret == index']),
            dict(name='wrap-below', when=['index <= -1', 'index >= 1 - r.size'], then=['ret == index + r.size']),
            dict(name='wrap-above', when=['index >= r.size', 'index <= 2 * r.size - 1'], then=['ret == index - r.size'])]),
        cxx(mod, R, 'head_place'): FnSpec(),
        cxx(mod, R, 'distance'): FnSpec(pre=['a >= 0', 'a <= r.size - 1', 'b >= 0', 'b <= r.size - 1'], post=[
            dict(name='ahead', when=['a >= b'], then=['ret == a - b']),
            dict(name='behind', when=['a < b'], then=['ret == a - b + r.size'])]),
        fn_named(mod, 'igris_verif_ring_last'): FnSpec(),
        fn_named(mod, 'igris_verif_ring_tail'): FnSpec(),
        fn_named(mod, 'igris_verif_ring_empty'): FnSpec(),
        fn_named(mod, 'igris_verif_ring_move_tail_one'): FnSpec(),
    }
    C = 'igris::ring<char'
    sc = {
        cxx(mod, C, 'read'): FnSpec(structs={'this': RINGXX_CHAR}, extents={'buf': 'sz'}, pre=['sz <= 1073741824']),
        cxx(mod, C, 'write'): FnSpec(structs={'this': RINGXX_CHAR}, extents={'buf': 'sz'}, pre=['sz <= 1073741824']),
    }
    Y = 'igris::cyclic_buffer<int'
    cy = {
        cxx(mod, Y, 'cyclic_buffer'): FnSpec(ctor=True, pre=['size >= 1', 'size <= 1073741824']),
        cxx(mod, Y, 'size'): FnSpec(),
        cxx(mod, Y, 'push'): FnSpec(),
        cxx(mod, Y, 'operator[]', nth=0): FnSpec(pre=['i >= 0', 'i <= counter.size']),
        cxx(mod, Y, 'operator[]', nth=1): FnSpec(pre=['i >= 0', 'i <= counter.size']),
        cxx(mod, Y, 'resize'): FnSpec(pre=['size >= 1', 'size <= 1073741824']),
    }
    return s, sc, cy


def run(rep, repo, tier):
    rep.explanation = (
        'Abstract interpretation of every function of datastruct/ring.h and ring_counter.h under the invariant '
        '0 <= head,tail < size (size >= 2): proves indices stay in [0,size), buffer accesses in bounds, '
        'closed-form results of empty/full/avail/room, refusal without state change, getc result in {-1} or 0..255, '
        'no signed->unsigned modulo of a possibly negative index. Decides these clauses for all sizes and states; '
        'FIFO/losslessness over histories is not decided.')
    rep.assumptions += ['size <= INT_MAX', 'bulk moves are called with bias <= size', 'buffer has size bytes',
                        'distinct pointer parameters do not alias']
    mod = witness('w_ring.c', repo)
    rep.units.append('witness/w_ring.c -> igris/datastruct/ring.h, ring_counter.h')
    fns = dict(RING_FNS)
    run_contracts(rep, 'R-RING', mod, [RING, RCNT], fns)
    run_contracts(rep, 'R-RINGCOUNTER', mod, [RING, RCNT], RCNT_FNS)
    modx = witness('w_ringxx.cpp', repo)
    rep.units.append('witness/w_ringxx.cpp -> igris/container/ring.h, cyclic_buffer.h, unbounded_array.h')
    s, sc, cy = ringxx_specs(modx)
    run_contracts(rep, 'R-RINGXX', modx, [RINGXX_INT], s)
    run_contracts(rep, 'R-RINGXX', modx, [RINGXX_INT], sc)
    run_contracts(rep, 'R-CYCLIC', modx, [CYCLIC], cy)
    rep.floor('R-RINGXX:invariant', 100)
    rep.floor('R-RINGXX:bounds', 10)
    rep.floor('R-RINGXX:ownership', 20)
    rep.floor('R-CYCLIC:invariant', 20)
    rep.floor('R-RING:bounds', 10)
    rep.floor('R-RING:invariant', 60)
    rep.floor('R-RING:post', 60)
    rep.floor('R-RINGCOUNTER:invariant', 10)
    import c03_content
    c03_content.run_ext(rep, repo, tier)
